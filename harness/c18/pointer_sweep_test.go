package c18

import (
	"fmt"
	"testing"

	"verifharness/kit/ev"
	"verifharness/kit/wire"
)

const chkPointer = "protected-pointer-sweep"

func init() { ev.RegisterReplay(chkPointer, replay) }

// TestProtectedPointerSweep decides the clause "an accepted JSON patch can neither address, move nor remove the
// public-key or service sections" by its effect: every RFC 6902 operation is aimed at the sections, at entries and
// at members of entries, through pointers spelled in every way a lenient pointer reader might follow to the same
// place (text in front of the first '/', index spellings 0 / 00 / +0 / -0 / -1 / '-'), as path and as from. Whatever
// validation accepts is applied to a document that has both sections: they must come out deep-equal (or the
// application must fail).
func TestProtectedPointerSweep(t *testing.T) {
	ev.Rule(chkPointer, "deterministic sweep: 6 RFC 6902 operations x {path, from} aimed at /publicKey, /service, an entry (index spelled 0, 00, +0, -0, -1, -), a member of an entry x 9 texts in front of the first '/' (none, x, 0, ~, blank, #, ., publicKey, service) x value present / absent, the other pointer being an unprotected member; oracle: ValidateDelta rejects, or the application to a document with both sections fails, or it leaves publicKey and service deep-equal (and the stated pointer rule holds for anchored pointers); non-trivial = every case; the anchored spellings are the control group (all must be rejected)")
	doc := smallDocs[3]
	item := 0
	for _, op := range []string{"add", "remove", "replace", "move", "copy", "test"} {
		for _, sec := range []string{"/publicKey", "/service"} {
			var targets []string
			targets = append(targets, sec)
			for _, idx := range []string{"0", "00", "+0", "-0", "-1", "-"} {
				targets = append(targets, sec+"/"+idx, sec+"/"+idx+"/id")
			}
			for _, target := range targets {
				for _, prefix := range []string{"", "x", "0", "~", " ", "#", ".", "publicKey", "service"} {
					for _, role := range []string{"path", "from"} {
						for _, withValue := range []bool{true, false} {
							item++
							if !ev.Mine(item) {
								continue
							}
							o := map[string]interface{}{"op": op}
							if role == "path" {
								o["path"] = prefix + target
								o["from"] = "/m1"
							} else {
								o["from"] = prefix + target
								o["path"] = "/moved"
							}
							if withValue {
								o["value"] = map[string]interface{}{"id": "evil", "type": "x"}
							}
							c := &Case{Enabled: wire.AllPatches, Doc: deep(doc), Patches: []interface{}{map[string]interface{}{"action": "ietf-json-patch", "patches": []interface{}{o}}}}
							kind, msg, accepted := evalCase(c)
							if prefix == "" && accepted && kind == "" {
								kind, msg = "C18/accepted-violating-rule", fmt.Sprintf("validation accepted a JSON patch whose %s %q addresses a protected section: %s", role, prefix+target, js(c.Patches))
							}
							ev.Record(chkPointer, true, ev.Hash(c), "op:"+op, "role:"+role, fmt.Sprintf("anchored:%v", prefix == ""), fmt.Sprintf("accepted:%v", accepted))
							ev.SampleFn(chkPointer, func() interface{} { return map[string]interface{}{"operation": o, "accepted": accepted} })
							if kind != "" {
								ev.Fail(t, chkPointer, kind, sigOf(kind, msg), c, "%s", msg)
							}
						}
					}
				}
			}
		}
	}
	ev.Exhaustive(chkPointer)
}

const chkIndex = "array-index-sweep"

func init() { ev.RegisterReplay(chkIndex, replay) }

// TestArrayIndexSweep aims every RFC 6902 operation at array positions from far below to far beyond the array
// (as path and, for move / copy, as from): whatever validation accepts must come back as a document or an error -
// in particular nothing may be allocated for an index that no array of the document can have.
func TestArrayIndexSweep(t *testing.T) {
	idx := []string{"-2", "-1", "0", "1", "2", "3", "-", "00", "+1", "1000000", "1099511627776", "17592186044416", "4611686018427387904", "9223372036854775807", "9223372036854775808", "18446744073709551616"}
	ev.Rule(chkIndex, fmt.Sprintf("deterministic sweep: 6 RFC 6902 operations x 3 arrays (top-level, nested in an array, nested in an object) x %d index spellings from -2 to beyond 2^64 (incl. 10^6, 2^40, 2^44, 2^62, 2^63-1) x {path, from} x 2 documents, plus move / copy whose source is an earlier element of the array the target goes through (the positions shift when the source is taken out), plus arrays behind members whose names need pointer escaping (~0, ~1, and ~01 which is the name '~1'); oracle: a document or an error - never a panic, a hang or a fatal crash (in-flight journal); non-trivial = every case", len(idx)))
	item := 0
	for di, doc := range []interface{}{smallDocs[1], smallDocs[2]} {
		for _, op := range []string{"add", "remove", "replace", "move", "copy", "test"} {
			for _, container := range []string{"/m1", "/arr2/0", "/deep/a"} {
				for _, i := range idx {
					for _, role := range []string{"path", "from"} {
						item++
						if !ev.Mine(item) {
							continue
						}
						o := map[string]interface{}{"op": op, "value": "v"}
						if role == "path" {
							o["path"], o["from"] = container+"/"+i, "/label"
							if di == 1 {
								o["from"] = "/m1"
							}
						} else {
							o["from"], o["path"] = container+"/"+i, "/target"
						}
						c := &Case{Enabled: wire.AllPatches, Doc: deep(doc), Patches: []interface{}{map[string]interface{}{"action": "ietf-json-patch", "patches": []interface{}{o}}}}
						kind, msg, accepted := evalCase(c)
						ev.Record(chkIndex, true, ev.Hash(c), "op:"+op, "role:"+role, "index:"+i, fmt.Sprintf("accepted:%v", accepted))
						ev.SampleFn(chkIndex, func() interface{} { return map[string]interface{}{"operation": o, "accepted": accepted} })
						if kind != "" {
							ev.Fail(t, chkIndex, kind, sigOf(kind, msg), c, "%s", msg)
						}
					}
				}
			}
		}
	}
	// a 'move' whose source is an earlier element of the array that its target goes through: the positions shift when
	// the source is taken out, so the target addresses another element than it does in the document as it stands
	shiftDoc := map[string]interface{}{"a": []interface{}{float64(0), float64(5), []interface{}{float64(1)}}, "b": []interface{}{float64(0), map[string]interface{}{}, []interface{}{}}, "c": []interface{}{[]interface{}{"x"}, []interface{}{"y"}}}
	for _, op := range []string{"move", "copy"} {
		for _, pair := range [][2]string{{"/a/0", "/a/1/"}, {"/b/0", "/b/1/"}, {"/c/0", "/c/0/"}, {"/a/00", "/a/1/"}, {"/a/1", "/a/1/"}} {
			for _, i := range idx {
				item++
				if !ev.Mine(item) {
					continue
				}
				o := map[string]interface{}{"op": op, "from": pair[0], "path": pair[1] + i}
				c := &Case{Enabled: wire.AllPatches, Doc: deep(shiftDoc), Patches: []interface{}{map[string]interface{}{"action": "ietf-json-patch", "patches": []interface{}{o}}}}
				kind, msg, accepted := evalCase(c)
				ev.Record(chkIndex, true, ev.Hash(c), "op:"+op, "role:shifted-target", "index:"+i, fmt.Sprintf("accepted:%v", accepted))
				ev.SampleFn(chkIndex, func() interface{} { return map[string]interface{}{"operation": o, "accepted": accepted} })
				if kind != "" {
					ev.Fail(t, chkIndex, kind, sigOf(kind, msg), c, "%s", msg)
				}
			}
		}
	}
	// arrays behind members whose names need escaping in a JSON pointer ('~' as ~0, '/' as ~1; "~01" is the name "~1",
	// not "/"): whoever follows the pointer in front of the patch library has to read the tokens as the library does
	escDoc := map[string]interface{}{"~1": []interface{}{"a", "b"}, "a/b": []interface{}{"a"}, "~": []interface{}{"a"}, "~0": []interface{}{"a"}, "x~1y": map[string]interface{}{"l": []interface{}{"a"}}, "label": "text"}
	for _, op := range []string{"move", "copy", "add", "replace"} {
		for _, container := range []string{"/~01", "/a~1b", "/~0", "/~00", "/x~01y/l"} {
			for _, i := range []string{"1", "3", "1000000", "17592186044416", "9223372036854775807"} {
				item++
				if !ev.Mine(item) {
					continue
				}
				o := map[string]interface{}{"op": op, "from": "/label", "path": container + "/" + i, "value": "v"}
				c := &Case{Enabled: wire.AllPatches, Doc: deep(escDoc), Patches: []interface{}{map[string]interface{}{"action": "ietf-json-patch", "patches": []interface{}{o}}}}
				kind, msg, accepted := evalCase(c)
				ev.Record(chkIndex, true, ev.Hash(c), "op:"+op, "role:escaped-member-name", "index:"+i, fmt.Sprintf("accepted:%v", accepted))
				ev.SampleFn(chkIndex, func() interface{} { return map[string]interface{}{"operation": o, "accepted": accepted} })
				if kind != "" {
					ev.Fail(t, chkIndex, kind, sigOf(kind, msg), c, "%s", msg)
				}
			}
		}
	}
	ev.Exhaustive(chkIndex)
}
