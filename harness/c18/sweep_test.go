package c18

import (
	"fmt"
	"strings"
	"testing"

	"verifharness/kit/ev"
	"verifharness/kit/gen"
	"verifharness/kit/keys"
	"verifharness/kit/wire"
)

const chkSweep = "rule-boundary-sweep"

func init() { ev.RegisterReplay(chkSweep, replay) }

func sweepKey(id interface{}) map[string]interface{} {
	return map[string]interface{}{"id": id, "type": "JsonWebKey2020", "purposes": []interface{}{"authentication"}, "publicKeyJwk": keys.Get(keys.P256, "c18sweep", 1).JWKMap()}
}

func sweepService(id interface{}) map[string]interface{} {
	return map[string]interface{}{"id": id, "type": "hub", "serviceEndpoint": "https://example.com/hub"}
}

// slots: the four places where a delta carries key or service entries.
var sweepSlots = []string{"add-public-keys", "add-services", "replace/publicKeys", "replace/services"}

func slotPatch(slot string, entry map[string]interface{}) interface{} {
	switch slot {
	case "add-public-keys":
		return map[string]interface{}{"action": "add-public-keys", "publicKeys": []interface{}{entry}}
	case "add-services":
		return map[string]interface{}{"action": "add-services", "services": []interface{}{entry}}
	case "replace/publicKeys":
		return map[string]interface{}{"action": "replace", "document": map[string]interface{}{"publicKeys": []interface{}{entry}}}
	}
	return map[string]interface{}{"action": "replace", "document": map[string]interface{}{"services": []interface{}{entry}}}
}

func slotEntry(slot string, id interface{}) map[string]interface{} {
	if strings.HasSuffix(slot, "eys") {
		return sweepKey(id)
	}
	return sweepService(id)
}

// TestRuleBoundaries sweeps every structural rule of the statement one deviation at a time, deterministically.
func TestRuleBoundaries(t *testing.T) {
	ev.Rule(chkSweep, "deterministic sweep, one deviation per case, in each of the four entry slots (add-public-keys, add-services, replace document keys / services): (a) id = 'k', 'k'+c, c+'k', 'k'+c+'k' for every 7-bit character c and 12 non-ASCII ones; (b) id of every length 0..52; (c) service type of every length 0..32; (d) every key type x every single purpose and every pair of purposes; (e) every subset of the key-material members publicKeyJwk / publicKeyBase58; (f) two entries with equal ids at every pair of positions of a 3-entry list, for keys also with each entry in turn given as a base58 key of another type; oracle: ValidateDelta accepts => the independent rule predicate finds no violated rule, and the unaltered base entry must be accepted (the sweep is not vacuous); accepted deltas are also applied; non-trivial = every case")
	item := 0
	probe := func(cls string, c *Case) bool {
		item++
		if !ev.Mine(item) {
			return false
		}
		kind, msg, accepted := evalCase(c)
		ev.Record(chkSweep, true, ev.Hash(c), "class:"+cls, fmt.Sprintf("accepted:%v", accepted))
		ev.SampleFn(chkSweep, func() interface{} { return map[string]interface{}{"patches": c.Patches, "accepted": accepted} })
		if kind != "" {
			ev.Fail(t, chkSweep, kind, sigOf(kind, msg), c, "%s", msg)
		}
		return accepted
	}
	one := func(p interface{}) *Case { return &Case{Enabled: wire.AllPatches, Patches: []interface{}{p}} }
	// the base entries must be accepted, else nothing below means anything
	for _, slot := range sweepSlots {
		c := one(slotPatch(slot, slotEntry(slot, "k1")))
		if _, _, accepted := evalCase(c); !accepted {
			t.Fatalf("harness: the unaltered base entry in %s is not accepted: %s", slot, js(c.Patches))
		}
	}
	// (a) id alphabet
	var chars []string
	for c := 0; c < 128; c++ {
		chars = append(chars, string(rune(c)))
	}
	chars = append(chars, "ä", "é", "а", " ", " ", "Ａ", "\U0001F600", "ı", "ſ", "K", "ß", "٠")
	for _, slot := range sweepSlots {
		for _, ch := range chars {
			for _, id := range []string{ch, "k" + ch, ch + "k", "k" + ch + "k"} {
				probe("id-charset", one(slotPatch(slot, slotEntry(slot, id))))
			}
		}
		// (b) id length
		for n := 0; n <= 52; n++ {
			probe("id-length", one(slotPatch(slot, slotEntry(slot, strings.Repeat("a", n)))))
		}
		probe("id-absent", one(slotPatch(slot, func() map[string]interface{} { e := slotEntry(slot, "k1"); delete(e, "id"); return e }())))
		// (f) duplicates
		for i := 0; i < 3; i++ {
			for j := i + 1; j < 3; j++ {
				ids := []string{"a1", "a2", "a3"}
				ids[j] = ids[i]
				var l []interface{}
				for _, id := range ids {
					l = append(l, slotEntry(slot, id))
				}
				p := slotPatch(slot, slotEntry(slot, "x")).(map[string]interface{})
				switch slot {
				case "add-public-keys":
					p["publicKeys"] = l
				case "add-services":
					p["services"] = l
				case "replace/publicKeys":
					p["document"] = map[string]interface{}{"publicKeys": l}
				default:
					p["document"] = map[string]interface{}{"services": l}
				}
				probe("duplicate-id", one(p))
				// ... and, for keys, with every entry of the list in turn given as a base58 key of another type (the
				// duplicate test must not depend on the form of the key material of either entry)
				if strings.HasSuffix(slot, "eys") {
					for b := 0; b < 3; b++ {
						var lb []interface{}
						for n, id := range ids {
							e := slotEntry(slot, id)
							if n == b {
								delete(e, "publicKeyJwk")
								e["type"] = "Ed25519VerificationKey2018"
								e["publicKeyBase58"] = "GY4GunSXBPBfhLCzDL7iGmP5dR3sBDCJZkkaGK8VgYQf"
							}
							lb = append(lb, e)
						}
						pb := map[string]interface{}{"action": "add-public-keys", "publicKeys": lb}
						if slot == "replace/publicKeys" {
							pb = map[string]interface{}{"action": "replace", "document": map[string]interface{}{"publicKeys": lb}}
						}
						probe("duplicate-id-mixed-key-forms", one(pb))
					}
				}
			}
		}
	}
	// (c) service type length
	for _, slot := range []string{"add-services", "replace/services"} {
		for n := 0; n <= 32; n++ {
			e := sweepService("s1")
			e["type"] = strings.Repeat("T", n)
			probe("service-type-length", one(slotPatch(slot, e)))
		}
	}
	// (d) key type x purposes, (e) key material
	material := func(typ string) map[string]interface{} {
		switch typ {
		case "Ed25519VerificationKey2018", "Ed25519VerificationKey2020":
			return keys.Get(keys.Ed25519, "c18sweep", 1).JWKMap()
		case "EcdsaSecp256k1VerificationKey2019":
			return keys.Get(keys.Secp256k1, "c18sweep", 1).JWKMap()
		}
		return keys.Get(keys.P256, "c18sweep", 1).JWKMap()
	}
	for _, slot := range []string{"add-public-keys", "replace/publicKeys"} {
		for _, typ := range append(append([]string{}, gen.AllDocKeyTypes...), "UnknownKeyType2099", "jsonwebkey2020", "") {
			for i, p1 := range gen.AllPurposes {
				e := sweepKey("k1")
				e["type"], e["publicKeyJwk"] = typ, material(typ)
				e["purposes"] = []interface{}{p1}
				probe("type-x-purpose", one(slotPatch(slot, e)))
				for _, p2 := range gen.AllPurposes[i+1:] {
					e2 := sweepKey("k1")
					e2["type"], e2["publicKeyJwk"] = typ, material(typ)
					e2["purposes"] = []interface{}{p1, p2}
					probe("type-x-purpose-pair", one(slotPatch(slot, e2)))
				}
			}
		}
		for mask := 0; mask < 4; mask++ {
			for _, typ := range []string{"JsonWebKey2020", "Ed25519VerificationKey2018", "X25519KeyAgreementKey2019"} {
				e := map[string]interface{}{"id": "k1", "type": typ}
				if typ == "X25519KeyAgreementKey2019" {
					e["purposes"] = []interface{}{"keyAgreement"}
				} else {
					e["purposes"] = []interface{}{"authentication"}
				}
				if mask&1 != 0 {
					e["publicKeyJwk"] = material(typ)
				}
				if mask&2 != 0 {
					e["publicKeyBase58"] = "GY4GunSXBPBfhLCzDL7iGmP5dR3sBDCJZkkaGK8VgYQf"
				}
				probe("key-material-subset", one(slotPatch(slot, e)))
			}
		}
	}
	ev.Exhaustive(chkSweep)
}
