// Package c18 decides property C18: a delta accepted by validation obeys the structural rules, an accepted
// JSON patch can neither address, move nor remove the public-key or service sections, and applying any
// accepted delta to any reachable document returns a document or an error - never a panic, a stack overflow
// or a hang.
package c18

import (
	"encoding/json"
	"fmt"
	"reflect"
	"regexp"
	"strings"
	"testing"
	"time"

	"github.com/trustbloc/sidetree-core-go/pkg/document"
	"github.com/trustbloc/sidetree-core-go/pkg/patch"
	"github.com/trustbloc/sidetree-core-go/pkg/versions/1_0/doccomposer"
	"github.com/trustbloc/sidetree-core-go/pkg/versions/1_0/model"
	"github.com/trustbloc/sidetree-core-go/pkg/versions/1_0/operationparser"
	"pgregory.net/rapid"

	"verifharness/kit/asm"
	"verifharness/kit/ev"
	"verifharness/kit/gen"
	"verifharness/kit/keys"
	"verifharness/kit/wire"
)

func TestMain(m *testing.M) { ev.Main(m, "C18") }

const (
	chkRules = "accepted-implies-structural-rules"
	chkApply = "accepted-delta-applies-safely"
	chkFuzz  = "FuzzJSONPatch"
)

// Case: enabled patch actions, a document-building prefix and the patch list of the delta under test.
type Case struct {
	Enabled []string      `json:"enabled"`
	Prefix  []interface{} `json:"prefix"`
	Doc     interface{}   `json:"doc,omitempty"` // explicit input document (overrides Prefix)
	Patches []interface{} `json:"patches"`
}

func init() {
	for _, c := range []string{chkRules, chkApply, chkFuzz} {
		ev.RegisterReplay(c, replay)
	}
	ev.Assume("'valid URI' is RFC 3986's URI production (scheme, then unreserved / reserved characters and well-formed percent-encodings), checked by the harness itself")
	ev.Assume("hangs are judged by a watchdog of 20 s per application (>= 100000x the normal time); fatal crashes by an in-flight journal re-run in a fresh process")
}

// TestReplay runs first.
func TestReplay(t *testing.T) { ev.ReplayMain(t) }

func js(v interface{}) string {
	b, _ := json.Marshal(v)
	return string(b)
}

func replay(raw json.RawMessage) (string, string) {
	var c Case
	if err := json.Unmarshal(raw, &c); err != nil {
		return "bad-replay", err.Error()
	}
	k, m, _ := evalCase(&c)
	return k, m
}

// parsers and the composer are long-lived (one per configuration for the whole process), as on a real node.
var (
	parsers   = map[string]*operationparser.Parser{}
	longLived = doccomposer.New()
)

func parserFor(enabled []string) *operationparser.Parser {
	key := strings.Join(enabled, ",")
	if p, ok := parsers[key]; ok {
		return p
	}
	p := wire.BaseProtocol()
	p.Patches = enabled
	p.MaxDeltaSize = 1 << 20
	parsers[key] = operationparser.New(p)
	return parsers[key]
}

func toPatches(l []interface{}) ([]patch.Patch, bool) {
	var out []patch.Patch
	for _, p := range l {
		b, _ := json.Marshal(p)
		var pp patch.Patch
		if err := json.Unmarshal(b, &pp); err != nil {
			return nil, false
		}
		out = append(out, pp)
	}
	return out, true
}

// ---- the independent rule predicate ---------------------------------------------------------------------------

var idRe = regexp.MustCompile(`^[A-Za-z0-9_-]{1,50}$`)

var verification = map[string]bool{"Bls12381G2Key2020": true, "JsonWebKey2020": true, "EcdsaSecp256k1VerificationKey2019": true, "Ed25519VerificationKey2018": true, "Ed25519VerificationKey2020": true}
var agreement = map[string]bool{"Bls12381G2Key2020": true, "JsonWebKey2020": true, "EcdsaSecp256k1VerificationKey2019": true, "X25519KeyAgreementKey2019": true}

func permitted(typ, purpose string) bool {
	switch purpose {
	case "authentication", "assertionMethod", "capabilityDelegation", "capabilityInvocation":
		return verification[typ]
	case "keyAgreement":
		return agreement[typ]
	}
	return false
}

func objectsOf(v interface{}) []map[string]interface{} {
	l, _ := v.([]interface{})
	var out []map[string]interface{}
	for _, e := range l {
		if m, ok := e.(map[string]interface{}); ok {
			out = append(out, m)
		}
	}
	return out
}

// validURI is RFC 3986's "URI" production (appendix A), followed by hand: scheme ":" hier-part [ "?" query ]
// [ "#" fragment ], hier-part = "//" authority path-abempty / path-absolute / path-rootless / path-empty, authority =
// [ userinfo "@" ] host [ ":" port ], host = IP-literal / IPv4address / reg-name - square brackets belong around an IP
// literal only, '@' ends the user information once, a port is a number. (Independent of net/url: a request target such
// as "*" or "/path", or text with blanks, is not a URI.)
func validURI(s string) bool {
	i := strings.IndexByte(s, ':')
	if i <= 0 {
		return false
	}
	for j, c := range s[:i] {
		letter := (c >= 'a' && c <= 'z') || (c >= 'A' && c <= 'Z')
		if !(letter || (j > 0 && ((c >= '0' && c <= '9') || c == '+' || c == '-' || c == '.'))) {
			return false
		}
	}
	rest := s[i+1:]
	fragment, query := "", ""
	if k := strings.IndexByte(rest, '#'); k >= 0 {
		rest, fragment = rest[:k], rest[k+1:]
	}
	if k := strings.IndexByte(rest, '?'); k >= 0 {
		rest, query = rest[:k], rest[k+1:]
	}
	if !uriChars(query, "/?:@") || !uriChars(fragment, "/?:@") {
		return false
	}
	path := rest
	if strings.HasPrefix(rest, "//") {
		authority := rest[2:]
		path = ""
		if k := strings.IndexByte(authority, '/'); k >= 0 {
			authority, path = authority[:k], authority[k:]
		}
		if !validAuthority(authority) {
			return false
		}
	}
	// path-abempty / path-absolute / path-rootless / path-empty: segments of pchar separated by "/"
	for _, seg := range strings.Split(path, "/") {
		if !uriChars(seg, ":@") {
			return false
		}
	}
	return true
}

// uriChars: unreserved / pct-encoded / sub-delims plus the given extra characters.
func uriChars(s, extra string) bool {
	for k := 0; k < len(s); k++ {
		c := s[k]
		switch {
		case (c >= 'a' && c <= 'z') || (c >= 'A' && c <= 'Z') || (c >= '0' && c <= '9'):
		case strings.IndexByte("-._~!$&'()*+,;=", c) >= 0 || strings.IndexByte(extra, c) >= 0:
		case c == '%':
			if k+2 >= len(s) || !isHex(s[k+1]) || !isHex(s[k+2]) {
				return false
			}
			k += 2
		default:
			return false
		}
	}
	return true
}

func validAuthority(a string) bool {
	if k := strings.LastIndexByte(a, '@'); k >= 0 {
		if !uriChars(a[:k], ":") {
			return false
		}
		a = a[k+1:]
	}
	host, port := a, ""
	if strings.HasPrefix(a, "[") {
		k := strings.IndexByte(a, ']')
		if k < 0 {
			return false
		}
		host, port = a[:k+1], a[k+1:]
		if port != "" {
			if port[0] != ':' {
				return false
			}
			port = port[1:]
		}
		inner := host[1 : len(host)-1]
		if !(validIPv6(inner) || validIPvFuture(inner)) {
			return false
		}
	} else {
		if k := strings.LastIndexByte(a, ':'); k >= 0 {
			host, port = a[:k], a[k+1:]
		}
		if !uriChars(host, "") { // reg-name (an IPv4 address is one too)
			return false
		}
	}
	for _, c := range port {
		if c < '0' || c > '9' {
			return false
		}
	}
	return true
}

func validIPvFuture(s string) bool {
	if len(s) < 4 || (s[0] != 'v' && s[0] != 'V') {
		return false
	}
	dot := strings.IndexByte(s, '.')
	if dot < 2 || dot == len(s)-1 {
		return false
	}
	for _, c := range []byte(s[1:dot]) {
		if !isHex(c) {
			return false
		}
	}
	return !strings.Contains(s[dot+1:], "%") && uriChars(s[dot+1:], ":")
}

// validIPv6: up to eight groups of 1-4 hex digits, at most one "::" standing for one or more zero groups, optionally an
// IPv4 address in place of the last two groups.
func validIPv6(s string) bool {
	if s == "" {
		return false
	}
	groups := func(part string) (n int, ok bool) {
		if part == "" {
			return 0, true
		}
		gs := strings.Split(part, ":")
		for k, g := range gs {
			if k == len(gs)-1 && strings.Contains(g, ".") {
				if !validIPv4(g) {
					return 0, false
				}
				n += 2
				continue
			}
			if len(g) < 1 || len(g) > 4 {
				return 0, false
			}
			for _, c := range []byte(g) {
				if !isHex(c) {
					return 0, false
				}
			}
			n++
		}
		return n, true
	}
	if k := strings.Index(s, "::"); k >= 0 {
		left, right := s[:k], s[k+2:]
		if strings.Contains(right, "::") {
			return false
		}
		// an IPv4 tail is allowed on the right-hand side only (or on the left when nothing follows "::" - no: the
		// grammar puts ls32 last, so a left part never ends in an IPv4 address unless the right part is empty, and even
		// then "::" comes last, behind h16 groups only)
		if strings.Contains(left, ".") {
			return false
		}
		nl, okl := groups(left)
		nr, okr := groups(right)
		return okl && okr && nl+nr <= 7
	}
	n, ok := groups(s)
	return ok && n == 8
}

func validIPv4(s string) bool {
	parts := strings.Split(s, ".")
	if len(parts) != 4 {
		return false
	}
	for _, p := range parts {
		if p == "" || len(p) > 3 || (len(p) > 1 && p[0] == '0') {
			return false
		}
		v := 0
		for _, c := range p {
			if c < '0' || c > '9' {
				return false
			}
			v = v*10 + int(c-'0')
		}
		if v > 255 {
			return false
		}
	}
	return true
}

func isHex(c byte) bool {
	return (c >= '0' && c <= '9') || (c >= 'a' && c <= 'f') || (c >= 'A' && c <= 'F')
}

func keyRules(keys []map[string]interface{}) string {
	seen := map[string]bool{}
	for _, k := range keys {
		id, _ := k["id"].(string)
		if !idRe.MatchString(id) {
			return fmt.Sprintf("key id %q is not 1-50 URL-safe characters", id)
		}
		if seen[id] {
			return fmt.Sprintf("key id %q is not unique within its patch", id)
		}
		seen[id] = true
		typ, _ := k["type"].(string)
		if ps, ok := k["purposes"].([]interface{}); ok {
			for _, p := range ps {
				s, isStr := p.(string)
				if !isStr {
					// a declared purpose that is not a string names no relationship the type could be permitted for
					return fmt.Sprintf("key %q declares a purpose that is not a string (%v)", id, p)
				}
				if !permitted(typ, s) {
					return fmt.Sprintf("key %q of type %q declares purpose %q for which that type is not permitted", id, typ, s)
				}
			}
		}
		_, hasJwk := k["publicKeyJwk"]
		_, hasB58 := k["publicKeyBase58"]
		if hasJwk == hasB58 {
			return fmt.Sprintf("key %q does not carry exactly one key-material member", id)
		}
	}
	return ""
}

func serviceRules(svcs []map[string]interface{}) string {
	seen := map[string]bool{}
	for _, s := range svcs {
		id, _ := s["id"].(string)
		if !idRe.MatchString(id) {
			return fmt.Sprintf("service id %q is not 1-50 URL-safe characters", id)
		}
		if seen[id] {
			return fmt.Sprintf("service id %q is not unique within its patch", id)
		}
		seen[id] = true
		typ, _ := s["type"].(string)
		if len(typ) > 30 {
			return fmt.Sprintf("service %q has a type of %d characters", id, len(typ))
		}
		switch ep := s["serviceEndpoint"].(type) {
		case string:
			if !validURI(ep) {
				return fmt.Sprintf("service %q endpoint %q is not a valid URI", id, ep)
			}
		case []interface{}:
			for i, e := range ep {
				switch u := e.(type) {
				case string:
					if !validURI(u) {
						return fmt.Sprintf("service %q endpoint[%d] %q is not a valid URI", id, i, u)
					}
				case map[string]interface{}:
					// an endpoint object (a map of endpoint properties) is accepted on purpose by the library
				default:
					return fmt.Sprintf("service %q endpoint[%d] (%v) is neither a URI nor an endpoint object", id, i, e)
				}
			}
		case map[string]interface{}:
		case nil:
			// a missing endpoint is refused by the library; the statement has no rule for it
		default:
			return fmt.Sprintf("service %q endpoint (%v) is neither a URI, a list of endpoints nor an endpoint object", id, ep)
		}
	}
	return ""
}

// protectedPath: the pointer addresses the publicKey or service section or something inside it. (The library
// refuses every path that merely starts with those names, e.g. /publicKeys - a superset, which the statement allows.)
func protectedPath(s string) bool {
	for _, sec := range []string{"/publicKey", "/service"} {
		if s == sec || strings.HasPrefix(s, sec+"/") {
			return true
		}
	}
	return false
}

// entryListRule: whatever a patch carries as its key or service entries is a list of JSON objects; an entry that is
// not an object has no id, type or key material at all, and a value that is not a list is no list of entries.
func entryListRule(v interface{}) string {
	if v == nil {
		return ""
	}
	l, ok := v.([]interface{})
	if !ok {
		return fmt.Sprintf("entries given as %T instead of a list", v)
	}
	for i, e := range l {
		if _, ok := e.(map[string]interface{}); !ok {
			return fmt.Sprintf("entry %d is not an object (%v): it has no id", i, e)
		}
	}
	return ""
}

// brokenRule returns the first stated rule the (accepted) patch list violates, or "".
func brokenRule(patches []interface{}, enabled []string) string {
	for i, p := range patches {
		pm, _ := p.(map[string]interface{})
		a, _ := pm["action"].(string)
		on := false
		for _, e := range enabled {
			if e == a {
				on = true
			}
		}
		if !on {
			return fmt.Sprintf("patch %d uses action %q which is not enabled", i, a)
		}
		var r string
		switch a {
		case "add-public-keys":
			if r = entryListRule(pm["publicKeys"]); r == "" {
				r = keyRules(objectsOf(pm["publicKeys"]))
			}
		case "add-services":
			if r = entryListRule(pm["services"]); r == "" {
				r = serviceRules(objectsOf(pm["services"]))
			}
		case "replace":
			d, _ := pm["document"].(map[string]interface{})
			if r = entryListRule(d["publicKeys"]); r == "" {
				r = entryListRule(d["services"])
			}
			if r == "" {
				r = keyRules(objectsOf(d["publicKeys"]))
			}
			if r == "" {
				r = serviceRules(objectsOf(d["services"]))
			}
		case "ietf-json-patch":
			for j, o := range objectsOf(pm["patches"]) {
				for _, member := range []string{"path", "from"} {
					if s, ok := o[member].(string); ok && protectedPath(s) {
						return fmt.Sprintf("patch %d json-patch operation %d has %s %q addressing a protected section", i, j, member, s)
					}
				}
			}
		}
		if r != "" {
			return fmt.Sprintf("patch %d (%s): %s", i, a, r)
		}
	}
	return ""
}

// ---- evaluation --------------------------------------------------------------------------------------------------

func buildDoc(c *Case) (document.Document, string) {
	if c.Doc != nil {
		b, _ := json.Marshal(c.Doc)
		d, err := document.FromBytes(b)
		if err != nil {
			return nil, "bad doc"
		}
		return d, ""
	}
	pre, ok := toPatches(c.Prefix)
	if !ok {
		return nil, "bad prefix"
	}
	var d document.Document
	var err error
	if p := ev.Catch(func() { d, err = longLived.ApplyPatches(make(document.Document), pre) }); p != "" || err != nil {
		return nil, "prefix does not apply"
	}
	return d, ""
}

// applyGuarded applies with panic capture and a watchdog.
func applyGuarded(d document.Document, ps []patch.Patch) (out document.Document, err error, panicked string, hung bool) {
	type res struct {
		d   document.Document
		err error
		p   string
	}
	ch := make(chan res, 1)
	go func() {
		var r res
		r.p = ev.Catch(func() { r.d, r.err = longLived.ApplyPatches(d, ps) })
		ch <- r
	}()
	select {
	case r := <-ch:
		return r.d, r.err, r.p, false
	case <-time.After(20 * time.Second):
		return nil, nil, "", true
	}
}

// evalCase returns (kind, message, accepted).
func evalCase(c *Case) (string, string, bool) {
	ps, ok := toPatches(c.Patches)
	if !ok {
		return "", "", false
	}
	delta := &model.DeltaModel{UpdateCommitment: asm.Commit(keys.Get(keys.Ed25519, "c18", 1), asm.SHA256), Patches: ps}
	var verr error
	if p := ev.Catch(func() { verr = parserFor(c.Enabled).ValidateDelta(delta) }); p != "" {
		return "C18/validate-panic", "ValidateDelta panicked: " + p + " on " + js(c.Patches), false
	}
	if verr != nil {
		return "", "", false
	}
	if r := brokenRule(c.Patches, c.Enabled); r != "" {
		return "C18/accepted-violating-rule", fmt.Sprintf("validation accepted a delta that violates a structural rule: %s; patches %s", r, js(c.Patches)), true
	}
	d, bad := buildDoc(c)
	if bad != "" {
		return "", "", true
	}
	before := map[string]interface{}{"publicKey": deep(d["publicKey"]), "service": deep(d["service"])}
	hasJSON := false
	for _, p := range c.Patches {
		if pm, _ := p.(map[string]interface{}); pm["action"] == "ietf-json-patch" {
			hasJSON = true
		}
	}
	done := ev.Inflight(chkApply, "C18", c)
	out, err, pn, hung := applyGuarded(d, ps)
	done()
	if hung {
		return "C18/hang", fmt.Sprintf("ApplyPatches did not return within 20 s for an accepted delta: %s on %s", js(c.Patches), js(d)), true
	}
	if pn != "" {
		return "C18/apply-panic", fmt.Sprintf("ApplyPatches panicked on an accepted delta: %s; patches %s on document %s", pn, js(c.Patches), js(d)), true
	}
	if err == nil && out == nil {
		return "C18/apply-nil", "ApplyPatches returned neither document nor error", true
	}
	// an accepted json-patch must leave the protected sections untouched (checked when the list has json-patches only)
	if err == nil && hasJSON && onlyJSON(c.Patches) {
		after := map[string]interface{}{"publicKey": deep(out["publicKey"]), "service": deep(out["service"])}
		if !reflect.DeepEqual(before, after) {
			return "C18/protected-section-changed", fmt.Sprintf("an accepted JSON patch changed the publicKey / service sections: before %s after %s; patches %s", js(before), js(after), js(c.Patches)), true
		}
	}
	return "", "", true
}

func onlyJSON(ps []interface{}) bool {
	for _, p := range ps {
		if pm, _ := p.(map[string]interface{}); pm["action"] != "ietf-json-patch" {
			return false
		}
	}
	return true
}

func deep(v interface{}) interface{} {
	b, _ := json.Marshal(v)
	var o interface{}
	_ = json.Unmarshal(b, &o)
	return o
}

// ---- near-miss generators ------------------------------------------------------------------------------------------

func nearMissKey(t *rapid.T) map[string]interface{} {
	k := gen.DocKey(t, rapid.SampledFrom(gen.IDAlphabet).Draw(t, "keyId"))
	switch rapid.IntRange(0, 14).Draw(t, "keyDefect") {
	case 0:
		k["id"] = ""
	case 1:
		k["id"] = strings.Repeat("a", rapid.SampledFrom([]int{1, 49, 50, 51, 200}).Draw(t, "idLen"))
	case 2:
		k["id"] = "a" + string(rune(rapid.IntRange(0, 0x17f).Draw(t, "idChar"))) + rapid.SampledFrom([]string{"", "b"}).Draw(t, "idTail")
	case 3:
		k["type"] = rapid.SampledFrom(gen.AllDocKeyTypes).Draw(t, "otherType")
		k["purposes"] = []interface{}{rapid.SampledFrom(gen.AllPurposes).Draw(t, "purpose")}
	case 4:
		k["purposes"] = []interface{}{}
	case 5:
		k["purposes"] = rapid.SampledFrom([]interface{}{[]interface{}{"authentication", "bogusPurpose"},
			// declared purposes that are not strings (a typed view of the list would skip them)
			[]interface{}{"authentication", []interface{}{"keyAgreement"}}, []interface{}{float64(5)}, []interface{}{"authentication", nil}, []interface{}{map[string]interface{}{"p": "keyAgreement"}, "assertionMethod"}}).Draw(t, "oddPurposes")
		if rapid.Bool().Draw(t, "verificationOnlyType") {
			k["type"] = "Ed25519VerificationKey2018"
		}
	case 6:
		k["type"] = "UnknownKeyType2099"
	case 7:
		delete(k, "publicKeyJwk")
		delete(k, "publicKeyBase58")
	case 8:
		k["publicKeyJwk"] = map[string]interface{}{"kty": "EC", "crv": "P-256", "x": "AA", "y": "AA"}
		k["publicKeyBase58"] = "GY4GunSXBPBfhLCzDL7iGmP5dR3sBDCJZkkaGK8VgYQf"
	case 9:
		k["controller"] = "did:example:other"
	case 10:
		if j, ok := k["publicKeyJwk"].(map[string]interface{}); ok {
			delete(j, rapid.SampledFrom([]string{"kty", "crv", "x"}).Draw(t, "jwkMember"))
		}
	case 11:
		k["publicKeyMultibase"] = "z6Mk"
	case 12:
		k["purposes"] = []interface{}{"authentication", "assertionMethod", "keyAgreement", "capabilityDelegation", "capabilityInvocation", "authentication"}
	case 13:
		k["id"] = float64(7)
	}
	return k
}

func nearMissService(t *rapid.T) map[string]interface{} {
	s := gen.DocService(t, rapid.SampledFrom(gen.SvcIDAlphabet).Draw(t, "svcId"))
	bad := rapid.SampledFrom([]string{"", "not a uri", "://x", "relative/path", "http//missing-colon", "#frag", " https://lead.space", "\x7f",
		"*", "/", "//", "/abs/path", "/ <>", "?q=1", "x:y z", "http://example.com/a b", "http://example.com/<x>", "http://example.com/\"q\"", "1http://x.example", "http://a.example/%zz", "http://a.example/%4", "http://a.example/\u00fc", "http://a.example/#a#b", "http://a.example/{x}", "http://a.example/a|b", "http://a.example/a\\b", "http://a.example/^",
		// characters of the URI alphabet in places where the grammar does not have them
		"http://]", "x://][", "http://exa[mple.com/", "http://a/b[c]d", "https://example.com/]?q", "x:[", "http://@@", "http://:::", "http://a:b:c", "http://[::1",
		"http://[::1]x/", "http://[1::2::3]/", "http://[12345::]/", "http://[v1]/", "http://a.example:8o/", "http://a.example/?q=[", "did:example:1#[", "http://u@v@w.example/"}).Draw(t, "badURI")
	switch rapid.IntRange(0, 12).Draw(t, "svcDefect") {
	case 0:
		s["id"] = rapid.SampledFrom([]string{"", strings.Repeat("s", 51), "a b", "s/1", strings.Repeat("s", 50), "s" + string(rune(rapid.IntRange(0, 0x17f).Draw(t, "idChar")))}).Draw(t, "badId")
	case 1:
		s["type"] = strings.Repeat("T", rapid.SampledFrom([]int{0, 1, 30, 31, 90}).Draw(t, "typeLen"))
	case 2:
		s["serviceEndpoint"] = bad
	case 3:
		n := rapid.IntRange(1, 4).Draw(t, "endpoints")
		at := rapid.IntRange(0, n-1).Draw(t, "badAt")
		var l []interface{}
		for i := 0; i < n; i++ {
			if i == at {
				l = append(l, bad)
			} else {
				l = append(l, gen.URIAlphabet[i%len(gen.URIAlphabet)])
			}
		}
		s["serviceEndpoint"] = l
	case 4:
		s["serviceEndpoint"] = nil
	case 5:
		delete(s, "serviceEndpoint")
	case 6:
		s["serviceEndpoint"] = []interface{}{map[string]interface{}{"uri": "x"}, bad}
	case 7:
		delete(s, "type")
	case 8:
		s["serviceEndpoint"] = rapid.SampledFrom([]interface{}{float64(5), true, []interface{}{float64(42)}, []interface{}{nil}, []interface{}{[]interface{}{"hello"}}, []interface{}{"https://ok.example", []interface{}{"not a uri"}}}).Draw(t, "oddEndpoint")
	case 9:
		s["serviceEndpoint"] = []interface{}{}
	}
	return s
}

var jsonPaths = []string{"/m1", "/m1/0", "/m1/-", "/m1/-1", "/m1/-2", "/m1/1", "/m1/2", "/m1/5", "/m1/x", "/nested/a/b", "/nested/a", "/nested/x/y", "/publicKey", "/publicKey/0", "/publicKey/0/id", "/publicKeys", "/publicKeyX",
	"/service", "/service/0/id", "/services", "/serviceEndpoint", "/alsoKnownAs/0", "/alsoKnownAs/-", "", "/", "//", "/label", "/label/x", "/m2", "/nul", "/nul/x", "/nul/0", "m1", "/~1", "/~01", "/~", "/m1/00", "/m1/1e0", "/m1/+1",
	"/deep/a/b/c/d", "/deep/a/0/b", "/arr2/0/0", "/arr2/0/-1", "/arr2/-1/0", "/ public", "/PublicKey", "/Service",
	// array indices far beyond any array (2^40, 2^44, 2^62, 2^63-1, beyond int64): nothing may be allocated for them
	"/m1/1099511627776", "/m1/17592186044416", "/m1/4611686018427387904", "/m1/9223372036854775807", "/m1/18446744073709551616", "/arr2/0/17592186044416", "/m1/1000000"}

var jsonValues = []interface{}{"s", float64(1), true, nil, map[string]interface{}{}, []interface{}{}, map[string]interface{}{"a": nil}, []interface{}{nil}, map[string]interface{}{"id": "k9", "type": "x"}}

// aliasedOp draws a copy / move whose target lies inside its source although the two pointers are spelled
// differently: array indices written 0, 00, +0, -0 (all index 0 for the patch library), or -1 for the last element.
func aliasedOp(t *rapid.T) map[string]interface{} {
	container := rapid.SampledFrom([]string{"/m1", "/arr2", "/deep/a", "/arr2/0"}).Draw(t, "aliasContainer")
	spell := func(label string) string {
		return rapid.SampledFrom([]string{"0", "00", "+0", "-0", "000", "-1"}).Draw(t, label)
	}
	tail := rapid.SampledFrom([]string{"/x", "/0", "/-", ""}).Draw(t, "aliasTail")
	return map[string]interface{}{"op": rapid.SampledFrom([]string{"copy", "copy", "move"}).Draw(t, "aliasOp"),
		"from": container + "/" + spell("fromIndex"), "path": container + "/" + spell("pathIndex") + tail}
}

// unanchored puts, one time in eight, some text in front of the pointer's first '/': not a JSON pointer (RFC 6901)
// any more, but a patch engine that splits at '/' and drops the first token still follows it to the same location.
func unanchored(t *rapid.T, pointer, label string) string {
	if rapid.IntRange(0, 7).Draw(t, label) != 0 {
		return pointer
	}
	return rapid.SampledFrom([]string{"x", "0", "~", " ", "#", "publicKey", "."}).Draw(t, label+"Text") + pointer
}

func jsonPatchOp(t *rapid.T) map[string]interface{} {
	if rapid.IntRange(0, 7).Draw(t, "aliased") == 0 {
		return aliasedOp(t)
	}
	o := map[string]interface{}{}
	o["op"] = rapid.SampledFrom([]interface{}{"add", "remove", "replace", "move", "copy", "test", "add", "remove", "frob", float64(7), nil, "ADD"}).Draw(t, "op")
	switch rapid.IntRange(0, 9).Draw(t, "pathKind") {
	case 0:
		o["path"] = rapid.SampledFrom([]interface{}{float64(5), nil, []interface{}{}, true}).Draw(t, "illTypedPath")
	case 1:
	default:
		o["path"] = unanchored(t, rapid.SampledFrom(jsonPaths).Draw(t, "path"), "pathPrefix")
	}
	switch rapid.IntRange(0, 3).Draw(t, "fromKind") {
	case 0:
		o["from"] = unanchored(t, rapid.SampledFrom(jsonPaths).Draw(t, "from"), "fromPrefix")
	case 1:
		if rapid.IntRange(0, 4).Draw(t, "illTypedFrom") == 0 {
			o["from"] = rapid.SampledFrom([]interface{}{float64(1), nil, map[string]interface{}{}}).Draw(t, "fromVal")
		}
	}
	if rapid.IntRange(0, 3).Draw(t, "hasValue") > 0 {
		o["value"] = rapid.SampledFrom(jsonValues).Draw(t, "value")
	}
	return o
}

var smallDocs = []interface{}{
	map[string]interface{}{},
	map[string]interface{}{"m1": []interface{}{"a", "b"}, "nested": map[string]interface{}{"a": map[string]interface{}{"b": float64(1)}}, "label": "x", "nul": nil},
	map[string]interface{}{"m1": []interface{}{}, "deep": map[string]interface{}{"a": []interface{}{map[string]interface{}{"b": "c"}}}, "arr2": []interface{}{[]interface{}{"x"}}},
	map[string]interface{}{"publicKey": []interface{}{map[string]interface{}{"id": "k1", "type": "JsonWebKey2020", "publicKeyJwk": map[string]interface{}{"kty": "EC", "crv": "P-256", "x": "AA", "y": "AA"}}},
		"service": []interface{}{map[string]interface{}{"id": "s1", "type": "t", "serviceEndpoint": "https://a.example"}}, "alsoKnownAs": []interface{}{"https://a.example/1"}, "m1": []interface{}{"a"}},
	map[string]interface{}{"publicKey": nil, "service": nil, "m1": "scalar", "label": map[string]interface{}{"x": nil}},
}

func genPatch(t *rapid.T) interface{} {
	switch rapid.IntRange(0, 9).Draw(t, "patchKind") {
	case 0, 1:
		return gen.ValidPatch(t, gen.PatchOpts{})
	case 2:
		n := rapid.IntRange(1, 3).Draw(t, "keys")
		var ks []interface{}
		for i := 0; i < n; i++ {
			ks = append(ks, nearMissKey(t))
		}
		if rapid.IntRange(0, 6).Draw(t, "junkEntry") == 0 {
			ks = append(ks, "not-an-object")
		}
		return map[string]interface{}{"action": "add-public-keys", "publicKeys": withStrays(t, ks)}
	case 3:
		n := rapid.IntRange(1, 3).Draw(t, "services")
		var ss []interface{}
		for i := 0; i < n; i++ {
			ss = append(ss, nearMissService(t))
		}
		return map[string]interface{}{"action": "add-services", "services": withStrays(t, ss)}
	case 4:
		doc := map[string]interface{}{}
		if rapid.Bool().Draw(t, "rk") {
			doc["publicKeys"] = withStrays(t, []interface{}{nearMissKey(t), nearMissKey(t)})
		}
		if rapid.Bool().Draw(t, "rs") {
			doc["services"] = withStrays(t, []interface{}{nearMissService(t)})
		}
		if rapid.IntRange(0, 5).Draw(t, "extraMember") == 0 {
			doc["alsoKnownAs"] = []interface{}{"x"}
		}
		if rapid.IntRange(0, 7).Draw(t, "entriesNotAList") == 0 {
			// the entries given as something other than a list: a single entry object, a string, a number, null
			which := rapid.SampledFrom([]string{"publicKeys", "services"}).Draw(t, "notAListMember")
			single := interface{}(nearMissService(t))
			if which == "publicKeys" {
				single = nearMissKey(t)
			}
			doc[which] = rapid.SampledFrom([]interface{}{single, "k1", float64(5), nil, map[string]interface{}{}}).Draw(t, "notAListValue")
		}
		return map[string]interface{}{"action": "replace", "document": doc}
	case 5:
		return map[string]interface{}{"action": rapid.SampledFrom([]string{"remove-public-keys", "remove-services"}).Draw(t, "rmAction"),
			"ids": rapid.SampledFrom([]interface{}{[]interface{}{"k1"}, []interface{}{}, []interface{}{"k1", "k1", "zz", "k2", "k3", "key-4", "K_5", "s1"}, []interface{}{float64(1), "k1"}, "k1", []interface{}{strings.Repeat("i", 51)}, []interface{}{"a b"}, nil}).Draw(t, "ids")}
	case 6:
		return map[string]interface{}{"action": rapid.SampledFrom([]string{"add-also-known-as", "remove-also-known-as"}).Draw(t, "akaAction"),
			"uris": rapid.SampledFrom([]interface{}{[]interface{}{"https://a.example/1"}, []interface{}{"https://a.example/1", "https://a.example/1"}, []interface{}{"%zz"}, []interface{}{}, []interface{}{float64(1)}, "x", []interface{}{"a", "b", "c"}}).Draw(t, "uris")}
	default:
		n := rapid.IntRange(1, 4).Draw(t, "jsonOps")
		var ops []interface{}
		for i := 0; i < n; i++ {
			ops = append(ops, jsonPatchOp(t))
		}
		return map[string]interface{}{"action": "ietf-json-patch", "patches": ops}
	}
}

// withStrays inserts, one time in four, a list member that is not an entry (string, number, null, list) at a drawn
// position: the validator ignores such members, the entries around them are still entries of the delta.
func withStrays(t *rapid.T, l []interface{}) []interface{} {
	if rapid.IntRange(0, 3).Draw(t, "strayMember") != 0 {
		return l
	}
	at := rapid.IntRange(0, len(l)).Draw(t, "strayAt")
	stray := rapid.SampledFrom([]interface{}{"stray", float64(7), nil, []interface{}{}, true}).Draw(t, "stray")
	out := append([]interface{}{}, l[:at]...)
	out = append(out, stray)
	return append(out, l[at:]...)
}

func classOf(c *Case) []string {
	var out []string
	for _, p := range c.Patches {
		pm, _ := p.(map[string]interface{})
		a, _ := pm["action"].(string)
		out = append(out, "action:"+a)
		if a == "ietf-json-patch" {
			for _, o := range objectsOf(pm["patches"]) {
				if s, ok := o["path"].(string); ok {
					if strings.Contains(s, "/-") || strings.ContainsAny(s, "0123456789") {
						out = append(out, "json:array-index")
					}
				}
				if _, ok := o["from"]; ok {
					out = append(out, "json:from")
				}
				if v, ok := o["value"]; !ok || v == nil {
					out = append(out, "json:null-or-absent-value")
				}
			}
		}
	}
	return out
}

func TestAcceptedDeltas(t *testing.T) {
	ev.Rule(chkRules, "rapid: deltas of 1-3 patches drawn from: valid patches; add-public-keys / add-services / replace with near-miss entries (id length 0/1/49/50/51/200 and illegal characters, duplicate ids, type x purposes mismatches, purposes that are not strings, 0/1/2 key-material members and foreign members, JWK missing crv/kty/x, service type 0/1/30/31/90, endpoint as string / array with the bad URI at every index / object / null / number / boolean / nested list; entry lists with a stray non-object member at a drawn position, replace documents whose entries are not a list but a single object / string / number / null); remove patches with ill-typed id lists; json-patch lists over the six RFC 6902 operations (and unknown / ill-typed ops) with path / from / value present, absent, ill-typed, pointing at, under and next to /publicKey and /service, array indices -2..len+1 and '-', copy / move between differently spelled pointers to one location (index 0 / 00 / +0 / -0 / -1), null values, test without value; under a drawn set of enabled actions; oracle (i): ValidateDelta accepts => the independent rule predicate finds no violated rule; accept rate is reported; non-trivial = an accepted delta with a near-miss or json-patch patch")
	ev.Rule(chkApply, "every accepted delta of the cases above is applied with the real composer to a reachable document (result of 0-4 valid patches on {}) or to one of 5 hand-made small documents (arrays, nested objects, null members, sections present / null): oracle (ii) a document or an error, never a panic (caught in-process), a hang (20 s watchdog) or a fatal crash (in-flight journal confirmed in a fresh process); oracle (iii) after an accepted json-patch-only delta the publicKey and service members are deep-equal to before; non-trivial = accepted delta containing a json-patch with an array index, a from, or a null / absent value")
	ev.Rapid(t, chkRules, 3000, 40000, func(t *rapid.T) {
		c := &Case{Enabled: wire.AllPatches}
		if rapid.IntRange(0, 5).Draw(t, "restrictActions") == 0 {
			c.Enabled = nil
			for _, a := range wire.AllPatches {
				if rapid.Bool().Draw(t, "enabled") {
					c.Enabled = append(c.Enabled, a)
				}
			}
		}
		if rapid.Bool().Draw(t, "smallDoc") {
			c.Doc = deep(rapid.SampledFrom(smallDocs).Draw(t, "doc"))
		} else if rapid.Bool().Draw(t, "prefix") {
			c.Prefix = gen.ValidPatches(t, 4, gen.PatchOpts{})
		}
		n := rapid.IntRange(1, 3).Draw(t, "patches")
		for i := 0; i < n; i++ {
			c.Patches = append(c.Patches, genPatch(t))
		}
		kind, msg, accepted := evalCase(c)
		cl := classOf(c)
		risky := false
		for _, x := range cl {
			if strings.HasPrefix(x, "json:") {
				risky = true
			}
		}
		ev.Record(chkRules, accepted, ev.Hash(c), append(cl, fmt.Sprintf("accepted:%v", accepted))...)
		if accepted {
			ev.Record(chkApply, risky, ev.Hash(c), cl...)
			ev.SampleFn(chkApply, func() interface{} { return c })
		}
		ev.SampleFn(chkRules, func() interface{} { return map[string]interface{}{"patches": c.Patches, "accepted": accepted} })
		if kind != "" {
			chk := chkApply
			if kind == "C18/accepted-violating-rule" || kind == "C18/validate-panic" {
				chk = chkRules
			}
			ev.Fail(t, chk, kind, sigOf(kind, msg), c, "%s", msg)
		}
	})
}

// sigOf derives a stable signature for known-finding matching: kind plus the panic site / rule family.
func sigOf(kind, msg string) string {
	for _, needle := range []string{"index out of range", "nil pointer", "invalid memory address", "slice bounds", "has from", "has path", "endpoint", "makeslice"} {
		if strings.Contains(msg, needle) {
			return kind + "/" + strings.ReplaceAll(needle, " ", "-")
		}
	}
	return kind
}

// ---- native fuzz target (thorough) -------------------------------------------------------------------------------

func FuzzJSONPatch(f *testing.F) {
	seeds := []string{
		`[{"op":"add","path":"/m1/-","value":"c"}]`, `[{"op":"remove","path":"/m1/0"}]`, `[{"op":"move","from":"/m1/0","path":"/m2"}]`, `[{"op":"copy","from":"/nested","path":"/n2"}]`,
		`[{"op":"test","path":"/label","value":"x"}]`, `[{"op":"replace","path":"/nested/a/b","value":null}]`, `[{"op":"add","path":"/m1/-1","value":1}]`, `[{"op":"test","path":"/zz"}]`,
		`[{"op":"add","path":"/nul/x","value":1}]`, `[{"op":"move","from":"/publicKey","path":"/x"}]`, `[{"op":"remove","path":""}]`,
		`[{"op":"remove","path":"x/service/0"}]`, `[{"op":"copy","from":"/m1/0","path":"/m1/00/x"}]`, `[{"op":"copy","from":"/nested","path":"/n"},{"op":"move","from":"/n","path":"/nested/x"}]`,
	}
	for _, s := range seeds {
		f.Add([]byte(s), uint8(1))
		f.Add([]byte(s), uint8(3)) // the document with both sections
	}
	f.Fuzz(func(t *testing.T, ops []byte, docSel uint8) {
		if len(ops) > 4096 {
			return
		}
		var l []interface{}
		if json.Unmarshal(ops, &l) != nil {
			return
		}
		c := &Case{Enabled: wire.AllPatches, Doc: deep(smallDocs[int(docSel)%len(smallDocs)]), Patches: []interface{}{map[string]interface{}{"action": "ietf-json-patch", "patches": l}}}
		kind, msg, _ := evalCase(c)
		if kind != "" {
			ev.Fail(t, chkFuzz, kind, sigOf(kind, msg), c, "%s", msg)
		}
	})
}
