package smoke

import (
	"testing"

	"github.com/trustbloc/sidetree-core-go/pkg/canonicalizer"
	"pgregory.net/rapid"
)

func TestSmoke(t *testing.T) {
	rapid.Check(t, func(t *rapid.T) {
		n := rapid.IntRange(0, 10).Draw(t, "n")
		b, err := canonicalizer.MarshalCanonical(map[string]int{"a": n})
		if err != nil || len(b) == 0 {
			t.Fatal("bad")
		}
	})
}
