// Package c04 decides property C04: deactivation is terminal (resolution and intake); a recover supersedes
// everything before it and no update anchored at or before it is applied on top.
package c04

import (
	"encoding/json"
	"fmt"
	"reflect"
	"testing"
	"time"

	"github.com/trustbloc/sidetree-core-go/pkg/api/operation"
	"github.com/trustbloc/sidetree-core-go/pkg/dochandler"
	"github.com/trustbloc/sidetree-core-go/pkg/document"
	"github.com/trustbloc/sidetree-core-go/pkg/processor"
	"pgregory.net/rapid"

	"verifharness/kit/asm"
	"verifharness/kit/ev"
	"verifharness/kit/gen"
	"verifharness/kit/hist"
	"verifharness/kit/keys"
	"verifharness/kit/refmodel"
	"verifharness/kit/res"
	"verifharness/kit/wire"
)

func TestMain(m *testing.M) { ev.Main(m, "C04") }

const (
	chkDeact   = "deactivate-terminal"
	chkIntake  = "intake-refuses-deactivated"
	chkRecover = "recover-supersedes"
)

// Case is a prefix H (ending in the valid deactivate / containing the valid recover) plus an extension.
type Case struct {
	hist.Case
	PrefixLen int    `json:"prefixLen"` // Ops[:PrefixLen] is H, the rest the extension E
	Mode      string `json:"mode"`      // "deactivate" | "recover" | "intake"
	// recover mode: Want is the document the recover itself produces
	Want map[string]interface{} `json:"want,omitempty"`
	// recover mode: index of the recover R; AltPrefix are replacement pre-R histories that must not matter
	Recover int `json:"recover,omitempty"`
	// deactivate mode: ViewAt != 0 asks additionally for the state as of that time (a view that still contains the
	// deactivate); PendingD says that the deactivate itself is pending (served from the unpublished-operation store,
	// stamped ViewAt) while the whole extension is anchored later - then only the view as of ViewAt is judged
	ViewAt   uint64 `json:"viewAt,omitempty"`
	PendingD bool   `json:"pendingDeactivate,omitempty"`
}

func init() {
	ev.RegisterReplay(chkDeact, replay)
	ev.RegisterReplay(chkIntake, replay)
	ev.RegisterReplay(chkRecover, replay)
	ev.Assume("extension operations are anchored strictly after the deactivate; only non-create requests are required to be refused at intake (the default decorator does not look at creates)")
}

// TestReplay runs first.
func TestReplay(t *testing.T) { ev.ReplayMain(t) }

func replay(raw json.RawMessage) (string, string) {
	var c Case
	if err := json.Unmarshal(raw, &c); err != nil {
		return "bad-replay", err.Error()
	}
	var k, m string
	switch c.Mode {
	case "recover":
		k, _, m = evalRecover(&c)
	case "intake":
		k, _, m = evalIntake(&c)
	default:
		k, _, m = evalDeactivate(&c)
	}
	return k, m
}

func js(v interface{}) string {
	b, _ := json.Marshal(v)
	return string(b)
}

// ---- chain builder with key tracking -------------------------------------------------------------

type chain struct {
	suffix   string
	code     uint64
	kt       []keys.Type
	pool     string
	nk       int
	ops      []*hist.Op
	updKeys  []*keys.Key // every update key ever committed to, in order
	recKeys  []*keys.Key // every recovery key ever committed to, in order
	curU     *keys.Key
	curR     *keys.Key
	lastRecI int // index in ops of the last recover (-1 none)
	deactOpt hist.Opt
}

func (c *chain) key(t *rapid.T) *keys.Key {
	c.nk++
	return keys.Get(rapid.SampledFrom(c.kt).Draw(t, "keyType"), c.pool, c.nk)
}

func newChain(t *rapid.T, pool string) *chain {
	c := &chain{code: rapid.SampledFrom([]uint64{asm.SHA256, asm.SHA512}).Draw(t, "hash"), kt: keys.AllTypes, pool: pool, lastRecI: -1}
	c.curR, c.curU = c.key(t), c.key(t)
	cr := hist.NewCreate(hist.CreateSpec{Name: "create", Code: c.code, Recovery: c.curR, Update: c.curU, Markers: map[string]interface{}{"c": "0"}})
	c.suffix = cr.Suffix
	c.ops = append(c.ops, cr)
	c.updKeys, c.recKeys = []*keys.Key{c.curU}, []*keys.Key{c.curR}
	return c
}

// windowed makes the chain's deactivate carry a signed anchoring window that is open at every ledger time used here.
func (c *chain) windowed() { c.deactOpt = hist.Opt{From: 1, Until: 1 << 40} }

func (c *chain) update(t *rapid.T, name string) {
	n := c.key(t)
	c.ops = append(c.ops, hist.NewSigned(hist.SignedSpec{Name: name, Type: "update", Suffix: c.suffix, Code: c.code, Reveal: c.curU, NextUpd: n, Markers: map[string]interface{}{name: "v"}}))
	c.curU = n
	c.updKeys = append(c.updKeys, n)
}

func (c *chain) recover(t *rapid.T, name string, markers map[string]interface{}) {
	nu, nr := c.key(t), c.key(t)
	c.ops = append(c.ops, hist.NewSigned(hist.SignedSpec{Name: name, Type: "recover", Suffix: c.suffix, Code: c.code, Reveal: c.curR, NextUpd: nu, NextRec: nr, Markers: markers}))
	c.lastRecI = len(c.ops) - 1
	c.curU, c.curR = nu, nr
	c.updKeys, c.recKeys = append(c.updKeys, nu), append(c.recKeys, nr)
}

func (c *chain) deactivate(name string) {
	c.ops = append(c.ops, hist.NewSigned(hist.SignedSpec{Name: name, Type: "deactivate", Suffix: c.suffix, Code: c.code, Reveal: c.curR, Opt: c.deactOpt}))
}

// extension draws 1-12 arbitrary later operations: valid operations signed with every key that was ever
// revealed or committed, duplicate creates, forgeries.
func (c *chain) extension(t *rapid.T) []*hist.Op {
	var out []*hist.Op
	n := rapid.IntRange(1, 12).Draw(t, "extLen")
	for i := 0; i < n; i++ {
		name := fmt.Sprintf("x%d", i+1)
		kind := rapid.SampledFrom([]string{"update", "update", "recover", "deactivate", "create-dup", "create-other"}).Draw(t, "extKind")
		opt := hist.Opt{}
		if rapid.IntRange(0, 4).Draw(t, "extForge") == 0 && kind != "create-dup" && kind != "create-other" {
			opt.Forge = rapid.SampledFrom(hist.AllForges).Draw(t, "forgeClass")
			opt.Attacker = keys.Get(c.updKeys[0].Type, c.pool+"/attacker", i+1)
		}
		switch kind {
		case "update":
			k := rapid.SampledFrom(c.updKeys).Draw(t, "extUpdKey")
			if opt.Forge != "" {
				opt.Attacker = keys.Get(k.Type, c.pool+"/attacker", i+1)
			}
			out = append(out, hist.NewSigned(hist.SignedSpec{Name: name + "-update-by-" + k.ID(), Type: "update", Suffix: c.suffix, Code: c.code, Reveal: k, NextUpd: c.key(t), Markers: map[string]interface{}{name: "x"}, Opt: opt}))
		case "recover":
			k := rapid.SampledFrom(c.recKeys).Draw(t, "extRecKey")
			if opt.Forge != "" {
				opt.Attacker = keys.Get(k.Type, c.pool+"/attacker", i+1)
			}
			out = append(out, hist.NewSigned(hist.SignedSpec{Name: name + "-recover-by-" + k.ID(), Type: "recover", Suffix: c.suffix, Code: c.code, Reveal: k, NextUpd: c.key(t), NextRec: c.key(t), Markers: map[string]interface{}{name: "x"}, Opt: opt}))
		case "deactivate":
			k := rapid.SampledFrom(c.recKeys).Draw(t, "extRecKey")
			if opt.Forge != "" {
				opt.Attacker = keys.Get(k.Type, c.pool+"/attacker", i+1)
			}
			out = append(out, hist.NewSigned(hist.SignedSpec{Name: name + "-deactivate-by-" + k.ID(), Type: "deactivate", Suffix: c.suffix, Code: c.code, Reveal: k, Opt: opt}))
		case "create-dup":
			cp := *c.ops[0]
			cp.Desc.Name = name + "-create-dup"
			out = append(out, &cp)
		default:
			out = append(out, hist.DupCreateOtherDelta(c.ops[0], name+"-create-other-delta", c.code))
		}
	}
	return out
}

// anchorSeq anchors ops in sequence order starting at time t0 with non-monotone numbers.
// numberHighs, when set, gives the high 32 bits of the transaction numbers used by anchorSeq (a ledger whose global
// transaction counter is above 2^32); it is drawn per case by the generators.
var numberHighs func(i int) uint64

func anchorSeq(ops []*hist.Op, t0 uint64, tag string) []*hist.Anchored {
	var out []*hist.Anchored
	for i, op := range ops {
		num := uint64((i*5 + 2) % 7)
		if numberHighs != nil {
			num += numberHighs(i) << 32
		}
		out = append(out, op.At(t0+uint64(i), num, fmt.Sprintf("ref-%s%d", tag, i), 0))
	}
	return out
}

// ---- (i) deactivation is terminal for resolution ---------------------------------------------------

func evalDeactivate(c *Case) (kind, sig, msg string) {
	pub, unpub := c.Stores()
	judge := func(view string, opts ...document.ResolutionOption) (string, string, string) {
		got := res.Resolve(c.Client(), c.Suffix, pub, unpub, opts...)
		if got.Panic != "" {
			return "C04/panic", "panic", got.Panic
		}
		if got.Err != "" {
			return "C04/deactivated-resolve-error", "resolve-error", "resolution of a deactivated DID with later operations failed" + view + ": " + got.Err
		}
		if !got.Deactivated || len(got.Doc) != 0 || got.Update != "" || got.Recovery != "" {
			return "C04/deactivate-not-terminal", "deactivate-not-terminal", fmt.Sprintf("after a valid deactivate and %d later operations the DID resolves%s as %s (want deactivated, empty document, no commitments)", len(c.Ops)-c.PrefixLen, view, js(got))
		}
		return "", "", ""
	}
	if !c.PendingD {
		if k, s, m := judge(""); k != "" {
			return k, s, m
		}
	}
	if c.ViewAt != 0 {
		// the state as of a time at or after the deactivate: that view contains the deactivate, and whatever else it
		// contains is a continuation
		return judge(fmt.Sprintf(" (as of time %d, pending deactivate: %v)", c.ViewAt, c.PendingD), document.WithVersionTime(time.Unix(int64(c.ViewAt), 0).UTC().Format(time.RFC3339)))
	}
	return "", "", ""
}

// wouldApply counts extension operations that are validly signed by a key whose commitment is reachable
// (i.e. that would be applied if the terminal rule were absent).
func wouldApply(c *Case) int {
	n := 0
	for _, o := range c.Ops[c.PrefixLen:] {
		if o.Desc.Authorised && o.Desc.Type != "create" {
			n++
		}
	}
	return n
}

func caseID(c *Case) uint64 {
	var parts []interface{}
	for _, o := range c.Ops {
		parts = append(parts, o.Desc.Name, o.Desc.Time, o.Desc.Num, o.Desc.Published)
	}
	parts = append(parts, c.Code, c.PrefixLen, c.Mode, c.ViewAt, c.PendingD)
	return ev.Hash(parts...)
}

func buildDeactivated(t *rapid.T, pool string) (*chain, []*hist.Anchored) {
	ch := newChain(t, pool)
	steps := rapid.IntRange(0, 5).Draw(t, "prefixSteps")
	for i := 0; i < steps; i++ {
		if rapid.IntRange(0, 3).Draw(t, "stepKind") == 0 {
			ch.recover(t, fmt.Sprintf("r%d", i+1), map[string]interface{}{fmt.Sprintf("r%d", i+1): "v"})
		} else {
			ch.update(t, fmt.Sprintf("u%d", i+1))
		}
	}
	if rapid.IntRange(0, 2).Draw(t, "windowedDeactivate") == 0 {
		ch.windowed()
	}
	if len(ch.recKeys) >= 2 && rapid.IntRange(0, 2).Draw(t, "skippedCompetitor") == 0 {
		// a validly signed recover that reveals the key D reveals, anchored in front of D, but hands a recovery
		// commitment on that the chain has already consumed: the state machine skips it (C12) and applies D - the
		// first valid operation for the commitment, not the first one
		old := ch.recKeys[rapid.IntRange(0, len(ch.recKeys)-2).Draw(t, "consumedRecoveryKey")]
		ch.ops = append(ch.ops, hist.NewSigned(hist.SignedSpec{Name: "Rskipped", Type: "recover", Suffix: ch.suffix, Code: ch.code, Reveal: ch.curR, NextUpd: ch.key(t),
			Markers: map[string]interface{}{"skipped": "v"}, Opt: hist.Opt{NextRecovery: asm.Commit(old, ch.code)}}))
	}
	ch.deactivate("D")
	numberHighs = nil
	if rapid.IntRange(0, 3).Draw(t, "hugePrefixNumbers") == 0 {
		hs := make([]uint64, len(ch.ops))
		for i := range hs {
			hs[i] = uint64(rapid.IntRange(0, 3).Draw(t, "prefixNumberHigh"))
		}
		numberHighs = func(i int) uint64 { return hs[i] }
	}
	defer func() { numberHighs = nil }()
	return ch, anchorSeq(ch.ops, 20, "h")
}

func TestDeactivateTerminal(t *testing.T) {
	ev.Rule(chkDeact, "rapid: prefix = create + 0-5 valid updates/recovers (+ one time in three, once the DID has been recovered, a validly signed recover revealing D's key that re-commits to a consumed recovery commitment and is therefore skipped) + valid deactivate D (one in three with a signed anchoring window that is open when D is anchored; all key types, both hash algorithms), resolved one time in three on a node whose server-clock validator considers every signed window expired; extension = 1-12 operations anchored strictly after D at drawn coordinates, the last 0-2 of them pending (unpublished) with a wall-clock stamp after or before the ledger times: valid updates/recovers/deactivates signed with every key that was ever revealed or committed in the prefix, duplicate creates (same/other delta), forgeries; one case in two additionally asks for the state as of a drawn time at or after D's, and in one case in four D itself is pending (unpublished, stamped with its acceptance time) while the whole extension is anchored later and the state as of that stamp is asked for; oracle: Resolve = deactivated, empty document, no commitments; non-trivial = the extension holds >= 1 validly signed non-create operation")
	ev.Rapid(t, chkDeact, 400, 4000, func(t *rapid.T) {
		ch, prefix := buildDeactivated(t, "c04d")
		ext := ch.extension(t)
		perm := gen.Perm(t, len(ext), "extOrder")
		h := append([]*hist.Anchored{}, prefix...)
		base := uint64(20 + len(prefix))
		// some operations of the extension are pending (unpublished) instead of anchored; their wall-clock stamp may
		// lie after or before the ledger times of the prefix (requested before the deactivate was anchored)
		// transaction numbers may be a global counter above 2^32
		huge := rapid.IntRange(0, 3).Draw(t, "hugeNumbers") == 0
		highs := make([]uint64, len(ext))
		for i := range highs {
			if huge {
				highs[i] = uint64(rapid.IntRange(0, 3).Draw(t, "numberHigh")) << 32
			}
		}
		hi := func(i int) uint64 { return highs[i] }
		nUnpub := rapid.SampledFrom([]int{0, 0, 0, 1, 2}).Draw(t, "unpublishedExt")
		// one case in four: the deactivate itself is still pending (served from the unpublished-operation store with
		// the wall-clock stamp it was accepted at) while everything after it is anchored later; the state as of the
		// stamp is then prefix + deactivate, whatever was anchored afterwards
		pendingD := rapid.IntRange(0, 3).Draw(t, "pendingDeactivate") == 0
		if pendingD {
			nUnpub = 0
			d := ch.ops[len(ch.ops)-1]
			h[len(h)-1] = d.At(base-1, 0, "", 0)
		}
		for i, op := range ext {
			if i >= len(ext)-nUnpub {
				ut := uint64(100000 + i)
				if rapid.Bool().Draw(t, "earlyStamp") {
					ut = uint64(rapid.IntRange(0, 25).Draw(t, "earlyTime"))
				}
				h = append(h, op.At(ut, 0, "", 0))
				continue
			}
			h = append(h, op.At(base+uint64(perm[i]/2), uint64(perm[i])+hi(i), fmt.Sprintf("ref-x%d", i), 0))
		}
		c := &Case{Case: *hist.NewCase(ch.suffix, ch.code, 0, h), PrefixLen: len(prefix), Mode: "deactivate", PendingD: pendingD}
		if pendingD {
			c.ViewAt = base - 1
		} else if rapid.Bool().Draw(t, "alsoAsOf") {
			// additionally the state as of a drawn time at or after the deactivate's
			c.ViewAt = base - 1 + uint64(rapid.IntRange(0, len(ext)/2+1).Draw(t, "asOfOffset"))
		}
		// the node's clock may long have left every signed window: what is anchored stays what it is
		c.ExpiredClock = rapid.IntRange(0, 2).Draw(t, "expiredClock") == 0
		kind, sig, msg := evalDeactivate(c)
		n := wouldApply(c)
		ev.Record(chkDeact, n > 0, caseID(c), fmt.Sprintf("would-apply:%d", min(n, 4)), fmt.Sprintf("prefix:%d", len(prefix)), fmt.Sprintf("as-of-view:%v", c.ViewAt != 0), fmt.Sprintf("pending-deactivate:%v", pendingD))
		ev.SampleFn(chkDeact, func() interface{} { return c.Summary() })
		if kind != "" {
			ev.Fail(t, chkDeact, kind, sig, c, "%s", msg)
		}
	})
}

// ---- (ii) intake refuses operations on a deactivated DID ------------------------------------------

type recWriter struct {
	adds []*operation.QueuedOperation
}

func (w *recWriter) Add(op *operation.QueuedOperation, _ uint64) error {
	w.adds = append(w.adds, op)
	return nil
}

func evalIntake(c *Case) (kind, sig, msg string) {
	pc := res.BoundedClient(c.Client(), 50*(len(c.Ops)+4))
	store := wire.NewOpStore()
	for i := 0; i < c.PrefixLen; i++ {
		store.Add(c.Anchored(i))
	}
	unpub := wire.NewUnpubStore()
	proc := processor.New("verif", store, pc, processor.WithUnpublishedOperationStore(unpub))
	w := &recWriter{}
	h := dochandler.New("did:sidetree", nil, pc, w, proc, wire.DocMetrics{},
		dochandler.WithUnpublishedOperationStore(unpub, []operation.Type{operation.TypeCreate, operation.TypeUpdate, operation.TypeRecover, operation.TypeDeactivate}))
	for _, o := range c.Ops[c.PrefixLen:] {
		if o.Desc.Type == "create" {
			continue
		}
		var err error
		p := ev.Catch(func() { _, err = h.ProcessOperation(o.Request, 0) })
		if p != "" {
			return "C04/intake-panic", "intake-panic", "ProcessOperation panicked on " + o.Desc.Name + ": " + p
		}
		if err == nil {
			return "C04/intake-accepted-after-deactivate", "intake-accepted", fmt.Sprintf("document handler accepted %s for a deactivated DID", o.Desc.Name)
		}
		if len(w.adds) != 0 || unpub.Count() != 0 {
			return "C04/intake-trace-after-deactivate", "intake-trace", fmt.Sprintf("refused operation %s left a trace: %d queued, %d unpublished", o.Desc.Name, len(w.adds), unpub.Count())
		}
	}
	return "", "", ""
}

func TestIntakeRefusesDeactivated(t *testing.T) {
	ev.Rule(chkIntake, "rapid: same prefixes ending in a valid deactivate, stored in an operation store; a real DocumentHandler (default decorator, real OperationProcessor, recording batch writer, unpublished store for all types) is offered every generated update/recover/deactivate request (valid signatures by every known key and forgeries); oracle: every call returns an error and queue and unpublished store stay empty; non-trivial = >= 1 request that passes the parser's own validation (validly built)")
	ev.Rapid(t, chkIntake, 200, 2000, func(t *rapid.T) {
		ch, prefix := buildDeactivated(t, "c04i")
		ext := ch.extension(t)
		h := append([]*hist.Anchored{}, prefix...)
		for i, op := range ext {
			h = append(h, op.At(uint64(200+i), 0, "", 0))
		}
		c := &Case{Case: *hist.NewCase(ch.suffix, ch.code, 0, h), PrefixLen: len(prefix), Mode: "intake"}
		kind, sig, msg := evalIntake(c)
		n := wouldApply(c)
		ev.Record(chkIntake, n > 0, caseID(c), fmt.Sprintf("valid-requests:%d", min(n, 4)))
		ev.SampleFn(chkIntake, func() interface{} { return c.Summary() })
		if kind != "" {
			ev.Fail(t, chkIntake, kind, sig, c, "%s", msg)
		}
	})
}

// ---- (iii) a recover supersedes everything before it ----------------------------------------------

func evalRecover(c *Case) (kind, sig, msg string) {
	pub, unpub := c.Stores()
	got := res.Resolve(c.Client(), c.Suffix, pub, unpub)
	if got.Panic != "" {
		return "C04/panic", "panic", got.Panic
	}
	if got.Err != "" {
		return "C04/recover-resolve-error", "resolve-error", got.Err
	}
	want := res.Normalize(c.Want)
	if !reflect.DeepEqual(got.Doc, want) {
		return "C04/recover-not-superseding", "recover-not-superseding", fmt.Sprintf("after recover %s the document is %s, want exactly the recover's own content %s (updates anchored at or before the recover must not be applied, earlier history must not matter)", c.Ops[c.Recover].Desc.Name, js(got.Doc), js(want))
	}
	r := c.Ops[c.Recover].Desc
	if got.Update != r.NextUpdate || got.Recovery != r.NextRecovery {
		return "C04/recover-commitments", "recover-commitments", fmt.Sprintf("after recover the commitments are (%s,%s), want the recover's own (%s,%s)", got.Update, got.Recovery, r.NextUpdate, r.NextRecovery)
	}
	return "", "", ""
}

func TestRecoverSupersedes(t *testing.T) {
	ev.Rule(chkRecover, "rapid: create + 0-5 updates + valid recover R with a good delta; extension = 1-6 validly signed updates that reveal the update key R itself commits to (and older update keys), published and anchored at or before R's coordinates (lower time; same time with lower number; lower time with higher number), plus 0-2 update operations anchored after R that reveal keys the DID never committed to (so that there is an update pass behind R); oracle: document == exactly R's own content, commitments == R's; non-trivial = >= 1 update by the key R commits to anchored at/before R")
	ev.Rapid(t, chkRecover, 400, 4000, func(t *rapid.T) {
		ch := newChain(t, "c04r")
		steps := rapid.IntRange(0, 5).Draw(t, "preSteps")
		for i := 0; i < steps; i++ {
			ch.update(t, fmt.Sprintf("u%d", i+1))
		}
		markers := map[string]interface{}{"rec": "only"}
		ch.recover(t, "R", markers)
		rIdx := ch.lastRecI
		prefix := anchorSeq(ch.ops, 50, "h")
		rT, rN := prefix[rIdx].Desc.Time, prefix[rIdx].Desc.Num
		// R gets a mid-range number so that lower and higher numbers exist
		prefix[rIdx] = ch.ops[rIdx].At(rT, 50, "ref-R", 0)
		rN = 50
		var h []*hist.Anchored
		h = append(h, prefix...)
		n := rapid.IntRange(1, 6).Draw(t, "numEarly")
		byNew := 0
		for i := 0; i < n; i++ {
			k := ch.curU
			if rapid.IntRange(0, 3).Draw(t, "oldKey") == 0 {
				k = rapid.SampledFrom(ch.updKeys).Draw(t, "whichOld")
			}
			if k == ch.curU {
				byNew++
			}
			op := hist.NewSigned(hist.SignedSpec{Name: fmt.Sprintf("early%d-by-%s", i+1, k.ID()), Type: "update", Suffix: ch.suffix, Code: ch.code, Reveal: k, NextUpd: ch.key(t), Markers: map[string]interface{}{fmt.Sprintf("early%d", i+1): "must-not-appear"}})
			var tm, num uint64
			switch rapid.SampledFrom([]string{"lower-time", "same-time-lower-number", "lower-time-higher-number"}).Draw(t, "where") {
			case "lower-time":
				tm, num = rT-1-uint64(rapid.IntRange(0, 30).Draw(t, "dt")), uint64(rapid.IntRange(0, 49).Draw(t, "num"))
			case "same-time-lower-number":
				tm, num = rT, uint64(rapid.IntRange(0, int(rN)-1).Draw(t, "num"))
			default:
				tm, num = rT-1-uint64(rapid.IntRange(0, 30).Draw(t, "dt")), 51+uint64(rapid.IntRange(0, 40).Draw(t, "num"))
			}
			h = append(h, op.At(tm, num, fmt.Sprintf("ref-e%d", i), 0))
		}
		// update-type operations anchored after R that have no say in the DID (they reveal keys no commitment of it was
		// ever made to): the history goes on behind R, the state does not
		later := rapid.IntRange(0, 2).Draw(t, "laterStrangers")
		for i := 0; i < later; i++ {
			op := hist.NewSigned(hist.SignedSpec{Name: fmt.Sprintf("later-stranger%d", i+1), Type: "update", Suffix: ch.suffix, Code: ch.code, Reveal: ch.key(t), NextUpd: ch.key(t), Markers: map[string]interface{}{fmt.Sprintf("stranger%d", i+1): "must-not-appear"}})
			h = append(h, op.At(rT+1+uint64(rapid.IntRange(0, 20).Draw(t, "laterDt")), uint64(rapid.IntRange(0, 99).Draw(t, "laterNum")), fmt.Sprintf("ref-l%d", i), 0))
		}
		// (time, number) pairs must stay pairwise distinct
		seen := map[[2]uint64]bool{}
		for _, a := range h {
			k := [2]uint64{a.Desc.Time, a.Desc.Num}
			if seen[k] {
				t.Skip("coordinate collision")
			}
			seen[k] = true
		}
		c := &Case{Case: *hist.NewCase(ch.suffix, ch.code, 0, h), PrefixLen: len(prefix), Mode: "recover", Want: markers, Recover: rIdx}
		c.StoreOrder = gen.Perm(t, len(h), "storeOrder")
		kind, sig, msg := evalRecover(c)
		ev.Record(chkRecover, byNew > 0, caseID(c), fmt.Sprintf("early-by-committed-key:%d", min(byNew, 3)), fmt.Sprintf("pre-updates:%d", steps))
		ev.SampleFn(chkRecover, func() interface{} { return c.Summary() })
		if kind != "" {
			ev.Fail(t, chkRecover, kind, sig, c, "%s", msg)
		}
	})
	_ = refmodel.DeltaGood
}
