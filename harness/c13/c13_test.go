// Package c13 decides property C13: the anchor string and CAS files produced for a batch read back as exactly
// that batch (one operation per distinct suffix - the first queued one -, same type / suffix / request /
// anchor origin, ordered create, recover, update, deactivate, count == anchor string count) and every queued
// operation is accounted for exactly once as included, deferred or expired.
package c13

import (
	"encoding/json"
	"fmt"
	"sort"
	"strings"
	"testing"

	"github.com/trustbloc/sidetree-core-go/pkg/api/operation"
	"github.com/trustbloc/sidetree-core-go/pkg/api/txn"
	"github.com/trustbloc/sidetree-core-go/pkg/versions/1_0/operationparser"
	"pgregory.net/rapid"

	"verifharness/kit/asm"
	"verifharness/kit/ev"
	"verifharness/kit/gen"
	"verifharness/kit/keys"
	"verifharness/kit/refjcs"
	"verifharness/kit/res"
	"verifharness/kit/wire"
)

func TestMain(m *testing.M) { ev.Main(m, "C13") }

const chk = "batch-roundtrip"

const ns = "did:sidetree"

// Case is one batch.
type Case struct {
	Code uint64    `json:"code"`
	Ops  []gen.QOp `json:"ops"`
	// Poison, if present, is a batch handed to the same (long-lived) handler first: a prefix of Ops followed by a
	// request that cannot be parsed, so that the handler rejects it as a whole. Its outcome is not judged (it must
	// not panic); the batch under test comes afterwards, as the retry on a real node would.
	Poison []gen.QOp `json:"poison,omitempty"`
	// Proportional: the limits stand in the proportion of the Sidetree defaults - the batch holds exactly the maximum
	// operation count, the chunk file limit is count x maximum delta size (decompression factor 3) - and MaxDelta is the
	// maximum delta size (0 = the generous base parameters).
	Proportional bool `json:"proportional,omitempty"`
	MaxDelta     uint `json:"maxDelta,omitempty"`
}

func init() {
	ev.RegisterReplay(chk, replay)
	ev.Assume("queued operations are valid requests in canonical form (as the client library produces them); expiry is what the configured intake time validator reports")
	ev.Assume("a batch in which every operation expired anchors zero operations; only the accounting is checked there")
}

// TestReplay runs first.
func TestReplay(t *testing.T) { ev.ReplayMain(t) }

func replay(raw json.RawMessage) (string, string) {
	var c Case
	if err := json.Unmarshal(raw, &c); err != nil {
		return "bad-replay", err.Error()
	}
	return evalCase(&c)
}

func js(v interface{}) string {
	b, _ := json.Marshal(v)
	return string(b)
}

// expiring reports the magic window as expired.
type expiring struct{}

func (expiring) Validate(_, until int64) error {
	if until == gen.ExpiredUntil {
		return operationparser.ErrOperationExpired
	}
	return nil
}

var typeRank = map[string]int{"create": 0, "recover": 1, "update": 2, "deactivate": 3}

func evalCase(c *Case) (string, string) {
	p := wire.BaseProtocol()
	p.MultihashAlgorithms = []uint{uint(c.Code)}
	if c.Proportional {
		p.MaxOperationCount = uint(len(c.Ops))
		p.MaxDeltaSize = c.MaxDelta
		p.MaxChunkFileSize = uint(len(c.Ops)) * c.MaxDelta
	}
	cas := wire.NewMemCAS()
	v := wire.Build(p, wire.Deps{CAS: cas, ParserOpts: []operationparser.Option{operationparser.WithAnchorTimeValidator(expiring{})}})
	var queued []*operation.QueuedOperation
	for _, o := range c.Ops {
		queued = append(queued, &operation.QueuedOperation{Type: operation.Type(o.Type), OperationRequest: o.Request, UniqueSuffix: o.Suffix, Namespace: ns, AnchorOrigin: o.QueuedAO})
	}
	if len(c.Poison) > 0 {
		var pq []*operation.QueuedOperation
		for _, o := range c.Poison {
			pq = append(pq, &operation.QueuedOperation{Type: operation.Type(o.Type), OperationRequest: o.Request, UniqueSuffix: o.Suffix, Namespace: ns, AnchorOrigin: o.QueuedAO})
		}
		if pn := ev.Catch(func() { _, _ = prepare(v, pq) }); pn != "" {
			return "C13/panic", "PrepareTxnFiles panicked on a batch holding an unparseable request: " + pn
		}
	}
	var info *protocolInfo
	var err error
	if pn := ev.Catch(func() { info, err = prepare(v, queued) }); pn != "" {
		return "C13/panic", "PrepareTxnFiles panicked: " + pn
	}
	if err != nil {
		return "C13/prepare-failed", fmt.Sprintf("PrepareTxnFiles failed on a batch of valid operations: %v", err)
	}
	// reference accounting: first non-expired operation per suffix is included, later ones deferred
	var included, deferred, expired []int
	seen := map[string]bool{}
	for i, o := range c.Ops {
		switch {
		case o.Expired:
			expired = append(expired, i)
		case seen[o.Suffix]:
			deferred = append(deferred, i)
		default:
			seen[o.Suffix] = true
			included = append(included, i)
		}
	}
	if got, want := reqSet(info.additional), reqSetOf(c, deferred); got != want {
		return "C13/accounting", fmt.Sprintf("deferred (additional) operations are %s, want %s", got, want)
	}
	if got, want := reqSet(info.expired), reqSetOf(c, expired); got != want {
		return "C13/accounting", fmt.Sprintf("expired operations are %s, want %s", got, want)
	}
	var wantRefs, gotRefs []string
	for _, i := range included {
		wantRefs = append(wantRefs, c.Ops[i].Type+"|"+c.Ops[i].Suffix)
	}
	for _, r := range info.refs {
		gotRefs = append(gotRefs, string(r.Type)+"|"+r.UniqueSuffix)
	}
	sort.Strings(wantRefs)
	sort.Strings(gotRefs)
	if js(wantRefs) != js(gotRefs) {
		return "C13/accounting", fmt.Sprintf("operation references %v, want %v", gotRefs, wantRefs)
	}
	if len(info.refs)+len(info.additional)+len(info.expired) != len(c.Ops) {
		return "C13/accounting", fmt.Sprintf("%d queued operations but %d included + %d deferred + %d expired", len(c.Ops), len(info.refs), len(info.additional), len(info.expired))
	}
	if len(included) == 0 {
		return "", ""
	}
	// expected read-back order: create, recover, update, deactivate; queue order inside a group
	order := append([]int{}, included...)
	sort.SliceStable(order, func(a, b int) bool { return typeRank[c.Ops[order[a]].Type] < typeRank[c.Ops[order[b]].Type] })
	var ops []*operation.AnchoredOperation
	if pn := ev.Catch(func() {
		ops, err = v.Provider.GetTxnOperations(&txn.SidetreeTxn{AnchorString: info.anchor, Namespace: ns, TransactionTime: 10, TransactionNumber: 1})
	}); pn != "" {
		return "C13/panic", "GetTxnOperations panicked: " + pn
	}
	if err != nil {
		return "C13/readback-failed", fmt.Sprintf("files written for the batch cannot be read back: %v (anchor %s)", err, info.anchor)
	}
	ad, aerr := parseAnchor(info.anchor)
	if aerr != nil || ad != len(ops) {
		return "C13/count", fmt.Sprintf("anchor string %q announces %d operations, %d read back", info.anchor, ad, len(ops))
	}
	if len(ops) != len(order) {
		return "C13/readback", fmt.Sprintf("%d operations read back, %d distinct non-expired suffixes queued", len(ops), len(order))
	}
	// stated order: create, recover, update, deactivate; the order inside a group is left open
	wantBySuffix := map[string]gen.QOp{}
	for _, i := range order {
		wantBySuffix[c.Ops[i].Suffix] = c.Ops[i]
	}
	seenBack := map[string]bool{}
	for pos, got := range ops {
		if pos > 0 && typeRank[string(got.Type)] < typeRank[string(ops[pos-1].Type)] {
			return "C13/readback", fmt.Sprintf("position %d: %s read back after %s (order must be create, recover, update, deactivate)", pos, got.Type, ops[pos-1].Type)
		}
		want, ok := wantBySuffix[got.UniqueSuffix]
		if !ok || seenBack[got.UniqueSuffix] || string(got.Type) != want.Type {
			return "C13/readback", fmt.Sprintf("position %d: read back %s %s, which is not the first queued non-expired operation of a distinct suffix (want %s; duplicate %v)", pos, got.Type, got.UniqueSuffix, want.Type, seenBack[got.UniqueSuffix])
		}
		seenBack[got.UniqueSuffix] = true
		wv, e1 := refjcs.Parse(want.Request)
		gv, e2 := refjcs.Parse(got.OperationRequest)
		if e1 != nil || e2 != nil || !refjcs.Equal(wv, gv) {
			return "C13/readback", fmt.Sprintf("position %d (%s %s): request read back is not JSON-equal to the submitted one: got %s want %s", pos, want.Type, want.Suffix, ev.Trunc(string(got.OperationRequest), 500), ev.Trunc(string(want.Request), 500))
		}
		if (want.Type == "create" || want.Type == "recover") && !res.JSONEqual(got.AnchorOrigin, want.ReqOrigin) {
			return "C13/readback", fmt.Sprintf("position %d (%s): anchor origin %s, the request embeds %s", pos, want.Type, js(got.AnchorOrigin), js(want.ReqOrigin))
		}
	}
	return "", ""
}

type protocolInfo struct {
	anchor     string
	refs       []*operation.Reference
	additional []*operation.QueuedOperation
	expired    []*operation.QueuedOperation
}

func prepare(v *wire.Version, q []*operation.QueuedOperation) (*protocolInfo, error) {
	ai, err := v.Handler.PrepareTxnFiles(q)
	if err != nil {
		return nil, err
	}
	return &protocolInfo{anchor: ai.AnchorString, refs: ai.OperationReferences, additional: ai.AdditionalOperations, expired: ai.ExpiredOperations}, nil
}

func parseAnchor(s string) (int, error) {
	var n int
	var uri string
	_, err := fmt.Sscanf(s, "%d.%s", &n, &uri)
	return n, err
}

func reqSet(l []*operation.QueuedOperation) string {
	var out []string
	for _, o := range l {
		out = append(out, asm.B64(asm.Digest(asm.SHA256, o.OperationRequest))[:12])
	}
	sort.Strings(out)
	return js(out)
}

func reqSetOf(c *Case, idx []int) string {
	var out []string
	for _, i := range idx {
		out = append(out, asm.B64(asm.Digest(asm.SHA256, c.Ops[i].Request))[:12])
	}
	sort.Strings(out)
	return js(out)
}

func TestBatchRoundTrip(t *testing.T) {
	ev.Rule(chk, "rapid: batches of 1-40 valid queued operations over 1-6 DIDs (one batch in twenty-five preceded by 101-300 creates for as many further DIDs), or (one in four) over 7-40 DIDs so that the files themselves carry up to 40 operations, half of those with one shared document template (highly compressible chunk files): any mix and order of the four types, repeated suffixes (2+ operations for one DID), deactivate-only, update-only, create-only, single-operation batches, operations the intake time validator reports as expired, anchor origins of several JSON types, all key types and both hash algorithms, deltas over all eight patch actions; real OperationHandler and OperationProvider over one in-memory CAS with gzip; one time in four the same handler object has just rejected a batch made of a prefix of the same operations and an unparseable request; oracle: read-back = first non-expired queued operation per suffix, ordered create / recover / update / deactivate (any order inside a group), same type, suffix, JSON-equal request, embedded anchor origin for create / recover; anchor string count == operations read back; references, additional and expired partition the queued multiset; non-trivial = repeated suffix, or >= 3 types, or an expired operation")
	ev.Rapid(t, chk, 300, 4000, func(t *rapid.T) {
		code := rapid.SampledFrom([]uint64{asm.SHA256, asm.SHA512}).Draw(t, "hash")
		c := &Case{Code: code, Ops: gen.Batch(t, code, 40, true, "c13")}
		if rapid.IntRange(0, 24).Draw(t, "hugeBatch") == 0 {
			// a batch far beyond hand-written sizes: 101-300 creates, followed by whatever the drawn batch holds
			c.Ops = append(gen.BulkCreates(code, rapid.IntRange(101, 300).Draw(t, "hugeOps"), "c13"), c.Ops...)
		}
		if rapid.IntRange(0, 3).Draw(t, "rejectedBatchFirst") == 0 {
			// the long-lived handler has just rejected a batch: some of the same operations followed by a request it
			// cannot parse
			k := rapid.IntRange(1, len(c.Ops)).Draw(t, "poisonPrefix")
			c.Poison = append(append([]gen.QOp{}, c.Ops[:k]...), gen.QOp{Type: rapid.SampledFrom([]string{"update", "recover", "deactivate", "create"}).Draw(t, "poisonType"), Suffix: "EiPoisonSuffix",
				Request: []byte(rapid.SampledFrom([]string{`{"type":"update"}`, `not json`, `{"type":"update","didSuffix":"x","revealValue":"y","signedData":"a.b.c","delta":{}}`, `{}`}).Draw(t, "poisonRequest"))})
		}
		kind, msg := evalCase(c)
		types, suffixes, rep, exp := map[string]bool{}, map[string]int{}, false, false
		for _, o := range c.Ops {
			types[o.Type] = true
			suffixes[o.Suffix]++
			if suffixes[o.Suffix] > 1 {
				rep = true
			}
			exp = exp || o.Expired
		}
		ev.Record(chk, rep || len(types) >= 3 || exp, ev.Hash(c), fmt.Sprintf("types:%d", len(types)), fmt.Sprintf("repeated-suffix:%v", rep), fmt.Sprintf("expired:%v", exp), fmt.Sprintf("size:%d", len(c.Ops)/10*10), fmt.Sprintf("distinct-suffixes:%d", len(suffixes)/10*10))
		ev.SampleFn(chk, func() interface{} {
			var l []string
			for _, o := range c.Ops {
				l = append(l, fmt.Sprintf("%s did%d expired=%v", o.Type, o.DID, o.Expired))
			}
			return l
		})
		if kind != "" {
			ev.Fail(t, chk, kind, kind, c, "%s", msg)
		}
	})
}

// ---- full batches of full-size deltas under limits in the usual proportion -------------------------------

const chkFull = "full-batch-of-full-size-deltas"

func init() { ev.RegisterReplay(chkFull, replay) }

// padChars: characters whose spelling in a JSON text depends on who writes it (one byte or a six-byte escape for the
// first three, three bytes or an escape for the line separators), next to plain ones.
var padChars = []string{"<", ">", "&", "\u2028", "\u2029", "a", "\"", "\\", "\u00e9", "\u20ac", "\U0001F600", "\x01", "/"}

func TestFullBatches(t *testing.T) {
	ev.Rule(chkFull, "rapid: a batch of exactly MaxOperationCount (5-24) valid creates for as many DIDs whose deltas are padded (a JSON-patch string value of one repeated character: '<', '>', '&', U+2028, U+2029, a letter, a quote, a backslash, non-ASCII, a control character, '/') to within 0-40 bytes of the maximum delta size (600-1500, measured - as the protocol does - on the canonical form), under limits in the proportion of the Sidetree defaults: chunk file limit = count x maximum delta size, decompression factor 3; oracle: the same as for every batch - the files written by the real OperationHandler read back through the real OperationProvider as exactly that batch; every case non-trivial")
	ev.Rapid(t, chkFull, 60, 600, func(t *rapid.T) {
		code := rapid.SampledFrom([]uint64{asm.SHA256, asm.SHA512}).Draw(t, "hash")
		n := rapid.IntRange(5, 24).Draw(t, "count")
		maxDelta := rapid.IntRange(600, 1500).Draw(t, "maxDeltaSize")
		c := &Case{Code: code, Proportional: true, MaxDelta: uint(maxDelta)}
		padChar := rapid.SampledFrom(padChars).Draw(t, "padChar")
		for i := 0; i < n; i++ {
			ch := padChar
			if rapid.IntRange(0, 3).Draw(t, "mixedChars") == 0 {
				ch = rapid.SampledFrom(padChars).Draw(t, "padCharOfThisOne")
			}
			slack := rapid.IntRange(0, 40).Draw(t, "slack")
			rec, upd := keys.Get(keys.Ed25519, "c13/full", 2*i), keys.Get(keys.Ed25519, "c13/full", 2*i+1)
			mk := func(k int) *asm.Create {
				patches := []interface{}{map[string]interface{}{"action": "ietf-json-patch", "patches": []interface{}{map[string]interface{}{"op": "add", "path": "/pad", "value": strings.Repeat(ch, k)}}}}
				return &asm.Create{Code: code, RecoveryCommit: asm.Commit(rec, code), Delta: asm.Delta(asm.Commit(upd, code), patches)}
			}
			size := func(k int) int { return len(refjcs.MustCanonicalGo(mk(k).Delta)) }
			per := size(2) - size(1)
			k := (maxDelta - slack - size(0)) / per
			for k > 0 && size(k) > maxDelta {
				k--
			}
			cr := mk(k)
			c.Ops = append(c.Ops, gen.QOp{Type: "create", Suffix: cr.Suffix(), Request: cr.Bytes(), DID: i})
		}
		kind, msg := evalCase(c)
		ev.Record(chkFull, true, ev.Hash(c), "pad:"+fmt.Sprintf("%q", padChar), fmt.Sprintf("count:%d", n/5*5))
		ev.SampleFn(chkFull, func() interface{} {
			return map[string]interface{}{"count": n, "maxDeltaSize": maxDelta, "padChar": padChar}
		})
		if kind != "" {
			ev.Fail(t, chkFull, kind, kind+"/full-batch", c, "%s", msg)
		}
	})
}
