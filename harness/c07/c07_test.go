// Package c07 decides property C07: canonicalization returns the RFC 8785 form of every well-formed JSON
// object/array, is a fixed point, is independent of the serialization of the value, and rejects the listed
// malformed inputs.
package c07

import (
	"bytes"
	"encoding/json"
	"fmt"
	"math"
	"reflect"
	"strings"
	"testing"
	"unicode/utf8"

	"github.com/trustbloc/sidetree-core-go/pkg/canonicalizer"
	"pgregory.net/rapid"

	"verifharness/kit/ev"
	"verifharness/kit/gen"
	"verifharness/kit/refjcs"
)

func TestMain(m *testing.M) { ev.Main(m, "C07") }

const (
	chkEnum    = "enum-small-trees"
	chkRapid   = "rapid-values-respelled"
	chkDoubles = "doubles-by-bit-pattern"
	chkGo      = "go-values"
	chkNeg     = "malformed-inputs"
	chkFuzz    = "FuzzCanonical"
)

// Case is one input text.
type Case struct {
	Input []byte `json:"input"`
	Note  string `json:"note,omitempty"`
}

func init() {
	for _, c := range []string{chkEnum, chkRapid, chkDoubles, chkNeg, chkFuzz, chkHuge} {
		ev.RegisterReplay(c, replay)
	}
	ev.RegisterReplay(chkGo, replayGo)
	ev.Assume("the reference (kit/refjcs) is a from-scratch RFC 8785 implementation; both sides lean on strconv for shortest round-trip digits (a defect there would be shared)")
	ev.Assume("inputs the statement does not classify (number syntax leniencies such as +1 or .5, invalid UTF-8, scalar top level) are only required not to panic")
}

// TestReplay runs first.
func TestReplay(t *testing.T) { ev.ReplayMain(t) }

func replay(raw json.RawMessage) (string, string) {
	var c Case
	if err := json.Unmarshal(raw, &c); err != nil {
		return "bad-replay", err.Error()
	}
	k, m, _ := judge(c.Input)
	return k, m
}

var rejectClasses = map[string]bool{
	refjcs.ErrDuplicate: true, refjcs.ErrUnterminated: true, refjcs.ErrEscape: true, refjcs.ErrSurrogate: true, refjcs.ErrControl: true, refjcs.ErrTrailing: true,
}

func show(b []byte) string {
	if len(b) > 300 {
		return fmt.Sprintf("%q...(%d bytes)", b[:300], len(b))
	}
	return fmt.Sprintf("%q", b)
}

// judge is the single oracle: the reference parser classifies the input; well-formed inputs must
// canonicalize to exactly the reference bytes (and be a fixed point, and parse back to the same value);
// inputs in one of the statement's reject classes must be rejected; anything else must merely not panic.
// It returns the class used ("ok", a reject class, "unclassified").
func judge(input []byte) (kind, msg, class string) {
	var out []byte
	var err error
	if p := ev.Catch(func() { out, err = canonicalizer.MarshalCanonical(input) }); p != "" {
		return "C07/panic", "canonicalization panicked on " + show(input) + ": " + p, "panic"
	}
	v, perr := refjcs.Parse(input)
	if perr != nil {
		if rejectClasses[perr.Class] && utf8.Valid(input) {
			if err == nil {
				return "C07/accepted-" + perr.Class, fmt.Sprintf("input with %s (%s) was accepted: %s -> %s", perr.Class, perr.Msg, show(input), show(out)), perr.Class
			}
			// the canonicalizer is long-lived package state: the same input must be rejected again
			if out2, err2 := canonicalizer.MarshalCanonical(input); err2 == nil {
				return "C07/accepted-" + perr.Class, fmt.Sprintf("input with %s (%s) was rejected by the first call and accepted by the second: %s -> %s", perr.Class, perr.Msg, show(input), show(out2)), perr.Class
			}
			return "", "", perr.Class
		}
		// the reference stops at the first thing it cannot read (e.g. "bad number tail"); an input that, read token by
		// token, has a raw control character, a string that never ends or more opening than closing brackets is one
		// "with raw control characters / unterminated strings or structures" all the same
		if lc := lexicalDefect(input); lc != "" && utf8.Valid(input) {
			if err == nil {
				return "C07/accepted-" + lc, fmt.Sprintf("input with %s (found token by token; the reference parser says: %s) was accepted: %s -> %s", lc, perr.Msg, show(input), show(out)), lc
			}
			return "", "", lc
		}
		return "", "", "unclassified"
	}
	want, cerr := refjcs.Canonical(v)
	if cerr != nil {
		return "", "", "unclassified"
	}
	if err != nil {
		return "C07/rejected-wellformed", fmt.Sprintf("well-formed input rejected (%v): %s", err, show(input)), "ok"
	}
	if !bytes.Equal(out, want) {
		return "C07/not-rfc8785", fmt.Sprintf("canonical form differs from RFC 8785: input %s\n got  %s\n want %s", show(input), show(out), show(want)), "ok"
	}
	if out2, err3 := canonicalizer.MarshalCanonical(input); err3 != nil || !bytes.Equal(out2, want) {
		return "C07/not-rfc8785", fmt.Sprintf("a second call on the same input gives another result: input %s\n got  %s (%v)\n want %s", show(input), show(out2), err3, show(want)), "ok"
	}
	again, err2 := canonicalizer.MarshalCanonical(out)
	if err2 != nil || !bytes.Equal(again, out) {
		return "C07/not-fixed-point", fmt.Sprintf("canonical output is not a fixed point: %s -> %s (%v)", show(out), show(again), err2), "ok"
	}
	back, perr2 := refjcs.Parse(out)
	if perr2 != nil || !refjcs.Equal(back, v) {
		return "C07/value-changed", fmt.Sprintf("canonical output does not parse to the input value: %s -> %s", show(input), show(out)), "ok"
	}
	// (encoding/json reads numbers with strconv.ParseFloat, which misreads literals of more than 800 digits: this
	// cross-check is for inputs whose number literals are short)
	var g1, g2 interface{}
	if !hasLongNumber(input) && json.Unmarshal(input, &g1) == nil && (json.Unmarshal(out, &g2) != nil || !reflect.DeepEqual(g1, g2)) {
		return "C07/value-changed", fmt.Sprintf("encoding/json reads different values from input and output: %s -> %s", show(input), show(out)), "ok"
	}
	return "", "", "ok"
}

// lexicalDefect scans the input token by token without regard to the grammar: a control character (outside strings
// other than tab, line feed and carriage return), a string literal that runs into the end of the input, or brackets
// that are still open at the end.
func lexicalDefect(b []byte) string {
	depth, inString := 0, false
	for i := 0; i < len(b); i++ {
		c := b[i]
		if inString {
			switch {
			case c < 0x20:
				return refjcs.ErrControl
			case c == '\\':
				i++
			case c == '"':
				inString = false
			}
			continue
		}
		switch {
		case c == '"':
			inString = true
		case c == '[' || c == '{':
			depth++
		case c == ']' || c == '}':
			depth--
		case c < 0x20 && c != '\t' && c != '\n' && c != '\r':
			return refjcs.ErrControl
		}
	}
	if inString || depth > 0 {
		return refjcs.ErrUnterminated
	}
	return ""
}

// hasLongNumber reports a run of more than 300 characters from the number alphabet.
func hasLongNumber(b []byte) bool {
	run := 0
	for _, c := range b {
		if (c >= '0' && c <= '9') || c == '.' || c == '-' || c == '+' || c == 'e' || c == 'E' {
			run++
			if run > 300 {
				return true
			}
		} else {
			run = 0
		}
	}
	return false
}

func interesting(v *refjcs.Value) bool {
	switch v.Kind {
	case refjcs.Number:
		f := math.Abs(v.Num)
		return f != math.Trunc(f) || f >= 1<<53 || (f != 0 && (f < 1e-6 || f >= 1e21))
	case refjcs.String:
		for _, r := range v.Str {
			if r >= 0x80 || r < 0x20 || r == '"' || r == '\\' {
				return true
			}
		}
	case refjcs.Array:
		for _, e := range v.Arr {
			if interesting(e) {
				return true
			}
		}
	case refjcs.Object:
		for _, m := range v.Obj {
			if interesting(&refjcs.Value{Kind: refjcs.String, Str: m.Name}) && len(v.Obj) > 1 || interesting(m.Val) {
				return true
			}
		}
	}
	return false
}

func check(t ev.TB, chk string, input []byte, nontrivial bool, note string, classes ...string) {
	kind, msg, class := judge(input)
	ev.Record(chk, nontrivial || rejectClasses[class], ev.Hash(input), append(classes, "class:"+class)...)
	ev.SampleFn(chk, func() interface{} {
		return map[string]string{"input": ev.Trunc(string(input), 200), "class": class, "note": note}
	})
	if kind != "" {
		ev.Fail(t, chk, kind, kind, &Case{Input: input, Note: note}, "%s", msg)
	}
}

// ---- (a) exhaustive small trees ---------------------------------------------------------------------

func TestEnumSmallTrees(t *testing.T) {
	atomsS := []string{"", "a", "\u0000", "\"\\/", "\u007f", "\u2028", "\u20ac", "\ue000", "\ufb33", "\U0001f600", "\U0001d11e", "aa", "A"}
	atomsN := []float64{0, math.Copysign(0, -1), 1e21, 999999999999999868928, 1e-6, 1e-7, 5e-324, 1.7976931348623157e308, 9007199254740993, 9007199254740991, 0.1 + 0.2, 999999999999999900000, 123456789012345680000}
	var atoms []*refjcs.Value
	for _, s := range atomsS {
		atoms = append(atoms, &refjcs.Value{Kind: refjcs.String, Str: s})
	}
	for _, n := range atomsN {
		atoms = append(atoms, &refjcs.Value{Kind: refjcs.Number, Num: n})
	}
	atoms = append(atoms, &refjcs.Value{Kind: refjcs.Null}, &refjcs.Value{Kind: refjcs.Bool, B: true}, &refjcs.Value{Kind: refjcs.Bool})
	ev.Rule(chkEnum, fmt.Sprintf("exhaustive: all objects and arrays of width <= 2 over %d atoms (13 tricky strings used both as names and values, 13 boundary numbers, literals) and all width <= 2 nestings one level deeper built from a rotating subset; each in canonical spelling and with members reversed; oracle: output == kit/refjcs byte for byte, fixed point, parses back to the same value; non-trivial = non-ASCII/escaped name ordering decision or non-integer / >= 2^53 / exponent-form number", len(atoms)))
	item := 0
	emit := func(v *refjcs.Value) {
		item++
		if !ev.Mine(item) {
			return
		}
		b, _ := refjcs.Canonical(v)
		check(t, chkEnum, b, interesting(v), "canonical spelling")
		if v.Kind == refjcs.Object && len(v.Obj) == 2 {
			r := &refjcs.Value{Kind: refjcs.Object, Obj: []refjcs.Member{v.Obj[1], v.Obj[0]}}
			check(t, chkEnum, refjcs.Spell(r, refjcs.FixedChooser{}, refjcs.SpellOpts{}), interesting(v), "members reversed")
		}
	}
	var level1 []*refjcs.Value
	// arrays of width 0..2
	emit(&refjcs.Value{Kind: refjcs.Array, Arr: []*refjcs.Value{}})
	emit(&refjcs.Value{Kind: refjcs.Object, Obj: []refjcs.Member{}})
	for i, a := range atoms {
		v := &refjcs.Value{Kind: refjcs.Array, Arr: []*refjcs.Value{a}}
		emit(v)
		level1 = append(level1, v)
		for j, b := range atoms {
			emit(&refjcs.Value{Kind: refjcs.Array, Arr: []*refjcs.Value{a, b}})
			_ = j
		}
		_ = i
	}
	// objects of width 1..2: names from the string atoms
	for i, n1 := range atomsS {
		for _, a := range atoms {
			v := &refjcs.Value{Kind: refjcs.Object, Obj: []refjcs.Member{{Name: n1, Val: a}}}
			emit(v)
			level1 = append(level1, v)
		}
		for j, n2 := range atomsS {
			if i == j {
				continue
			}
			for k, a := range atoms {
				b := atoms[(k*7+3)%len(atoms)]
				emit(&refjcs.Value{Kind: refjcs.Object, Obj: []refjcs.Member{{Name: n1, Val: a}, {Name: n2, Val: b}}})
			}
		}
	}
	// depth 2: width <= 2 containers of level-1 values (rotating partner)
	for i, a := range level1 {
		b := level1[(i*31+7)%len(level1)]
		emit(&refjcs.Value{Kind: refjcs.Array, Arr: []*refjcs.Value{a, b}})
		n1, n2 := atomsS[i%len(atomsS)], atomsS[(i/len(atomsS)+1+i%len(atomsS))%len(atomsS)]
		if n1 != n2 {
			emit(&refjcs.Value{Kind: refjcs.Object, Obj: []refjcs.Member{{Name: n1, Val: a}, {Name: n2, Val: b}}})
		}
	}
	ev.Exhaustive(chkEnum)
}

// ---- (b, c) random values, every one in several re-serializations --------------------------------------

func TestRapidRespelled(t *testing.T) {
	ev.Rule(chkRapid, "rapid: JSON objects/arrays to depth 6 (tricky and arbitrary Unicode strings, sibling names that differ in one bit of one code point, doubles by bit pattern / near powers of ten / boundary list), one value in eight large in one respect (9-64 members with long common name prefixes, 17-200 array elements, strings of 60-600 code points, 8-40 levels of nesting); each value is serialized 6 times with drawn member order, whitespace, escape spelling (raw, short, \\uXXXX upper/lower, surrogate pairs, \\/) and number spelling (exponent/fixed forms, long mantissas, literals of 750-1350 zeros before or after the digits, -0.0); oracle: every spelling canonicalizes to exactly the reference bytes; non-trivial = value with a non-ASCII/escaped name or string, or a non-integer / large / exponent-form number")
	ev.Rapid(t, chkRapid, 3000, 30000, func(t *rapid.T) {
		v := gen.JSONTop(t, rapid.IntRange(1, 6).Draw(t, "depth"))
		shape := "small"
		if rapid.IntRange(0, 7).Draw(t, "large") == 0 {
			// large in one respect: many members, a long array, long strings or deep nesting
			v, shape = gen.JSONLarge(t)
		}
		nt := interesting(v) || shape != "small"
		want, _ := refjcs.Canonical(v)
		for i := 0; i < 6; i++ {
			opts := refjcs.AllSpell
			if i == 0 {
				opts = refjcs.SpellOpts{}
			}
			in := refjcs.Spell(v, gen.RapidChooser{T: t, Label: "spell"}, opts)
			// the speller itself must preserve the value (harness self-check, not a verdict on the library)
			if pv, perr := refjcs.Parse(in); perr != nil || !refjcs.Equal(pv, v) {
				t.Fatalf("harness bug: speller changed the value: %q (%v)", in, perr)
			}
			check(t, chkRapid, in, nt, fmt.Sprintf("spelling %d of value %s", i, ev.Trunc(string(want), 80)), fmt.Sprintf("respelled:%v", i > 0), "shape:"+shape)
		}
	})
}

// ---- literals beyond every parser's comfort zone --------------------------------------------------------

const chkHuge = "megabyte-number-literals"

// TestHugeLiterals: a handful of well-formed number literals of more than a megabyte whose value is an ordinary
// double (a digit followed by a million zeros and a matching negative exponent, and the like).
func TestHugeLiterals(t *testing.T) {
	ev.Rule(chkHuge, "deterministic: 6 number literals of 1.0-1.1 MB denoting 1, 2.5, -3 and 0.1 (a million zeros before or after the digits, compensated by the exponent), each as the only element of an array; same oracle; non-trivial = every case")
	z := strings.Repeat("0", 1000001)
	for i, in := range []string{"[1" + z + "e-1000001]", "[25" + z + "E-1000002]", "[-3" + z + ".0e-1000001]", "[0." + z + "1e1000002]", "[1" + strings.Repeat("0", 800) + "." + z + "e-800]", "[0." + strings.Repeat("0", 100000) + "1" + z + "e100001]"} {
		if !ev.Mine(i + 1) {
			continue
		}
		check(t, chkHuge, []byte(in), true, fmt.Sprintf("literal %d", i))
	}
	ev.Exhaustive(chkHuge)
}

// ---- doubles by bit pattern -----------------------------------------------------------------------------

func TestDoublesByBitPattern(t *testing.T) {
	ev.Rule(chkDoubles, "rapid: IEEE-754 doubles drawn uniformly by bit pattern (plus boundary list and neighbours of powers of ten), each as the single element of an array in a drawn number spelling; oracle: ECMAScript Number::toString layout from strconv's shortest digits; non-trivial = every finite non-integer or >= 2^53 or exponent-form double")
	ev.Rapid(t, chkDoubles, 20000, 250000, func(t *rapid.T) {
		f := gen.Double(t)
		v := &refjcs.Value{Kind: refjcs.Array, Arr: []*refjcs.Value{{Kind: refjcs.Number, Num: f}}}
		in := refjcs.Spell(v, gen.RapidChooser{T: t, Label: "spell"}, refjcs.SpellOpts{Numbers: true})
		check(t, chkDoubles, in, interesting(v), "")
	})
}

// ---- (d) Go values through MarshalCanonical(struct/map) ------------------------------------------------

type goStruct struct {
	Zeta  string                 `json:"zeta"`
	Alpha float64                `json:"alpha"`
	Map   map[string]interface{} `json:"map,omitempty"`
	List  []interface{}          `json:"list"`
	Euro  string                 `json:"éa"`
}

// GoCase is a Go value (as JSON text of the generic value) for the struct/map entry point.
type GoCase struct {
	Zeta  string          `json:"zeta"`
	Alpha float64         `json:"alpha"`
	Map   json.RawMessage `json:"map"`
	List  json.RawMessage `json:"list"`
	Euro  string          `json:"euro"`
}

func evalGo(c *GoCase) (string, string) {
	mv, perr := refjcs.ParseAny(c.Map)
	lv, perr2 := refjcs.ParseAny(c.List)
	if perr != nil || perr2 != nil {
		return "bad-replay", "unparsable go case"
	}
	s := goStruct{Zeta: c.Zeta, Alpha: c.Alpha, Euro: c.Euro}
	s.Map, _ = refjcs.ToGo(mv).(map[string]interface{})
	s.List, _ = refjcs.ToGo(lv).([]interface{})
	ref := &refjcs.Value{Kind: refjcs.Object, Obj: []refjcs.Member{
		{Name: "zeta", Val: &refjcs.Value{Kind: refjcs.String, Str: c.Zeta}},
		{Name: "alpha", Val: &refjcs.Value{Kind: refjcs.Number, Num: c.Alpha}},
		{Name: "list", Val: lv},
		{Name: "\u00e9a", Val: &refjcs.Value{Kind: refjcs.String, Str: c.Euro}},
	}}
	if len(s.Map) > 0 {
		ref.Obj = append(ref.Obj, refjcs.Member{Name: "map", Val: mv})
	}
	want, _ := refjcs.Canonical(ref)
	var got []byte
	var err error
	if p := ev.Catch(func() { got, err = canonicalizer.MarshalCanonical(s) }); p != "" {
		return "C07/panic", p
	}
	if err != nil {
		return "C07/go-value-rejected", fmt.Sprintf("MarshalCanonical(struct) failed: %v", err)
	}
	if !bytes.Equal(got, want) {
		return "C07/go-value-not-rfc8785", fmt.Sprintf("MarshalCanonical(struct) = %s, want %s", show(got), show(want))
	}
	// the same value as a map must give the same bytes
	m := map[string]interface{}{"zeta": c.Zeta, "alpha": c.Alpha, "list": s.List, "\u00e9a": c.Euro}
	if len(s.Map) > 0 {
		m["map"] = s.Map
	}
	got2, err := canonicalizer.MarshalCanonical(m)
	if err != nil || !bytes.Equal(got2, want) {
		return "C07/go-map-differs", fmt.Sprintf("MarshalCanonical(map) = %s (%v), want %s", show(got2), err, show(want))
	}
	return "", ""
}

func replayGo(raw json.RawMessage) (string, string) {
	var c GoCase
	if err := json.Unmarshal(raw, &c); err != nil {
		return "bad-replay", err.Error()
	}
	return evalGo(&c)
}

func TestGoValues(t *testing.T) {
	ev.Rule(chkGo, "rapid: a Go struct (tagged fields incl. a non-ASCII name, omitempty map, nested generic values with HTML-sensitive characters that encoding/json escapes) and the equivalent map handed to MarshalCanonical; oracle: both equal the reference serialization of the same value; non-trivial = value contains characters encoding/json escapes (<, >, &, U+2028) or non-ASCII names")
	ev.Rapid(t, chkGo, 1000, 10000, func(t *rapid.T) {
		mv := gen.JSONObject(t, 2)
		lv := gen.JSONArray(t, 2)
		mb, _ := refjcs.Canonical(mv)
		lb, _ := refjcs.Canonical(lv)
		c := &GoCase{Zeta: gen.JSONString(t), Alpha: gen.Double(t), Euro: gen.JSONString(t), Map: mb, List: lb}
		all := string(mb) + string(lb) + c.Zeta + c.Euro
		kind, msg := evalGo(c)
		ev.Record(chkGo, strings.ContainsAny(all, "<>&\u2028\u2029") || !isASCII(all), ev.Hash(c))
		ev.SampleFn(chkGo, func() interface{} { return c })
		if kind != "" {
			ev.Fail(t, chkGo, kind, kind, c, "%s", msg)
		}
	})
}

func isASCII(s string) bool {
	for i := 0; i < len(s); i++ {
		if s[i] >= 0x80 {
			return false
		}
	}
	return true
}

// ---- (e) malformed inputs: one injected defect per case -------------------------------------------------

var surrogateDefects = []string{`\ud800`, `\udc00`, `\udc00\ud800`, `\ud800A`, `\ud800x`, `\udfff\udfff`, `\uDBFF`, `\ud83d `, `\udc00A`}
var escapeDefects = []string{`\q`, `\u12G4`, `\x41`, `\U0041`, `\ `, `\u+123`, `\'`, `\a`, `\0`}

func TestMalformedInputs(t *testing.T) {
	ev.Rule(chkNeg, "rapid: a valid re-spelled serialization with exactly one injected defect: duplicate member name (identical or via a different escape spelling), truncation at a drawn position, invalid escape, lone / reversed / unpaired surrogate escape, raw control character inside a string, trailing content (incl. characters that only Unicode counts as white space); the reference parser classifies the result and every input in one of the statement's reject classes must be rejected (an injection that happens to produce well-formed JSON is judged as such); every case is non-trivial when it lands in a reject class")
	ev.Rapid(t, chkNeg, 4000, 40000, func(t *rapid.T) {
		v := gen.JSONTop(t, rapid.IntRange(1, 4).Draw(t, "depth"))
		ch := gen.RapidChooser{T: t, Label: "spell"}
		base := refjcs.Spell(v, ch, refjcs.AllSpell)
		defect := rapid.SampledFrom([]string{"duplicate", "truncate", "escape", "surrogate", "control", "trailing", "long-token"}).Draw(t, "defect")
		var in []byte
		// positions inside string literals of base (after the opening quote)
		strPos := stringInteriors(base)
		switch defect {
		case "duplicate":
			obj := &refjcs.Value{Kind: refjcs.Object, Obj: append([]refjcs.Member{}, objectOf(v, t).Obj...)}
			if len(obj.Obj) == 0 {
				obj.Obj = append(obj.Obj, refjcs.Member{Name: gen.JSONString(t), Val: &refjcs.Value{Kind: refjcs.Null}})
			}
			d := obj.Obj[rapid.IntRange(0, len(obj.Obj)-1).Draw(t, "dupIndex")]
			at := rapid.IntRange(0, len(obj.Obj)).Draw(t, "dupAt")
			obj.Obj = append(obj.Obj[:at], append([]refjcs.Member{{Name: d.Name, Val: gen.JSONValue(t, 1)}}, obj.Obj[at:]...)...)
			in = refjcs.Spell(obj, ch, refjcs.SpellOpts{Whitespace: true, Escapes: true, Numbers: true})
		case "truncate":
			in = base[:rapid.IntRange(0, len(base)-1).Draw(t, "cut")]
		case "long-token":
			// the defect sits inside an unquoted token of more than 700 characters (the length from which the library
			// evaluates number literals itself) that ends like a number with an exponent far outside the double range
			garbage := rapid.SampledFrom([]string{"1\"bc", "1[[[{{{", "1\x00\x01", "1\x1f", "7\"", "2[", "3{\"k\":", "-\"x", "1e5\"", "0.5[[", "1\x7f\x02"}).Draw(t, "garbage")
			pad := strings.Repeat(rapid.SampledFrom([]string{"0", "9", "12"}).Draw(t, "padDigit"), rapid.IntRange(400, 1500).Draw(t, "padLen"))
			exp := rapid.SampledFrom([]string{"e-9999", "E-100000", "e-2000000", "e-1900", "e+9999", "E99999", "e-0", ""}).Draw(t, "exponent")
			tok := garbage + pad + exp
			in = []byte(rapid.SampledFrom([]string{"[%s]", "{\"a\":%s}", "[1,%s]", "{\"a\":[true,%s]}", " [ %s ] "}).Draw(t, "frame"))
			in = []byte(strings.Replace(string(in), "%s", tok, 1))
		case "trailing":
			in = append(append([]byte{}, bytes.TrimRight(base, " \t\r\n")...), []byte(rapid.SampledFrom([]string{"x", "{}", ",", "]", "1", "}", "null", " []", "\n\"a\"", "\u0000",
				// characters Unicode counts as space but JSON does not
				"\f", "\v", "\u0085", "\u00a0", "\u1680", "\u2000", "\u2009", "\u2028", "\u2029", "\u202f", "\u205f", "\u3000", "\ufeff", "\n\u2028", " \f "}).Draw(t, "tail"))...)
		default:
			if len(strPos) == 0 {
				base = []byte(`{"k":"v"}`)
				strPos = stringInteriors(base)
			}
			pos := strPos[rapid.IntRange(0, len(strPos)-1).Draw(t, "pos")]
			var ins string
			switch defect {
			case "escape":
				ins = rapid.SampledFrom(escapeDefects).Draw(t, "badEscape")
			case "surrogate":
				ins = rapid.SampledFrom(surrogateDefects).Draw(t, "badSurrogate")
			default:
				ins = string([]byte{byte(rapid.IntRange(0, 31).Draw(t, "ctl"))})
			}
			in = append(append(append([]byte{}, base[:pos]...), []byte(ins)...), base[pos:]...)
		}
		check(t, chkNeg, in, false, "defect "+defect, "defect:"+defect)
	})
}

// objectOf returns some object inside v (or an empty one).
func objectOf(v *refjcs.Value, t *rapid.T) *refjcs.Value {
	var objs []*refjcs.Value
	var walk func(x *refjcs.Value)
	walk = func(x *refjcs.Value) {
		switch x.Kind {
		case refjcs.Object:
			objs = append(objs, x)
			for _, m := range x.Obj {
				walk(m.Val)
			}
		case refjcs.Array:
			for _, e := range x.Arr {
				walk(e)
			}
		}
	}
	walk(v)
	if len(objs) == 0 {
		return &refjcs.Value{Kind: refjcs.Object}
	}
	return objs[rapid.IntRange(0, len(objs)-1).Draw(t, "whichObject")]
}

// stringInteriors returns byte offsets that lie inside a string literal at a token boundary (directly after
// the opening quote or after a complete character/escape).
func stringInteriors(b []byte) []int {
	var out []int
	in := false
	for i := 0; i < len(b); i++ {
		c := b[i]
		if !in {
			if c == '"' {
				in = true
				out = append(out, i+1)
			}
			continue
		}
		switch {
		case c == '\\':
			if i+1 < len(b) && b[i+1] == 'u' {
				i += 5
			} else {
				i++
			}
			out = append(out, i+1)
		case c == '"':
			in = false
		case c >= 0x80:
			_, size := utf8.DecodeRune(b[i:])
			i += size - 1
			out = append(out, i+1)
		default:
			out = append(out, i+1)
		}
	}
	return out
}

// ---- (f) native fuzz target (thorough tier) ---------------------------------------------------------------

func FuzzCanonical(f *testing.F) {
	seeds := []string{
		`{}`, `[]`, `{"a":1,"b":[true,false,null]}`, `{"€":1e21,"😀":1e-7,"a":{"a":"\n"}}`, `[5e-324,1.7976931348623157e308,-0.0]`,
		`{"a":1,"a":2}`, `{"a":"\ud800"}`, `{"a":"\udc00\ud800"}`, `{"a":"\ud800A"}`, `{"a":"\q"}`, `{"a":1}x`, `{"a":`, "{\"a\":\"\x01\"}", `[1e400]`, `{"a":+1}`, `[.5]`,
		`{"b":1,"a":{"d":[1,2,{"z":"é","y":"\/"}],"c":2}}`, `[[[[[[[[]]]]]]]]`, `{"":"","\u0000":0}`,
	}
	for _, s := range seeds {
		f.Add([]byte(s))
	}
	f.Fuzz(func(t *testing.T, in []byte) {
		if len(in) > 1<<16 {
			return
		}
		kind, msg, _ := judge(in)
		if kind != "" {
			ev.Fail(t, chkFuzz, kind, kind, &Case{Input: in, Note: "native fuzz"}, "%s", msg)
		}
	})
}
