package c07

import (
	"fmt"
	"testing"

	"verifharness/kit/ev"
	"verifharness/kit/refjcs"
)

const chkKeyOrder = "key-order-bit-sweep"

func init() { ev.RegisterReplay(chkKeyOrder, replay) }

// TestKeyOrderSweep decides the member-ordering clause where it is most delicate: two sibling names that agree up
// to one code point and differ there in exactly one bit. For every base code point of a list that spans the ASCII
// range, the BMP below and above the surrogate block and several supplementary planes, and for every bit 0..20,
// the pair (base, base XOR bit) is used as the distinguishing code point of two names (bare, after a common
// prefix, before a differing tail); the object is spelt in both member orders. Pairs across the surrogate
// boundary (U+E000.. against supplementary code points) order differently by code point and by UTF-16 code unit,
// so a comparator working on the wrong unit is visible, as is one that loses any bit of either surrogate.
func TestKeyOrderSweep(t *testing.T) {
	bases := []rune{0x20, 0x41, 0x7f, 0x80, 0x7ff, 0x800, 0x20ac, 0xd7ff, 0xe000, 0xfb33, 0xffff, 0x10000, 0x10001, 0x1003f, 0x10040, 0x103ff, 0x10400, 0x1d11e, 0x1f600, 0x1f63f, 0x1f640, 0x2f800, 0xffc00, 0x100000, 0x10fc00, 0x10ffff}
	ev.Rule(chkKeyOrder, fmt.Sprintf("exhaustive: %d base code points x 21 single-bit neighbours (valid scalar values only) x 3 name shapes (bare, common prefix, differing tail) x both member orders, plus every base against every other base; oracle: output == kit/refjcs byte for byte (and the other clauses of the single oracle); every case is non-trivial (an ordering decision between non-identical names)", len(bases)))
	valid := func(r rune) bool { return r >= 0 && r <= 0x10ffff && !(r >= 0xd800 && r <= 0xdfff) }
	item := 0
	pair := func(a, b string, note string) {
		if a == b {
			return
		}
		item++
		if !ev.Mine(item) {
			return
		}
		for _, ms := range [][]refjcs.Member{
			{{Name: a, Val: &refjcs.Value{Kind: refjcs.Number, Num: 1}}, {Name: b, Val: &refjcs.Value{Kind: refjcs.Number, Num: 2}}},
			{{Name: b, Val: &refjcs.Value{Kind: refjcs.Number, Num: 2}}, {Name: a, Val: &refjcs.Value{Kind: refjcs.Number, Num: 1}}},
		} {
			v := &refjcs.Value{Kind: refjcs.Object, Obj: ms}
			check(t, chkKeyOrder, refjcs.Spell(v, refjcs.FixedChooser{}, refjcs.SpellOpts{}), true, note)
		}
	}
	for _, base := range bases {
		for bit := 0; bit <= 20; bit++ {
			other := base ^ (1 << uint(bit))
			if !valid(other) {
				continue
			}
			note := fmt.Sprintf("U+%04X against U+%04X (bit %d)", base, other, bit)
			pair(string(base), string(other), note)
			pair("k"+string(base), "k"+string(other), note+" after a common prefix")
			pair(string(base)+"z", string(other)+"a", note+" before a differing tail")
		}
		for _, other := range bases {
			pair(string(base), string(other), fmt.Sprintf("U+%04X against U+%04X", base, other))
		}
	}
}
