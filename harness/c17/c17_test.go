// Package c17 decides property C17: patch application is pure, deterministic and atomic and follows
// ordered-set semantics; a well-formed document converted to patches and applied to an empty document
// reproduces that document.
package c17

import (
	"encoding/json"
	"errors"
	"fmt"
	"reflect"
	"testing"

	"github.com/trustbloc/sidetree-core-go/pkg/document"
	"github.com/trustbloc/sidetree-core-go/pkg/patch"
	"github.com/trustbloc/sidetree-core-go/pkg/versions/1_0/doccomposer"
	"pgregory.net/rapid"

	"verifharness/kit/ev"
	"verifharness/kit/gen"
	"verifharness/kit/refdoc"
)

func TestMain(m *testing.M) { ev.Main(m, "C17") }

const (
	chkApply   = "apply-vs-ordered-set-model"
	chkConvert = "document-to-patches-roundtrip"
)

// Case: a prefix that builds the input document from {}, then the patch list under test.
type Case struct {
	Prefix  []interface{} `json:"prefix"`
	Patches []interface{} `json:"patches"`
}

// ConvCase is a document for the conversion clause.
type ConvCase struct {
	Doc map[string]interface{} `json:"doc"`
}

func init() {
	ev.RegisterReplay(chkApply, replay)
	ev.RegisterReplay(chkConvert, replayConv)
	ev.Assume("ids are unique within one patch (what validation guarantees); json-patches that rewrite the publicKey / service / alsoKnownAs sections are not generated (validation forbids the first two)")
	ev.Assume("an absent, null or empty section are the same document state")
}

// TestReplay runs first.
func TestReplay(t *testing.T) { ev.ReplayMain(t) }

func js(v interface{}) string {
	b, _ := json.Marshal(v)
	return string(b)
}

func toPatches(l []interface{}) ([]patch.Patch, error) {
	var out []patch.Patch
	for _, p := range l {
		b, _ := json.Marshal(p)
		var pp patch.Patch
		if err := json.Unmarshal(b, &pp); err != nil {
			return nil, err
		}
		out = append(out, pp)
	}
	return out, nil
}

func snapshot(d document.Document) string {
	b, _ := json.Marshal(d)
	return string(b)
}

func replay(raw json.RawMessage) (string, string) {
	var c Case
	if err := json.Unmarshal(raw, &c); err != nil {
		return "bad-replay", err.Error()
	}
	k, m, _ := evalCase(&c)
	return k, m
}

// evalCase returns (kind, message, whether the reference model predicts a failure).
// longLived is one composer for the whole process, as on a real node (state leaking between calls would show).
var longLived = doccomposer.New()

func evalCase(c *Case) (string, string, bool) {
	comp := longLived
	pre, err := toPatches(c.Prefix)
	if err != nil {
		return "bad-case", err.Error(), false
	}
	var in document.Document
	if p := ev.Catch(func() { in, err = comp.ApplyPatches(make(document.Document), pre) }); p != "" {
		return "C17/panic", "ApplyPatches panicked while building the input document: " + p, false
	}
	if err != nil {
		return "bad-case", "prefix does not apply: " + err.Error(), false
	}
	refIn, rerr := refdoc.Apply(refdoc.New(), c.Prefix)
	if rerr != nil {
		return "bad-case", "reference cannot apply prefix: " + rerr.Error(), false
	}
	if !refdoc.Equal(in, refIn) {
		return "C17/model-mismatch", fmt.Sprintf("input document built from {} by %s is %s, ordered-set model says %s (differs on %v)", js(c.Prefix), js(in), js(refIn.ToMap()), refdoc.Diff(in, refIn)), false
	}
	ps, err := toPatches(c.Patches)
	if err != nil {
		return "bad-case", err.Error(), false
	}
	before := snapshot(in)
	var out1, out2 document.Document
	var err1, err2 error
	if p := ev.Catch(func() { out1, err1 = comp.ApplyPatches(in, ps) }); p != "" {
		return "C17/panic", "ApplyPatches panicked: " + p, false
	}
	if after := snapshot(in); after != before {
		return "C17/input-mutated", fmt.Sprintf("ApplyPatches modified its input document: before %s after %s (patches %s)", before, after, js(c.Patches)), false
	}
	if p := ev.Catch(func() { out2, err2 = comp.ApplyPatches(in, ps) }); p != "" {
		return "C17/panic", "second ApplyPatches panicked: " + p, false
	}
	if (err1 == nil) != (err2 == nil) || snapshot(out1) != snapshot(out2) {
		return "C17/non-deterministic", fmt.Sprintf("two applications differ: %s (%v) vs %s (%v)", snapshot(out1), err1, snapshot(out2), err2), false
	}
	if snapshot(in) != before {
		return "C17/input-mutated", "second application modified the input", false
	}
	if err1 != nil && out1 != nil {
		return "C17/partial-result", fmt.Sprintf("ApplyPatches failed (%v) but returned a document %s", err1, snapshot(out1)), true
	}
	want, werr := refdoc.Apply(refIn, c.Patches)
	if errors.Is(werr, refdoc.ErrUnsupported) {
		return "", "", false
	}
	if werr != nil {
		if err1 == nil {
			return "C17/not-atomic", fmt.Sprintf("patch list with a failing patch (%v) was applied: result %s; patches %s on %s", werr, snapshot(out1), js(c.Patches), before), true
		}
		return "", "", true
	}
	if err1 != nil {
		return "C17/valid-list-failed", fmt.Sprintf("patch list the model applies was rejected: %v; patches %s on %s", err1, js(c.Patches), before), false
	}
	if !refdoc.Equal(out1, want) {
		return "C17/model-mismatch", fmt.Sprintf("result differs from the ordered-set model on %v: got %s want %s; patches %s on %s", refdoc.Diff(out1, want), snapshot(out1), js(want.ToMap()), js(c.Patches), before), false
	}
	return "", "", false
}

// failing patches: each makes the whole list fail.
func failingPatch(t *rapid.T) interface{} {
	return rapid.SampledFrom([]interface{}{
		map[string]interface{}{"action": "ietf-json-patch", "patches": []interface{}{map[string]interface{}{"op": "remove", "path": "/never_there"}}},
		map[string]interface{}{"action": "ietf-json-patch", "patches": []interface{}{map[string]interface{}{"op": "test", "path": "/never_there", "value": "x"}}},
		map[string]interface{}{"action": "ietf-json-patch", "patches": []interface{}{map[string]interface{}{"op": "add", "path": "/ok", "value": "x"}, map[string]interface{}{"op": "remove", "path": "/never_there"}}},
		map[string]interface{}{"action": "no-such-action", "x": "y"},
		map[string]interface{}{"action": "add-public-keys"},
		map[string]interface{}{"action": "remove-services"},
		map[string]interface{}{"action": "add-also-known-as"},
		map[string]interface{}{"action": "replace"},
		map[string]interface{}{"noaction": true},
	}).Draw(t, "failingPatch")
}

func features(c *Case) (classes []string, nontrivial bool) {
	d, _ := refdoc.Apply(refdoc.New(), c.Prefix)
	if d == nil {
		d = refdoc.New()
	}
	set := map[string]bool{}
	for i, p := range c.Patches {
		pm, _ := p.(map[string]interface{})
		a, _ := pm["action"].(string)
		has := func(list []map[string]interface{}, id string) bool {
			for _, e := range list {
				if e["id"] == id {
					return true
				}
			}
			return false
		}
		switch a {
		case "add-public-keys":
			for _, k := range toObjs(pm["publicKeys"]) {
				if has(d.Keys, k["id"].(string)) {
					set["add-existing-key"] = true
				}
			}
		case "add-services":
			for _, k := range toObjs(pm["services"]) {
				if has(d.Services, k["id"].(string)) {
					set["add-existing-service"] = true
				}
			}
		case "remove-public-keys":
			for _, id := range toStrs(pm["ids"]) {
				if !has(d.Keys, id) {
					set["remove-absent-key"] = true
				}
			}
		case "remove-services":
			for _, id := range toStrs(pm["ids"]) {
				if !has(d.Services, id) {
					set["remove-absent-service"] = true
				}
			}
		case "add-also-known-as":
			for _, u := range toStrs(pm["uris"]) {
				for _, e := range d.AKA {
					if e == u {
						set["add-existing-uri"] = true
					}
				}
			}
		case "replace":
			if i > 0 || len(c.Prefix) > 0 {
				set["replace-after-other-patches"] = true
			}
		}
		nd, err := refdoc.Apply(d, []interface{}{p})
		if err != nil {
			if i > 0 && !errors.Is(err, refdoc.ErrUnsupported) {
				set["failing-patch-at-k>1"] = true
			} else if !errors.Is(err, refdoc.ErrUnsupported) {
				set["failing-first-patch"] = true
			}
			break
		}
		d = nd
	}
	for k := range set {
		classes = append(classes, "feature:"+k)
		if k != "failing-first-patch" {
			nontrivial = true
		}
	}
	return classes, nontrivial
}

func toObjs(v interface{}) []map[string]interface{} {
	l, _ := v.([]interface{})
	var out []map[string]interface{}
	for _, e := range l {
		if m, ok := e.(map[string]interface{}); ok {
			out = append(out, m)
		}
	}
	return out
}

func toStrs(v interface{}) []string {
	l, _ := v.([]interface{})
	var out []string
	for _, e := range l {
		if s, ok := e.(string); ok {
			out = append(out, s)
		}
	}
	return out
}

func TestApplyVsModel(t *testing.T) {
	ev.Rule(chkApply, "rapid: input document = result of 0-6 valid patches applied to {}; patch list under test = 1-8 patches over all eight actions (ids / URIs from 5-element alphabets, unique within a patch, keys of every allowed type x purposes x material, services with string / array / object endpoints and extra members, json-patch add / replace / remove / test on top-level members), optionally with a failing patch (json-patch remove / test of an absent member, unknown action, missing value member, missing action) at a drawn position k; oracle: input document unchanged (deep), two applications identical, error => nil result, list with a failing patch => error, otherwise result == kit/refdoc ordered-set model (add-existing replaces in place, add-new appends, remove deletes / ignores absent, replace resets to exactly the given keys and services, URIs as ordered set); non-trivial = add of an existing id/URI, remove of an absent id, replace after other patches, or failing k-th patch with k > 1")
	ev.Rapid(t, chkApply, 2000, 20000, func(t *rapid.T) {
		c := &Case{}
		if rapid.IntRange(0, 4).Draw(t, "emptyInput") > 0 {
			c.Prefix = gen.ValidPatches(t, 6, gen.PatchOpts{})
		}
		jsonOps := []string{"add", "add", "replace", "remove", "test"}
		n := rapid.IntRange(1, 8).Draw(t, "listLen")
		for i := 0; i < n; i++ {
			if rapid.IntRange(0, 5).Draw(t, "jsonPatchWithOps") == 0 {
				// json-patch over members the prefix generator uses (m1, m2, nested, label): may succeed or fail
				name := rapid.SampledFrom([]string{"m1", "m2", "nested", "label"}).Draw(t, "member")
				op := rapid.SampledFrom(jsonOps).Draw(t, "jsonOp")
				o := map[string]interface{}{"op": op, "path": "/" + name}
				if op != "remove" {
					o["value"] = rapid.SampledFrom([]interface{}{"v1", "v2", float64(7), true}).Draw(t, "value")
				}
				c.Patches = append(c.Patches, map[string]interface{}{"action": "ietf-json-patch", "patches": []interface{}{o}})
				continue
			}
			c.Patches = append(c.Patches, gen.ValidPatch(t, gen.PatchOpts{}))
		}
		if rapid.IntRange(0, 2).Draw(t, "withFailing") == 0 {
			k := rapid.IntRange(0, len(c.Patches)).Draw(t, "failAt")
			c.Patches = append(c.Patches[:k], append([]interface{}{failingPatch(t)}, c.Patches[k:]...)...)
		}
		kind, msg, _ := evalCase(c)
		classes, nt := features(c)
		ev.Record(chkApply, nt, ev.Hash(c), classes...)
		ev.SampleFn(chkApply, func() interface{} { return c })
		if kind != "" {
			ev.Fail(t, chkApply, kind, kind, c, "%s", msg)
		}
	})
}

// ---- conversion clause ---------------------------------------------------------------------------------------

func evalConv(c *ConvCase) (string, string) {
	raw, _ := json.Marshal(c.Doc)
	var ps []patch.Patch
	var err error
	if p := ev.Catch(func() { ps, err = patch.PatchesFromDocument(string(raw)) }); p != "" {
		return "C17/panic", "PatchesFromDocument panicked: " + p
	}
	if err != nil {
		return "C17/conversion-rejected", fmt.Sprintf("PatchesFromDocument rejected a well-formed document: %v; doc %s", err, raw)
	}
	var out document.Document
	if p := ev.Catch(func() { out, err = longLived.ApplyPatches(make(document.Document), ps) }); p != "" {
		return "C17/panic", "ApplyPatches panicked on converted patches: " + p
	}
	if err != nil {
		return "C17/conversion-not-applicable", fmt.Sprintf("patches converted from a document do not apply: %v; doc %s", err, raw)
	}
	var want, got interface{}
	_ = json.Unmarshal(raw, &want)
	gb, _ := json.Marshal(out)
	_ = json.Unmarshal(gb, &got)
	if !reflect.DeepEqual(got, want) {
		return "C17/conversion-roundtrip", fmt.Sprintf("document converted to patches and applied to {} gives %s, want %s", gb, raw)
	}
	return "", ""
}

func replayConv(raw json.RawMessage) (string, string) {
	var c ConvCase
	if err := json.Unmarshal(raw, &c); err != nil {
		return "bad-replay", err.Error()
	}
	return evalConv(&c)
}

func TestDocumentToPatches(t *testing.T) {
	ev.Rule(chkConvert, "rapid: documents with non-empty publicKey (1-4 keys of all types / purposes / material), service (1-3 services of every endpoint shape) and alsoKnownAs (1-4 URIs) sections and 0-3 other members with plain names (letters, digits, _) or, one in three, awkward ones (blank, quote, backslash, control and non-ASCII characters, printf verbs, empty, names that start like a protected section or look like JSON; never '~' or '/') and arbitrary JSON values (incl. null, nested null, empty string / list / object, 0, false); oracle: ApplyPatches({}, PatchesFromDocument(doc)) == doc as JSON values; non-trivial = document with >= 1 other member")
	ev.Rapid(t, chkConvert, 800, 8000, func(t *rapid.T) {
		d := map[string]interface{}{}
		var ks, ss, us []interface{}
		for _, id := range gen.IDAlphabet[:rapid.IntRange(1, 4).Draw(t, "keys")] {
			ks = append(ks, gen.DocKey(t, id))
		}
		for _, id := range gen.SvcIDAlphabet[:rapid.IntRange(1, 3).Draw(t, "services")] {
			ss = append(ss, gen.DocService(t, id))
		}
		for _, u := range gen.URIAlphabet[:rapid.IntRange(1, 4).Draw(t, "uris")] {
			us = append(us, u)
		}
		d["publicKey"], d["service"], d["alsoKnownAs"] = ks, ss, us
		n := rapid.IntRange(0, 3).Draw(t, "others")
		for i := 0; i < n; i++ {
			name := rapid.StringMatching(`[A-Za-z][A-Za-z0-9_]{0,8}`).Draw(t, "memberName")
			if rapid.IntRange(0, 2).Draw(t, "awkwardName") == 0 {
				// legal JSON member names without '~' or '/' (the statement's precondition) that are easy to mishandle
				name = rapid.SampledFrom(gen.AwkwardNames).Draw(t, "awkward")
			}
			if name == "publicKey" || name == "service" || name == "alsoKnownAs" || name == "id" {
				continue
			}
			d[name] = rapid.SampledFrom([]interface{}{"text", float64(3), true, []interface{}{"a", float64(1)}, map[string]interface{}{"x": map[string]interface{}{"y": "z"}}, "<&>",
				nil, map[string]interface{}{"inner": nil}, []interface{}{nil, "a"}, "", float64(0), false, []interface{}{}, map[string]interface{}{}}).Draw(t, "memberValue")
		}
		c := &ConvCase{Doc: d}
		kind, msg := evalConv(c)
		ev.Record(chkConvert, len(d) > 3, ev.Hash(c), fmt.Sprintf("others:%d", len(d)-3))
		ev.SampleFn(chkConvert, func() interface{} { return c })
		if kind != "" {
			ev.Fail(t, chkConvert, kind, kind, c, "%s", msg)
		}
	})
}
