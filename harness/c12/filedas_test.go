package c12

import (
	"encoding/json"
	"fmt"
	"strings"
	"testing"

	"github.com/trustbloc/sidetree-core-go/pkg/api/operation"
	"github.com/trustbloc/sidetree-core-go/pkg/document"

	"verifharness/kit/asm"
	"verifharness/kit/ev"
	"verifharness/kit/hist"
	"verifharness/kit/keys"
	"verifharness/kit/res"
)

// Operation records whose request says to be of another type than the record is filed under (in the store, in the
// unpublished-operation store, among the additional operations). One JSON object can satisfy the update and the
// recover model at once: the chain guard must look at the same reading of it as the effect does, or the chain loops.

const chkFiledAs = "records-filed-under-another-type"

func init() { ev.RegisterReplay(chkFiledAs, replayFiledAs) }

type filedAsCase struct {
	KeyType keys.Type `json:"keyType"`
	Code    uint64 `json:"hash"`
	Variant string `json:"variant"` // which type the record is filed under / which type its request names
	Where   string `json:"where"`   // published | unpublished | additional
	Loop    string `json:"loop"`    // self | earlier: which commitment the hidden reading re-commits to
}

func (c *filedAsCase) build() (suffix string, client *hist.Case, base []*operation.AnchoredOperation, odd *operation.AnchoredOperation) {
	k := func(i int) *keys.Key { return keys.Get(c.KeyType, "c12-filed", i) }
	r0, u0, u1 := k(0), k(1), k(2)
	cr := hist.NewCreate(hist.CreateSpec{Name: "create", Code: c.Code, Recovery: r0, Update: u0, Markers: map[string]interface{}{"c": "0"}})
	s := cr.Suffix
	h := []*hist.Anchored{cr.At(10, 0, "ref-create", 0)}
	// one plain update first, so that there is an earlier consumed commitment to come back to
	up := hist.NewSigned(hist.SignedSpec{Name: "u1", Type: "update", Suffix: s, Code: c.Code, Reveal: u0, NextUpd: u1, Markers: map[string]interface{}{"u1": "v"}})
	h = append(h, up.At(11, 1, "ref-u1", 0))
	cs := hist.NewCase(s, c.Code, 0, h)
	pub, _ := cs.Stores()

	target := u1 // self-loop: the commitment the record consumes
	if c.Loop == "earlier" {
		target = u0
	}
	var sg *asm.Signed
	var filed operation.Type
	switch c.Variant {
	case "filed-update-says-recover":
		// read as recover: reveals u1 as "recovery key", next recovery commitment fresh -> nothing wrong with it;
		// read as update (what it is filed as and applied as): reveals u1, next update commitment = commitment of target
		sg = &asm.Signed{Type: "recover", Suffix: s, Code: c.Code, RevealKey: u1, NextRecoveryCommit: asm.Commit(k(5), c.Code),
			Delta:       asm.Delta(asm.Commit(target, c.Code), []interface{}{map[string]interface{}{"action": "ietf-json-patch", "patches": []interface{}{map[string]interface{}{"op": "add", "path": "/odd", "value": "v"}}}}),
			ExtraSigned: map[string]interface{}{"updateKey": u1.JWKMap()}}
		filed = operation.TypeUpdate
	default: // filed-recover-says-update
		rt := r0
		// read as update: reveals r0 as "update key", next update commitment fresh; read as recover (filed and applied):
		// reveals r0, next recovery commitment = commitment of r0 itself (self-loop in the recovery chain)
		sg = &asm.Signed{Type: "update", Suffix: s, Code: c.Code, RevealKey: rt,
			Delta:       asm.Delta(asm.Commit(k(6), c.Code), []interface{}{map[string]interface{}{"action": "ietf-json-patch", "patches": []interface{}{map[string]interface{}{"op": "add", "path": "/odd", "value": "v"}}}}),
			ExtraSigned: map[string]interface{}{"recoveryKey": rt.JWKMap(), "recoveryCommitment": asm.Commit(rt, c.Code)}}
		filed = operation.TypeRecover
	}
	odd = &operation.AnchoredOperation{Type: filed, UniqueSuffix: s, OperationRequest: sg.Bytes(), TransactionTime: 12, TransactionNumber: 2, CanonicalReference: "ref-odd"}
	if c.Where != "published" {
		odd.CanonicalReference = ""
	}
	return s, cs, pub, odd
}

func evalFiledAs(c *filedAsCase) (kind, msg string) {
	s, cs, pub, odd := c.build()
	want := res.Resolve(cs.Client(), s, pub, nil)
	if want.Err != "" || want.Panic != "" {
		return "harness", "the plain history does not resolve: " + want.Err + want.Panic
	}
	var got *res.Outcome
	switch c.Where {
	case "published":
		got = res.Resolve(cs.Client(), s, append(append([]*operation.AnchoredOperation{}, pub...), odd), nil)
	case "unpublished":
		got = res.Resolve(cs.Client(), s, pub, []*operation.AnchoredOperation{odd})
	default:
		// two filler entries so that the step bound has room for the additional operation
		got = res.Resolve(cs.Client(), s, pub, []*operation.AnchoredOperation{}, document.WithAdditionalOperations([]*operation.AnchoredOperation{odd}))
	}
	if got.Panic != "" {
		if strings.Contains(got.Panic, "step bound") {
			return "C12/non-termination", fmt.Sprintf("Resolve did not terminate: a record filed as %s whose request names another type is applied over and over", odd.Type)
		}
		return "C12/panic", got.Panic
	}
	if tw := res.ConsumedTwice(got); tw != "" {
		return "C12/commitment-revisited", tw
	}
	// a request cannot be two operations at once: whichever way the record is read, its hidden reading re-commits to the
	// commitment it consumes (or an earlier one) and must not be applied; its open reading does not belong to the chain
	// it is filed in. The state is that of the history without it.
	if d := res.SameState(got, want); len(d) > 0 {
		return "C12/cycle-model-mismatch", fmt.Sprintf("a record filed as %s whose request says it is of another type changed the state (%v): with=%s without=%s", odd.Type, d, js(got), js(want))
	}
	return "", ""
}

func replayFiledAs(raw json.RawMessage) (string, string) {
	var c filedAsCase
	if err := json.Unmarshal(raw, &c); err != nil {
		return "bad-replay", err.Error()
	}
	return evalFiledAs(&c)
}

func TestRecordsFiledUnderAnotherType(t *testing.T) {
	ev.Rule(chkFiledAs, "exhaustive: create + update, then one record whose request satisfies the update and the recover model at once (signed data with updateKey and recoveryKey, recoveryCommitment and deltaHash), filed as update while its request says recover, or filed as recover while its request says update; read as what it says the next commitment is fresh, read as what it is filed as (and would be applied as) it re-commits to the commitment it consumes or to an earlier one; 5 key types x 2 hash algorithms x 2 variants x {published, unpublished, additional operation} x {self, earlier}; oracle: Resolve terminates (step bound), no commitment consumed twice, state == state of the history without the record; every case non-trivial")
	item := 0
	for _, kt := range keys.AllTypes {
		for _, code := range []uint64{asm.SHA256, asm.SHA512} {
			for _, variant := range []string{"filed-update-says-recover", "filed-recover-says-update"} {
				for _, where := range []string{"published", "unpublished", "additional"} {
					for _, loop := range []string{"self", "earlier"} {
						item++
						if !ev.Mine(item) {
							continue
						}
						c := &filedAsCase{KeyType: kt, Code: code, Variant: variant, Where: where, Loop: loop}
						kind, msg := evalFiledAs(c)
						ev.Record(chkFiledAs, true, ev.Hash(int(kt), code, variant, where, loop), "variant:"+variant, "where:"+where, "loop:"+loop)
						ev.SampleFn(chkFiledAs, func() interface{} { return c })
						if kind != "" {
							ev.Fail(t, chkFiledAs, kind, variant+"/"+where, c, "%s", msg)
						}
					}
				}
			}
		}
	}
	ev.Exhaustive(chkFiledAs)
}
