// Package c12 decides property C12: intake rejects re-commitment to the revealed key and equal update /
// recovery commitments; during resolution a commitment chain can never revisit a commitment.
package c12

import (
	"encoding/json"
	"fmt"
	"strings"
	"testing"

	"pgregory.net/rapid"

	"verifharness/kit/asm"
	"verifharness/kit/ev"
	"verifharness/kit/gen"
	"verifharness/kit/hist"
	"verifharness/kit/keys"
	"verifharness/kit/refmodel"
	"verifharness/kit/res"
	"verifharness/kit/wire"
)

func TestMain(m *testing.M) { ev.Main(m, "C12") }

const (
	chkParse  = "intake-pairings"
	chkCycles = "cyclic-histories"
)

func init() {
	ev.RegisterReplay(chkParse, replayParse)
	ev.RegisterReplay(chkCycles, replayCycle)
	ev.Assume("termination is judged by a step bound on Apply calls, not by a clock")
}

// TestReplay runs first.
func TestReplay(t *testing.T) { ev.ReplayMain(t) }

func js(v interface{}) string {
	b, _ := json.Marshal(v)
	return string(b)
}

// ---- intake pairings --------------------------------------------------------------------------------

// ParseCase is one request with the expected intake verdict.
type ParseCase struct {
	Request    []byte `json:"request"`
	Type       string `json:"type"`
	Pairing    string `json:"pairing"`
	KeyType    string `json:"keyType"`
	Code       uint64 `json:"code"`
	WantReject bool   `json:"wantReject"`
}

func evalParse(c *ParseCase) (string, string) {
	p := wire.BaseProtocol()
	p.MultihashAlgorithms = []uint{18, 19}
	v := wire.Build(p, wire.Deps{})
	var err error
	pn := ev.Catch(func() { _, err = v.Parser.Parse("did:sidetree", c.Request) })
	if pn != "" {
		return "C12/parse-panic", pn
	}
	if c.WantReject && err == nil {
		return "C12/recommit-accepted", fmt.Sprintf("intake accepted a %s request with pairing %q (key type %s): %s", c.Type, c.Pairing, c.KeyType, string(c.Request))
	}
	if !c.WantReject && err != nil {
		return "C12/control-rejected", fmt.Sprintf("intake rejected the control %s request with distinct commitments (%s, %s): %v", c.Type, c.Pairing, c.KeyType, err)
	}
	return "", ""
}

func replayParse(raw json.RawMessage) (string, string) {
	var c ParseCase
	if err := json.Unmarshal(raw, &c); err != nil {
		return "bad-replay", err.Error()
	}
	return evalParse(&c)
}

// respell changes the unused trailing bits of the last base64url character (where the encoding has any) or else
// appends a line feed: the string still decodes to the same bytes.
func respell(mh string) string {
	const alphabet = "ABCDEFGHIJKLMNOPQRSTUVWXYZabcdefghijklmnopqrstuvwxyz0123456789-_"
	if len(mh)%4 != 0 {
		i := strings.IndexByte(alphabet, mh[len(mh)-1])
		return mh[:len(mh)-1] + string(alphabet[i^1])
	}
	return mh + "\n"
}

func TestIntakePairings(t *testing.T) {
	ev.Rule(chkParse, "exhaustive: for each of the 5 key types x request hash algorithm {sha2-256, sha2-512} (protocol enabling both) x type: update / recover with next commitment (for recover: next recovery commitment and, separately, next update commitment) in {commitment of the revealed key under sha2-256, under sha2-512, the same in another base64url spelling, commitment of another key}; create / recover with (update, recovery) commitments equal or different; optional nonce and kid; oracle: Parse rejects exactly the equal pairings and accepts the distinct controls; non-trivial = an equal pairing")
	item := 0
	for _, kt := range keys.AllTypes {
		for _, code := range []uint64{asm.SHA256, asm.SHA512} {
			for _, withNonce := range []bool{false, true} {
				k := func(i int) *keys.Key {
					kk := keys.Get(kt, "c12-parse", i)
					if withNonce {
						return kk.WithNonce(16, "c12")
					}
					return kk
				}
				cr := hist.NewCreate(hist.CreateSpec{Name: "C", Code: code, Recovery: k(0), Update: k(1), Markers: map[string]interface{}{"c": "1"}})
				s := cr.Suffix
				var cases []*ParseCase
				add := func(op *hist.Op, typ, pairing string, reject bool) {
					cases = append(cases, &ParseCase{Request: op.Request, Type: typ, Pairing: pairing, KeyType: kt.String(), Code: code, WantReject: reject})
				}
				mk := map[string]interface{}{"m": "1"}
				type pairing struct {
					name   string
					next   string
					reject bool
				}
				// update: next update commitment vs revealed update key
				for _, pr := range []pairing{
					{"next=commit256(revealed)", asm.Commit(k(1), asm.SHA256), true},
					{"next=commit512(revealed)", asm.Commit(k(1), asm.SHA512), true},
					{"next=commit(other)", asm.Commit(k(2), code), false},
					{"next=commit(revealed) in another base64url spelling", respell(asm.Commit(k(1), code)), true},
				} {
					add(hist.NewSigned(hist.SignedSpec{Name: "U", Type: "update", Suffix: s, Code: code, Reveal: k(1), Markers: mk, Opt: hist.Opt{NextUpdate: pr.next}}), "update", pr.name, pr.reject)
				}
				// recover: next recovery commitment vs revealed recovery key
				for _, pr := range []pairing{
					{"next-recovery=commit256(revealed)", asm.Commit(k(0), asm.SHA256), true},
					{"next-recovery=commit512(revealed)", asm.Commit(k(0), asm.SHA512), true},
					{"next-recovery=commit(other)", asm.Commit(k(2), code), false},
					{"next-recovery=commit(revealed) in another base64url spelling", respell(asm.Commit(k(0), code)), true},
				} {
					add(hist.NewSigned(hist.SignedSpec{Name: "R", Type: "recover", Suffix: s, Code: code, Reveal: k(0), NextUpd: k(3), Markers: mk, Opt: hist.Opt{NextRecovery: pr.next}}), "recover", pr.name, pr.reject)
				}
				// recover: next update commitment vs revealed recovery key
				for _, pr := range []pairing{
					{"next-update=commit256(revealed)", asm.Commit(k(0), asm.SHA256), true},
					{"next-update=commit512(revealed)", asm.Commit(k(0), asm.SHA512), true},
					{"next-update=commit(other)", asm.Commit(k(2), code), false},
				} {
					add(hist.NewSigned(hist.SignedSpec{Name: "R", Type: "recover", Suffix: s, Code: code, Reveal: k(0), NextRec: k(3), Markers: mk, Opt: hist.Opt{NextUpdate: pr.next}}), "recover", pr.name, pr.reject)
				}
				// recover / create: update commitment equal to recovery commitment
				same := asm.Commit(k(4), code)
				add(hist.NewSigned(hist.SignedSpec{Name: "R", Type: "recover", Suffix: s, Code: code, Reveal: k(0), Markers: mk, Opt: hist.Opt{NextUpdate: same, NextRecovery: same}}), "recover", "update==recovery", true)
				add(hist.NewSigned(hist.SignedSpec{Name: "R", Type: "recover", Suffix: s, Code: code, Reveal: k(0), NextUpd: k(4), NextRec: k(5), Markers: mk}), "recover", "update!=recovery", false)
				add(hist.NewCreate(hist.CreateSpec{Name: "C", Code: code, Recovery: k(4), Update: k(4), Markers: mk}), "create", "update==recovery", true)
				add(cr, "create", "update!=recovery", false)
				for _, c := range cases {
					item++
					if !ev.Mine(item) {
						continue
					}
					kind, msg := evalParse(c)
					ev.Record(chkParse, c.WantReject, ev.Hash(c.Type, c.Pairing, c.KeyType, c.Code, withNonce), "type:"+c.Type, "pairing:"+c.Pairing)
					ev.SampleFn(chkParse, func() interface{} {
						return map[string]interface{}{"type": c.Type, "pairing": c.Pairing, "keyType": c.KeyType, "hash": c.Code, "nonce": withNonce, "wantReject": c.WantReject}
					})
					if kind != "" {
						ev.Fail(t, chkParse, kind, c.Type+"/"+c.Pairing, c, "%s", msg)
					}
				}
			}
		}
	}
	ev.Exhaustive(chkParse)
}

// ---- cyclic histories -------------------------------------------------------------------------------

func evalCycle(c *hist.Case) (kind, sig, msg string) {
	pub, unpub := c.Stores()
	got := res.Resolve(c.Client(), c.Suffix, pub, unpub)
	if got.Panic != "" {
		if strings.Contains(got.Panic, "step bound") {
			return "C12/non-termination", "non-termination", fmt.Sprintf("Resolve did not terminate within %d Apply calls on a cyclic history", 4*len(c.Ops)+8)
		}
		return "C12/panic", "panic", got.Panic
	}
	if tw := res.ConsumedTwice(got); tw != "" {
		return "C12/commitment-revisited", "revisited", tw + "; applied=" + js(got.Applied)
	}
	m := c.Model()
	if v, _ := res.VsModel(got, m); len(v) > 0 {
		return "C12/cycle-model-mismatch", "model-mismatch", fmt.Sprintf("cyclic history resolves differently from the reference (chain must stop before the revisiting operation; earlier non-looping candidates win) on %v: implementation=%s reference=%s", v, js(got), js(m))
	}
	return "", "", ""
}

func replayCycle(raw json.RawMessage) (string, string) {
	var c hist.Case
	if err := json.Unmarshal(raw, &c); err != nil {
		return "bad-replay", err.Error()
	}
	k, _, m := evalCycle(&c)
	return k, m
}

func TestCyclicHistories(t *testing.T) {
	ev.Rule(chkCycles, "rapid: create + p in 0..3 plain steps, then a cycle of length 1..4 (self-loop: next commitment == consumed commitment; k-cycle: the closing operation re-commits to the commitment consumed k-1 steps earlier) in the update chain or in the recovery chain, optionally a valid non-looping competitor for the closing operation's commitment anchored before or after it, a continuation behind the competitor, one time in three a further operation revealing the closing operation's key that is anchored without its delta member (its next commitment cannot be read), and operations re-revealing the revisited key; one recovery-chain case in four closes with a recover that hands the commitment it consumes - or one consumed further back in the recovery chain - on as its next update commitment, followed by an update revealing that key; all key types, both hash algorithms, drawn coordinates and store order; oracle: terminates (step bound), no commitment consumed twice within a chain, state == reference model; non-trivial = the closing operation is validly signed (it would be applied if the rule were absent)")
	ev.Rapid(t, chkCycles, 500, 5000, func(t *rapid.T) {
		code := rapid.SampledFrom([]uint64{asm.SHA256, asm.SHA512}).Draw(t, "hash")
		nk := 0
		key := func() *keys.Key {
			nk++
			return keys.Get(rapid.SampledFrom(keys.AllTypes).Draw(t, "keyType"), "c12-cyc", nk)
		}
		inRecovery := rapid.Bool().Draw(t, "recoveryChain")
		r0, u0 := key(), key()
		cr := hist.NewCreate(hist.CreateSpec{Name: "create", Code: code, Recovery: r0, Update: u0, Markers: map[string]interface{}{"c": "0"}})
		s := cr.Suffix
		ops := []*hist.Op{cr}
		typ := "update"
		if inRecovery {
			typ = "recover"
		}
		mkOp := func(name string, reveal, next *keys.Key, nextCommit string) *hist.Op {
			spec := hist.SignedSpec{Name: name, Type: typ, Suffix: s, Code: code, Reveal: reveal, Markers: map[string]interface{}{name: "v"}}
			if inRecovery {
				spec.NextUpd = key()
				spec.NextRec = next
				spec.Opt.NextRecovery = nextCommit
			} else {
				spec.NextUpd = next
				spec.Opt.NextUpdate = nextCommit
			}
			return hist.NewSigned(spec)
		}
		cur := u0
		if inRecovery {
			cur = r0
		}
		var chainKeys []*keys.Key
		p := rapid.IntRange(0, 3).Draw(t, "plainSteps")
		for i := 0; i < p; i++ {
			n := key()
			ops = append(ops, mkOp(fmt.Sprintf("s%d", i+1), cur, n, ""))
			chainKeys = append(chainKeys, cur)
			cur = n
		}
		k := rapid.IntRange(1, 4).Draw(t, "cycleLen")
		cycStart := cur
		var cycKeys []*keys.Key
		for i := 0; i < k-1; i++ {
			n := key()
			ops = append(ops, mkOp(fmt.Sprintf("y%d", i+1), cur, n, ""))
			cycKeys = append(cycKeys, cur)
			cur = n
		}
		// closing operation: reveals cur, re-commits to the commitment of cycStart (k==1: its own)
		target := cycStart
		if rapid.IntRange(0, 3).Draw(t, "targetEarlier") == 0 && len(chainKeys) > 0 {
			target = rapid.SampledFrom(chainKeys).Draw(t, "earlierTarget")
		}
		closing := mkOp("closing-cyc", cur, nil, asm.Commit(target, code))
		closingForged := rapid.IntRange(0, 5).Draw(t, "closingForged") == 0
		if closingForged {
			spec := hist.SignedSpec{Name: "closing-cyc", Type: typ, Suffix: s, Code: code, Reveal: cur, Markers: map[string]interface{}{"closing": "v"},
				Opt: hist.Opt{Forge: hist.ForgeSigBitflip}}
			if inRecovery {
				spec.NextUpd = key()
				spec.Opt.NextRecovery = asm.Commit(target, code)
			} else {
				spec.Opt.NextUpdate = asm.Commit(target, code)
			}
			closing = hist.NewSigned(spec)
		}
		crossKey := cur
		crossChain := inRecovery && !closingForged && rapid.IntRange(0, 3).Draw(t, "crossChain") == 0
		if crossChain {
			// the closing recover names a fresh recovery commitment but hands the commitment it consumes on as the next
			// UPDATE commitment; an update revealing that very key follows
			closing = hist.NewSigned(hist.SignedSpec{Name: "closing-cyc", Type: "recover", Suffix: s, Code: code, Reveal: cur, NextRec: key(), Markers: map[string]interface{}{"closing": "v"},
				Opt: hist.Opt{NextUpdate: asm.Commit(cur, code)}})
			if len(chainKeys) > 0 && rapid.Bool().Draw(t, "crossChainEarlier") {
				// ... or a recovery commitment consumed further back in the chain (the update with that key follows below)
				cur2 := rapid.SampledFrom(chainKeys).Draw(t, "crossChainTarget")
				closing = hist.NewSigned(hist.SignedSpec{Name: "closing-cyc", Type: "recover", Suffix: s, Code: code, Reveal: cur, NextRec: key(), Markers: map[string]interface{}{"closing": "v"},
					Opt: hist.Opt{NextUpdate: asm.Commit(cur2, code)}})
				crossKey = cur2
			}
		}
		ops = append(ops, closing)
		closeIdx := len(ops) - 1
		if crossChain {
			ops = append(ops, hist.NewSigned(hist.SignedSpec{Name: "update-with-recovery-key", Type: "update", Suffix: s, Code: code, Reveal: crossKey, NextUpd: key(), Markers: map[string]interface{}{"twice": "v"}}))
		}
		compIdx := -1
		if rapid.Bool().Draw(t, "competitor") {
			n := key()
			ops = append(ops, mkOp("competitor", cur, n, ""))
			compIdx = len(ops) - 1
			if rapid.Bool().Draw(t, "continuation") {
				ops = append(ops, mkOp("after-competitor", n, key(), ""))
			}
		}
		if rapid.IntRange(0, 2).Draw(t, "siblingWithoutDelta") == 0 {
			// a further operation revealing the closing operation's key that is anchored without its delta member: batch
			// parsing accepts it, its next commitment cannot be read; whatever the library makes of it, the closing
			// operation next to it stays subject to the rule
			spec := hist.SignedSpec{Name: "sibling-without-delta", Type: typ, Suffix: s, Code: code, Reveal: cur, NextUpd: key(), Markers: map[string]interface{}{"sibling": "v"},
				Opt: hist.Opt{Delta: refmodel.DeltaMissing}}
			if inRecovery {
				spec.NextRec = key()
			}
			ops = append(ops, hist.NewSigned(spec))
		}
		if rapid.Bool().Draw(t, "reReveal") {
			// a second operation revealing the revisited key (would be applied again if the chain looped)
			ops = append(ops, mkOp("re-reveal", target, key(), ""))
		}
		// coordinates: chain order by default, closing vs competitor order drawn, numbers non-monotone
		h := make([]*hist.Anchored, len(ops))
		perm := gen.Perm(t, len(ops), "numPerm")
		for i, op := range ops {
			h[i] = op.At(uint64(10+i), uint64(perm[i]), fmt.Sprintf("ref-%d", i), 0)
		}
		if compIdx >= 0 && rapid.Bool().Draw(t, "competitorFirst") {
			a, b := h[closeIdx].Desc, h[compIdx].Desc
			h[closeIdx] = ops[closeIdx].At(b.Time, b.Num, a.Ref, 0)
			h[compIdx] = ops[compIdx].At(a.Time, a.Num, b.Ref, 0)
		}
		c := hist.NewCase(s, code, 0, h)
		c.StoreOrder = gen.Perm(t, len(ops), "storeOrder")
		kind, sig, msg := evalCycle(c)
		ev.Record(chkCycles, !closingForged, ev.Hash(js(c.Summary()), code), fmt.Sprintf("cycle-len:%d", k), fmt.Sprintf("chain:%s", typ), fmt.Sprintf("position:%d", p), fmt.Sprintf("competitor:%v", compIdx >= 0))
		ev.SampleFn(chkCycles, func() interface{} { return c.Summary() })
		if kind != "" {
			ev.Fail(t, chkCycles, kind, sig, c, "%s", msg)
		}
	})
	_ = refmodel.DeltaGood
}
