// Package ev is the evidence / verdict plumbing shared by all checks.
//
// A check package calls ev.Main(m, "Cxx") from TestMain. Each property function builds a concrete,
// JSON-serialisable case, evaluates the oracle on it and reports the outcome through Record / Fail.
// At process exit the statistics are written to $VERIF_OUT/stats-<shard>.json where the python driver
// (bin/check) merges them into /verif/evidence/Cxx.json.
package ev

import (
	"encoding/binary"
	"encoding/json"
	"flag"
	"fmt"
	"hash/fnv"
	"os"
	"path/filepath"
	"regexp"
	"sort"
	"strconv"
	"strings"
	"sync"
	"testing"

	"github.com/trustbloc/logutil-go/pkg/log"
	"pgregory.net/rapid"
)

// TB is the subset of testing.TB / *rapid.T that Fail needs.
type TB interface {
	Fatalf(format string, args ...interface{})
	Logf(format string, args ...interface{})
}

type checkStats struct {
	Evaluations int64            `json:"evaluations"`
	Nontrivial  int64            `json:"nontrivial"`
	Classes     map[string]int64 `json:"classes"`
	Samples     []interface{}    `json:"samples"`
	Rule        string           `json:"rule"`
	Exhaustive  bool             `json:"exhaustive,omitempty"`
	Excluded    int64            `json:"excluded_known,omitempty"`
	hashes      map[uint64]struct{}
	seen        int64
}

type violation struct {
	Check     string `json:"check"`
	Kind      string `json:"kind"`
	Signature string `json:"signature"`
	Replay    string `json:"replay"`
	Message   string `json:"message"`
	Known     bool   `json:"known"`
}

type knownFinding struct {
	Property  string `json:"property"`
	Kind      string `json:"kind"`
	Signature string `json:"signature"`
	What      string `json:"what"`
}

var (
	mu          sync.Mutex
	property    string
	stats       = map[string]*checkStats{}
	violations  = map[string]*violation{}
	assumptions []string
	known       []knownFinding
	knownHits   = map[string]int64{}
	replayers   = map[string]func(json.RawMessage) (string, string){}
)

const maxSamples = 6

// Main is called from TestMain.
func Main(m *testing.M, prop string) {
	property = prop
	log.SetDefaultLevel(log.PANIC)
	loadKnown()
	flag.Parse()
	code := m.Run()
	if err := writeStats(); err != nil {
		fmt.Fprintf(os.Stderr, "ev: cannot write stats: %v\n", err)
		if code == 0 {
			code = 3
		}
	}
	os.Exit(code)
}

// Property returns the property id of the running check binary.
func Property() string { return property }

// Tier returns "quick" or "thorough".
func Tier() string {
	if os.Getenv("VERIF_TIER") == "thorough" {
		return "thorough"
	}
	return "quick"
}

// Thorough reports whether the thorough tier is running.
func Thorough() bool { return Tier() == "thorough" }

// N picks a size by tier.
func N(quick, thorough int) int {
	if Thorough() {
		return thorough
	}
	return quick
}

// Seed returns VERIF_SEED (0 is remapped).
func Seed() uint64 {
	s, err := strconv.ParseUint(os.Getenv("VERIF_SEED"), 10, 64)
	if err != nil || s == 0 {
		s = 20260925
	}
	return s
}

// Shard returns this process's shard index and the shard count.
func Shard() (int, int) {
	n, _ := strconv.Atoi(os.Getenv("VERIF_SHARDS"))
	i, _ := strconv.Atoi(os.Getenv("VERIF_SHARD"))
	if n <= 0 {
		return 0, 1
	}
	return i % n, n
}

// Mine reports whether item i of an enumeration belongs to this shard.
func Mine(i int) bool {
	s, n := Shard()
	return i%n == s
}

// RapidSeed derives the rapid PRNG seed for this shard (never 0).
func RapidSeed(salt string) uint64 {
	s, _ := Shard()
	h := fnv.New64a()
	_, _ = h.Write([]byte(salt))
	v := Seed()*1000003 + uint64(s)*7919 + h.Sum64()%100000
	if v == 0 {
		v = 1
	}
	return v
}

// Rapid runs prop under rapid with the tier's number of cases and a seed derived from VERIF_SEED.
func Rapid(t *testing.T, check string, quick, thorough int, prop func(*rapid.T)) {
	t.Helper()
	n := N(quick, thorough)
	if v := os.Getenv("VERIF_CHECKS_SCALE"); v != "" {
		if f, err := strconv.ParseFloat(v, 64); err == nil && f > 0 {
			n = int(float64(n)*f) + 1
		}
	}
	_ = flag.Set("rapid.checks", strconv.Itoa(n))
	_ = flag.Set("rapid.seed", strconv.FormatUint(RapidSeed(check), 10))
	_ = flag.Set("rapid.nofailfile", "true")
	_ = os.RemoveAll(filepath.Join("testdata", "rapid"))
	rapid.Check(t, prop)
}

// Rule records the generation / non-triviality rule of a check (goes into the evidence file).
func Rule(check, text string) {
	mu.Lock()
	defer mu.Unlock()
	get(check).Rule = text
}

// Exhaustive marks a check as having enumerated its finite space completely.
func Exhaustive(check string) {
	mu.Lock()
	defer mu.Unlock()
	get(check).Exhaustive = true
}

// Assume records an assumption / trusted-base statement.
func Assume(text string) {
	mu.Lock()
	defer mu.Unlock()
	for _, a := range assumptions {
		if a == text {
			return
		}
	}
	assumptions = append(assumptions, text)
}

func get(check string) *checkStats {
	s, ok := stats[check]
	if !ok {
		s = &checkStats{Classes: map[string]int64{}, hashes: map[uint64]struct{}{}}
		stats[check] = s
	}
	return s
}

// Hash hashes arbitrary parts into the 64-bit case identity used for the distinct count.
func Hash(parts ...interface{}) uint64 {
	h := fnv.New64a()
	for _, p := range parts {
		switch v := p.(type) {
		case string:
			_, _ = h.Write([]byte(v))
		case []byte:
			_, _ = h.Write(v)
		default:
			b, _ := json.Marshal(v)
			_, _ = h.Write(b)
		}
		_, _ = h.Write([]byte{0xff})
	}
	return h.Sum64()
}

// Record counts one evaluated case. id is the case identity (see Hash); classes are histogram labels.
func Record(check string, nontrivial bool, id uint64, classes ...string) {
	mu.Lock()
	defer mu.Unlock()
	s := get(check)
	s.Evaluations++
	if nontrivial {
		s.Nontrivial++
		s.hashes[id] = struct{}{}
	}
	for _, c := range classes {
		if c != "" {
			s.Classes[c]++
		}
	}
}

// Class adds n to a histogram label of a check without counting an evaluation (advisory counters).
func Class(check, label string, n int64) {
	mu.Lock()
	defer mu.Unlock()
	get(check).Classes[label] += n
}

// Sample offers a case for the evidence file's sample list (first few and then sparse ones are kept).
func Sample(check string, v interface{}) {
	mu.Lock()
	defer mu.Unlock()
	s := get(check)
	s.seen++
	if len(s.Samples) < maxSamples/2 {
		s.Samples = append(s.Samples, v)
		return
	}
	// keep sparse later samples: positions 64, 512, 4096 ...
	if len(s.Samples) < maxSamples && (s.seen == 64 || s.seen == 512 || s.seen == 4096) {
		s.Samples = append(s.Samples, v)
	}
}

// SampleFn is Sample with lazy construction of the sample value.
func SampleFn(check string, fn func() interface{}) {
	if WantSample(check) {
		Sample(check, fn())
		return
	}
	mu.Lock()
	get(check).seen++
	mu.Unlock()
}

// WantSample tells whether the next Sample call would keep its argument (to avoid building it).
func WantSample(check string) bool {
	mu.Lock()
	defer mu.Unlock()
	s := get(check)
	n := s.seen + 1
	return len(s.Samples) < maxSamples/2 || (len(s.Samples) < maxSamples && (n == 64 || n == 512 || n == 4096))
}

var unsafeName = regexp.MustCompile(`[^A-Za-z0-9_.-]+`)

func replayDir() string {
	d := os.Getenv("VERIF_REPLAY_DIR")
	if d == "" {
		d = filepath.Join(os.TempDir(), "verif-replays", property)
	}
	return d
}

// ReplayFile is the on-disk format of a replay.
type ReplayFile struct {
	Property  string          `json:"property"`
	Check     string          `json:"check"`
	Kind      string          `json:"kind"`
	Signature string          `json:"signature,omitempty"`
	Message   string          `json:"message"`
	Tier      string          `json:"tier"`
	Seed      uint64          `json:"seed"`
	Case      json.RawMessage `json:"case"`
	// Reproduce: the run that produced the file (a pure function of seed, tier and shard). Checks keep long-lived
	// library objects across cases; a failure caused by state left behind by earlier cases reproduces with this
	// command even where re-evaluating the stored case alone does not.
	Reproduce string `json:"reproduce,omitempty"`
}

// IsKnown reports whether (kind, signature) is listed as an open known finding.
func IsKnown(kind, signature string) bool {
	for _, k := range known {
		if k.Property == property && k.Kind == kind && (k.Signature == signature || k.Signature == "*") {
			return true
		}
	}
	return false
}

// Fail reports a violation of the property on a concrete case: it writes the replay file and fails the
// test (rapid then shrinks; the last failing run leaves the minimal case on disk). A failure matching an
// open entry of known-findings.json is counted and does not fail the test; it returns true in that case.
func Fail(t TB, check, kind, signature string, c interface{}, format string, args ...interface{}) bool {
	msg := fmt.Sprintf(format, args...)
	if IsKnown(kind, signature) {
		mu.Lock()
		knownHits[kind+"|"+signature]++
		get(check).Excluded++
		mu.Unlock()
		return true
	}
	raw, err := json.Marshal(c)
	if err != nil {
		raw, _ = json.Marshal(fmt.Sprintf("unserialisable case: %v", err))
	}
	sh, _ := Shard()
	name := unsafeName.ReplaceAllString(fmt.Sprintf("%s-%s-%s-s%d-sh%d", check, kind, Tier(), Seed(), sh), "_") + ".json"
	dir := replayDir()
	_ = os.MkdirAll(dir, 0o755)
	path := filepath.Join(dir, name)
	_, nsh := Shard()
	rf := ReplayFile{Property: property, Check: check, Kind: kind, Signature: signature, Message: msg, Tier: Tier(), Seed: Seed(), Case: raw,
		Reproduce: fmt.Sprintf("VERIF_SEED=%d bin/check %s --tier %s --shards %d   # shard %d reported it", Seed(), property, Tier(), nsh, sh)}
	b, _ := json.MarshalIndent(rf, "", " ")
	_ = os.WriteFile(path, b, 0o644)
	mu.Lock()
	violations[check+"|"+kind] = &violation{Check: check, Kind: kind, Signature: signature, Replay: path, Message: msg}
	mu.Unlock()
	t.Fatalf("VERIF-FAIL property=%s check=%s kind=%s: %s (replay %s)", property, check, kind, msg, path)
	return false
}

// Inflight journals the case about to be evaluated: if the process dies (fatal stack overflow, runtime
// throw) or hangs while evaluating it, the file is left behind and the driver re-runs it in a fresh process;
// a reproducible death or hang is reported as a violation of kind <kindPrefix>/fatal-crash. Done removes it.
func Inflight(check, kindPrefix string, c interface{}) (done func()) {
	raw, err := json.Marshal(c)
	if err != nil {
		return func() {}
	}
	sh, _ := Shard()
	dir := replayDir()
	_ = os.MkdirAll(dir, 0o755)
	path := filepath.Join(dir, unsafeName.ReplaceAllString(fmt.Sprintf("inflight-%s-%s-s%d-sh%d-p%d", check, Tier(), Seed(), sh, os.Getpid()), "_")+".json")
	rf := ReplayFile{Property: property, Check: check, Kind: kindPrefix + "/fatal-crash", Signature: "fatal-crash", Message: "the process died or hung while evaluating this case", Tier: Tier(), Seed: Seed(), Case: raw}
	b, _ := json.Marshal(rf)
	_ = os.WriteFile(path, b, 0o644)
	return func() { _ = os.Remove(path) }
}

// RegisterReplay registers the oracle re-evaluation of a check on a stored case. fn returns
// (kind, message) of the violation, or ("", "") when the property holds on that case.
func RegisterReplay(check string, fn func(raw json.RawMessage) (string, string)) {
	mu.Lock()
	defer mu.Unlock()
	replayers[check] = fn
}

// RunReplay re-evaluates one replay file; used by every package's TestReplay.
func RunReplay(t *testing.T, path string) {
	b, err := os.ReadFile(path)
	if err != nil {
		t.Fatalf("replay: %v", err)
	}
	var rf ReplayFile
	if err := json.Unmarshal(b, &rf); err != nil {
		t.Fatalf("replay: bad file %s: %v", path, err)
	}
	mu.Lock()
	fn := replayers[rf.Check]
	mu.Unlock()
	if fn == nil {
		t.Fatalf("replay: no replayer registered for check %q", rf.Check)
	}
	kind, msg := fn(rf.Case)
	Record("replay", true, Hash(path), "replay:"+rf.Check)
	if kind != "" {
		sig := rf.Signature
		if IsKnown(kind, sig) {
			mu.Lock()
			knownHits[kind+"|"+sig]++
			mu.Unlock()
			return
		}
		mu.Lock()
		violations["replay|"+path] = &violation{Check: rf.Check, Kind: kind, Signature: sig, Replay: path, Message: msg}
		mu.Unlock()
		t.Errorf("VERIF-FAIL property=%s check=%s kind=%s: %s (replay %s)", property, rf.Check, kind, msg, path)
	}
}

// ReplayMain implements TestReplay: $VERIF_REPLAY if set, otherwise every file in testdata/regress.
func ReplayMain(t *testing.T) {
	Rule("replay", "stored shrunk cases (testdata/regress, or the file given with --replay) re-evaluated by the oracle without any generator")
	if p := os.Getenv("VERIF_REPLAY"); p != "" {
		RunReplay(t, p)
		return
	}
	files, _ := filepath.Glob(filepath.Join("testdata", "regress", "*.json"))
	sort.Strings(files)
	for _, f := range files {
		abs, _ := filepath.Abs(f)
		RunReplay(t, abs)
	}
}

func loadKnown() {
	p := os.Getenv("VERIF_KNOWN_FINDINGS")
	if p == "" {
		p = "/verif/known-findings.json"
	}
	b, err := os.ReadFile(p)
	if err != nil {
		return
	}
	var f struct {
		Open []knownFinding `json:"open"`
	}
	if json.Unmarshal(b, &f) == nil {
		known = f.Open
	}
}

func writeStats() error {
	mu.Lock()
	defer mu.Unlock()
	dir := os.Getenv("VERIF_OUT")
	if dir == "" {
		return nil
	}
	if err := os.MkdirAll(dir, 0o755); err != nil {
		return err
	}
	sh, n := Shard()
	tag := os.Getenv("VERIF_STAGE")
	if tag == "" {
		tag = "main"
	}
	base := fmt.Sprintf("%s-%d", unsafeName.ReplaceAllString(tag, "_"), sh)
	type out struct {
		Property    string                 `json:"property"`
		Tier        string                 `json:"tier"`
		Seed        uint64                 `json:"seed"`
		Shard       int                    `json:"shard"`
		Shards      int                    `json:"shards"`
		Checks      map[string]*checkStats `json:"checks"`
		Violations  []*violation           `json:"violations"`
		KnownHits   map[string]int64       `json:"known_hits"`
		Assumptions []string               `json:"assumptions"`
		HashFiles   map[string]string      `json:"hash_files"`
	}
	o := out{Property: property, Tier: Tier(), Seed: Seed(), Shard: sh, Shards: n, Checks: stats, KnownHits: knownHits, Assumptions: assumptions, HashFiles: map[string]string{}}
	for _, v := range violations {
		o.Violations = append(o.Violations, v)
	}
	sort.Slice(o.Violations, func(i, j int) bool { return o.Violations[i].Replay < o.Violations[j].Replay })
	for name, s := range stats {
		if len(s.hashes) == 0 {
			continue
		}
		buf := make([]byte, 0, 8*len(s.hashes))
		for h := range s.hashes {
			buf = binary.LittleEndian.AppendUint64(buf, h)
		}
		hp := filepath.Join(dir, fmt.Sprintf("hashes-%s-%s.bin", base, unsafeName.ReplaceAllString(name, "_")))
		if err := os.WriteFile(hp, buf, 0o644); err != nil {
			return err
		}
		o.HashFiles[name] = hp
	}
	b, err := json.Marshal(o)
	if err != nil {
		// a sample was not serialisable: drop samples rather than lose the statistics
		for _, s := range stats {
			s.Samples = []interface{}{fmt.Sprintf("samples dropped: %v", err)}
		}
		if b, err = json.Marshal(o); err != nil {
			return err
		}
	}
	return os.WriteFile(filepath.Join(dir, "stats-"+base+".json"), b, 0o644)
}

// Trunc shortens long strings for samples.
func Trunc(s string, n int) string {
	if len(s) <= n {
		return s
	}
	return s[:n] + fmt.Sprintf("...(%d bytes)", len(s))
}

// Join is a small helper for class labels.
func Join(parts ...string) string { return strings.Join(parts, ":") }

// Catch runs fn and converts a panic into a returned description (empty when fn returned normally).
func Catch(fn func()) (panicked string) {
	defer func() {
		if r := recover(); r != nil {
			panicked = fmt.Sprintf("panic: %v", r)
		}
	}()
	fn()
	return ""
}
