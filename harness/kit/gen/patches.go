package gen

import (
	"encoding/base64"
	"fmt"
	"sync"

	"pgregory.net/rapid"

	"verifharness/kit/keys"
	"verifharness/kit/refdoc"
)

var (
	oddMu   sync.Mutex
	oddKeys []*keys.Key
)

// OddEd25519 returns Ed25519 keys whose raw bytes or base58 spelling are unusual: first byte 0x00 (base58 starts
// with '1'), first byte 0xff, last byte 0x00, and a base58 spelling that starts with 'z' (43 characters, about one
// key in a thousand) - the shapes that expose re-encoding slips. Found by scanning a deterministic pool once.
func OddEd25519() []*keys.Key {
	oddMu.Lock()
	defer oddMu.Unlock()
	if oddKeys != nil {
		return oddKeys
	}
	preds := []func(x []byte, b58 string) bool{
		func(x []byte, _ string) bool { return x[0] == 0 },
		func(x []byte, _ string) bool { return x[0] == 0xff },
		func(x []byte, _ string) bool { return x[31] == 0 },
		func(_ []byte, b string) bool { return b[0] == 'z' },
		func(_ []byte, b string) bool { return len(b) < 44 },
	}
	found := make([]int, len(preds))
	for i := 1; i <= 20000; i++ {
		k := keys.Get(keys.Ed25519, "dockey-odd", i)
		x, _ := k.XY()
		b := refdoc.Base58(x)
		keep := false
		for j, p := range preds {
			if found[j] < 2 && p(x, b) {
				found[j]++
				keep = true
			}
		}
		if keep {
			oddKeys = append(oddKeys, k)
		}
		done := true
		for _, f := range found {
			if f < 2 {
				done = false
			}
		}
		if done {
			break
		}
	}
	return oddKeys
}

// Key types and purposes of document public keys.
var (
	VerificationKeyTypes = []string{"Bls12381G2Key2020", "JsonWebKey2020", "EcdsaSecp256k1VerificationKey2019", "Ed25519VerificationKey2018", "Ed25519VerificationKey2020"}
	AgreementKeyTypes    = []string{"Bls12381G2Key2020", "JsonWebKey2020", "EcdsaSecp256k1VerificationKey2019", "X25519KeyAgreementKey2019"}
	AllDocKeyTypes       = []string{"Bls12381G2Key2020", "JsonWebKey2020", "EcdsaSecp256k1VerificationKey2019", "Ed25519VerificationKey2018", "Ed25519VerificationKey2020", "X25519KeyAgreementKey2019"}
	AllPurposes          = []string{"authentication", "assertionMethod", "keyAgreement", "capabilityDelegation", "capabilityInvocation"}
)

// JSONPatchValues are the values of generated JSON-patch add operations; they include pairs that differ as JSON but
// look alike when printed with Go's %v ("7" / 7, "true" / true, ["x","y"] / "[x y]", {"a":"b"} / "map[a:b]").
var JSONPatchValues = []interface{}{"v1", "v2", float64(7), "7", true, "true", map[string]interface{}{"a": "b"}, "map[a:b]", []interface{}{"x", "y"}, "[x y]",
	[]interface{}{float64(7)}, []interface{}{"7"}, float64(0), "", "0", false, "false"}

// IDAlphabet is a small id alphabet so that add-existing / remove-absent are frequent. "k12" has "k1" as a prefix,
// and "s1" / "k1" occur in both alphabets: a key and a service may carry the same id (nothing in the protocol forbids
// it), which ids drawn from disjoint alphabets never do (seeding round k).
var IDAlphabet = []string{"k1", "k2", "k3", "key-4", "K_5", "k12", "s1"}

// SvcIDAlphabet is the service id alphabet (shares "k1" and "s1" with IDAlphabet; "s12" has "s1" as a prefix).
var SvcIDAlphabet = []string{"s1", "s2", "s3", "svc-4", "S_5", "s12", "k1"}

// URIAlphabet is the alsoKnownAs alphabet.
var URIAlphabet = []string{"https://a.example/1", "https://b.example/2", "did:example:123", "urn:uuid:0", "https://c.example/x?y=1#z"}

func contains(l []string, s string) bool {
	for _, x := range l {
		if x == s {
			return true
		}
	}
	return false
}

// allowedFor reports whether key type typ may carry purpose p.
func allowedFor(typ, p string) bool {
	if p == "keyAgreement" {
		return contains(AgreementKeyTypes, typ)
	}
	return contains(VerificationKeyTypes, typ)
}

// DocKey draws a document public key entry that satisfies every validator rule.
func DocKey(t *rapid.T, id string) map[string]interface{} {
	typ := rapid.SampledFrom(AllDocKeyTypes).Draw(t, "docKeyType")
	k := map[string]interface{}{"id": id, "type": typ}
	// purposes: a subset compatible with the type (possibly absent)
	if rapid.IntRange(0, 4).Draw(t, "hasPurposes") > 0 {
		var ps []interface{}
		for _, p := range AllPurposes {
			if allowedFor(typ, p) && rapid.IntRange(0, 2).Draw(t, "purpose") == 0 {
				ps = append(ps, p)
			}
		}
		if len(ps) == 0 {
			for _, p := range AllPurposes {
				if allowedFor(typ, p) {
					ps = append(ps, p)
					break
				}
			}
		}
		k["purposes"] = ps
	}
	// material
	idx := rapid.IntRange(1, 9).Draw(t, "docKeyIndex")
	switch typ {
	case "Ed25519VerificationKey2018", "Ed25519VerificationKey2020":
		k["publicKeyJwk"] = keys.Get(keys.Ed25519, "dockey", idx).JWKMap()
		if odd := OddEd25519(); len(odd) > 0 && rapid.IntRange(0, 2).Draw(t, "oddEd25519") == 0 {
			k["publicKeyJwk"] = rapid.SampledFrom(odd).Draw(t, "oddKey").JWKMap()
		}
	case "EcdsaSecp256k1VerificationKey2019":
		k["publicKeyJwk"] = keys.Get(keys.Secp256k1, "dockey", idx).JWKMap()
	case "JsonWebKey2020":
		kt := rapid.SampledFrom([]keys.Type{keys.P256, keys.P384, keys.Ed25519, keys.Secp256k1}).Draw(t, "jwkKeyType")
		k["publicKeyJwk"] = keys.Get(kt, "dockey", idx).JWKMap()
	default:
		if rapid.Bool().Draw(t, "base58Material") {
			k["publicKeyBase58"] = "GY4GunSXBPBfhLCzDL7iGmP5dR3sBDCJZkkaGK8VgYQf"
		} else {
			k["publicKeyJwk"] = map[string]interface{}{"kty": "OKP", "crv": "X25519", "x": base64.RawURLEncoding.EncodeToString([]byte(fmt.Sprintf("%032d", idx)))}
		}
	}
	return k
}

// EndpointURIs are valid URIs (RFC 3986) for service endpoints: the plain ones, and ones that a parser made for
// something else than URIs trips over (a fragment or a port directly behind the authority, a percent-encoded octet in
// the host name, an IP literal, user information, an empty or a rootless path, '?' and '/' in query and fragment).
var EndpointURIs = append(append([]string{}, URIAlphabet...),
	"https://example.com#hub", "https://example.com:443#hub", "https://ex%61mple.com/hub", "http://[2001:db8::7]:8080/p", "x:", "mailto:a@b.example",
	"https://u:p@host.example/?q=/?#/?", "http://192.168.0.1/", "tel:+1-816-555-1212", "urn:example:a:b", "https://example.com:/", "http://[v1.fe:x]/")

// DocService draws a service entry that satisfies every validator rule.
func DocService(t *rapid.T, id string) map[string]interface{} {
	s := map[string]interface{}{"id": id, "type": rapid.SampledFrom([]string{"LinkedDomains", "DIDCommMessaging", "x", "TypeOfExactlyThirtyCharacters0"}).Draw(t, "svcType")}
	switch rapid.IntRange(0, 3).Draw(t, "endpointShape") {
	case 0:
		s["serviceEndpoint"] = rapid.SampledFrom(EndpointURIs).Draw(t, "endpoint")
	case 1:
		s["serviceEndpoint"] = []interface{}{rapid.SampledFrom(EndpointURIs).Draw(t, "endpoint"), rapid.SampledFrom(EndpointURIs).Draw(t, "endpoint2")}
	case 2:
		s["serviceEndpoint"] = map[string]interface{}{"uri": rapid.SampledFrom(EndpointURIs).Draw(t, "endpoint"), "routingKeys": []interface{}{"did:example:r#1"}}
	default:
		s["serviceEndpoint"] = []interface{}{map[string]interface{}{"uri": rapid.SampledFrom(EndpointURIs).Draw(t, "endpoint")}}
	}
	if rapid.IntRange(0, 3).Draw(t, "svcExtra") == 0 {
		s["priority"] = float64(rapid.IntRange(0, 9).Draw(t, "priority"))
		s["recipientKeys"] = []interface{}{"did:example:k#1"}
	}
	return s
}

// distinct draws 1..max distinct elements of alphabet (ids unique within a patch, as validation guarantees).
func distinct(t *rapid.T, alphabet []string, max int, label string) []string {
	n := rapid.IntRange(1, max).Draw(t, label+"Count")
	perm := Perm(t, len(alphabet), label+"Perm")
	var out []string
	for i := 0; i < n && i < len(alphabet); i++ {
		out = append(out, alphabet[perm[i]])
	}
	return out
}

// PatchOpts restricts the drawn actions.
type PatchOpts struct {
	Actions []string // nil = all eight
	NoJSON  bool
	NoBulk  bool // never start the list with a bulk patch (8-12 entries)
}

// ValidPatch draws one patch that passes validation.
func ValidPatch(t *rapid.T, o PatchOpts) map[string]interface{} {
	actions := o.Actions
	if actions == nil {
		actions = []string{"add-public-keys", "remove-public-keys", "add-services", "remove-services", "add-also-known-as", "remove-also-known-as", "ietf-json-patch", "replace"}
	}
	a := rapid.SampledFrom(actions).Draw(t, "action")
	switch a {
	case "add-public-keys":
		var ks []interface{}
		for _, id := range distinct(t, IDAlphabet, 3, "keyIds") {
			ks = append(ks, DocKey(t, id))
		}
		return map[string]interface{}{"action": a, "publicKeys": ks}
	case "remove-public-keys":
		return map[string]interface{}{"action": a, "ids": strs(distinct(t, IDAlphabet, 3, "rmKeyIds"))}
	case "add-services":
		var ss []interface{}
		for _, id := range distinct(t, SvcIDAlphabet, 3, "svcIds") {
			ss = append(ss, DocService(t, id))
		}
		return map[string]interface{}{"action": a, "services": ss}
	case "remove-services":
		return map[string]interface{}{"action": a, "ids": strs(distinct(t, SvcIDAlphabet, 3, "rmSvcIds"))}
	case "add-also-known-as", "remove-also-known-as":
		return map[string]interface{}{"action": a, "uris": strs(distinct(t, URIAlphabet, 3, "uris"))}
	case "replace":
		doc := map[string]interface{}{}
		if rapid.Bool().Draw(t, "replaceKeys") {
			var ks []interface{}
			for _, id := range distinct(t, IDAlphabet, 3, "keyIds") {
				ks = append(ks, DocKey(t, id))
			}
			doc["publicKeys"] = ks
		}
		if rapid.Bool().Draw(t, "replaceServices") {
			var ss []interface{}
			for _, id := range distinct(t, SvcIDAlphabet, 2, "svcIds") {
				ss = append(ss, DocService(t, id))
			}
			doc["services"] = ss
		}
		return map[string]interface{}{"action": a, "document": doc}
	default:
		n := rapid.IntRange(1, 3).Draw(t, "jsonOps")
		var ops []interface{}
		for i := 0; i < n; i++ {
			name := rapid.SampledFrom([]string{"m1", "m2", "nested", "label"}).Draw(t, "member")
			ops = append(ops, map[string]interface{}{"op": "add", "path": "/" + name, "value": rapid.SampledFrom(JSONPatchValues).Draw(t, "value")})
		}
		return map[string]interface{}{"action": a, "patches": ops}
	}
}

func strs(l []string) []interface{} {
	out := make([]interface{}, len(l))
	for i, s := range l {
		out[i] = s
	}
	return out
}

// ValidPatches draws a list of 1..max valid patches.
func ValidPatches(t *rapid.T, max int, o PatchOpts) []interface{} {
	n := rapid.IntRange(1, max).Draw(t, "numPatches")
	var out []interface{}
	for i := 0; i < n; i++ {
		out = append(out, ValidPatch(t, o))
	}
	// one list in ten starts with a bulk patch: 8-12 keys or services in one entry list (ids b1.., disjoint from
	// the small alphabets), so that documents and lists well beyond hand-written sizes occur
	allowed := func(a string) bool {
		if o.Actions == nil {
			return true
		}
		for _, x := range o.Actions {
			if x == a {
				return true
			}
		}
		return false
	}
	if !o.NoBulk && rapid.IntRange(0, 9).Draw(t, "bulkPatch") == 0 {
		m := rapid.IntRange(8, 12).Draw(t, "bulkEntries")
		var l []interface{}
		if rapid.Bool().Draw(t, "bulkServices") && allowed("add-services") {
			for i := 0; i < m; i++ {
				l = append(l, DocService(t, fmt.Sprintf("bs%d", i+1)))
			}
			out[0] = map[string]interface{}{"action": "add-services", "services": l}
		} else if allowed("add-public-keys") {
			for i := 0; i < m; i++ {
				l = append(l, DocKey(t, fmt.Sprintf("b%d", i+1)))
			}
			out[0] = map[string]interface{}{"action": "add-public-keys", "publicKeys": l}
		}
	}
	return out
}

// AwkwardNames are document member names that are legal JSON strings, need no JSON-pointer escaping (no '~', no '/')
// and are yet easy to mishandle when a name is pasted into JSON text or compared by prefix.
var AwkwardNames = []string{"a b", "a\"b", "a\\b", "a\\tb", "a\\u0041b", "line\nfeed", "tab\there", "\u00e9t\u00e9", "\U0001f600", "%s", "%d%%", "", "0", "-", "copy-intermediate",
	"serviceProvider", "services", "service2", "publicKeyHistory", "publicKeys", "Service", "x\",\"path\":\"\\u002fservice\",\"z\":\"", "{}", "[0]", "null"}

// PointerNames need JSON-pointer escaping (RFC 6901) when they become a pointer token.
var PointerNames = []string{"a/b", "https://schema.org/name", "a~b", "a~1b", "~0", "/", "~", "m/service", "/service"}
