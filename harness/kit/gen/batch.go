package gen

import (
	"fmt"

	"pgregory.net/rapid"

	"verifharness/kit/asm"
	"verifharness/kit/keys"
)

// QOp is one queued operation of a generated batch together with what the oracle needs to know about it.
type QOp struct {
	Type      string      `json:"type"`
	Suffix    string      `json:"suffix"`
	Request   []byte      `json:"request"`
	QueuedAO  interface{} `json:"queuedAnchorOrigin,omitempty"`  // anchor origin carried by the queue entry (update / deactivate)
	ReqOrigin interface{} `json:"requestAnchorOrigin,omitempty"` // anchor origin embedded in the request (create / recover)
	Expired   bool        `json:"expired,omitempty"`             // the intake time validator reports this one as expired
	DID       int         `json:"did"`
}

// ExpiredUntil is the anchorUntil value that the harness's time validator treats as expired.
const ExpiredUntil = 4242

// DIDPool builds valid requests of all four types for DID number i (fresh keys, drawn key type and content).
type DIDPool struct {
	Index  int
	Suffix string
	Code   uint64
	rec    *keys.Key
	upd    *keys.Key
	origin interface{}
	n      int
}

// NewDIDPool draws a DID.
func NewDIDPool(t *rapid.T, code uint64, i int, pool string) (*DIDPool, QOp) {
	return newDIDPool(t, code, i, pool, nil)
}

// newDIDPool: template != nil makes the DID's initial patches that shared template (many DIDs with one document).
func newDIDPool(t *rapid.T, code uint64, i int, pool string, template []interface{}) (*DIDPool, QOp) {
	kt := rapid.SampledFrom(keys.AllTypes).Draw(t, "keyType")
	p := &DIDPool{Index: i, Code: code, rec: keys.Get(kt, pool, 10*i), upd: keys.Get(kt, pool, 10*i+1)}
	p.origin = rapid.SampledFrom([]interface{}{nil, "origin-a", map[string]interface{}{"o": "b"}, []interface{}{"x", "y"}}).Draw(t, "anchorOrigin")
	patches := template
	if patches == nil {
		patches = ValidPatches(t, 2, PatchOpts{})
	}
	c := &asm.Create{Code: code, RecoveryCommit: asm.Commit(p.rec, code), Delta: asm.Delta(asm.Commit(p.upd, code), patches), AnchorOrigin: p.origin,
		DIDType: rapid.SampledFrom([]string{"", "", "", "0001", "z"}).Draw(t, "didType")} // the optional suffix-data type member
	p.Suffix = c.Suffix()
	return p, QOp{Type: "create", Suffix: p.Suffix, Request: c.Bytes(), ReqOrigin: p.origin, DID: i}
}

// Op draws a further operation for the DID. expired makes the request carry the expired window.
func (p *DIDPool) Op(t *rapid.T, typ string, expired bool) QOp {
	p.n++
	kt := p.upd.Type
	next := keys.Get(kt, fmt.Sprintf("pool%d", p.Index), 100+p.n)
	s := &asm.Signed{Type: typ, Suffix: p.Suffix, Code: p.Code}
	if expired {
		s.From, s.Until = 1, ExpiredUntil
	} else if rapid.IntRange(0, 3).Draw(t, "window") == 0 {
		s.From, s.Until = 1, 999999
	}
	q := QOp{Type: typ, Suffix: p.Suffix, Expired: expired, DID: p.Index}
	switch typ {
	case "update":
		s.RevealKey = p.upd
		s.Delta = asm.Delta(asm.Commit(next, p.Code), ValidPatches(t, 2, PatchOpts{Actions: []string{"add-public-keys", "remove-public-keys", "add-services", "remove-services", "add-also-known-as", "remove-also-known-as", "ietf-json-patch"}}))
		q.QueuedAO = p.origin
	case "recover":
		s.RevealKey = p.rec
		s.Delta = asm.Delta(asm.Commit(next, p.Code), ValidPatches(t, 2, PatchOpts{}))
		s.NextRecoveryCommit = asm.Commit(keys.Get(kt, fmt.Sprintf("pool%d", p.Index), 200+p.n), p.Code)
		s.AnchorOrigin = rapid.SampledFrom([]interface{}{nil, "origin-r", map[string]interface{}{"r": float64(1)}}).Draw(t, "recoverOrigin")
		q.ReqOrigin = s.AnchorOrigin
	default:
		s.RevealKey = p.rec
		q.QueuedAO = p.origin
	}
	q.Request = s.Bytes()
	return q
}

// Batch draws a batch of 1..max queued operations over 1..6 DIDs - or, one time in four, over up to max DIDs
// ("wide": many distinct suffixes, so that the files themselves carry many operations), half of the wide ones
// with one shared document template (highly compressible files): any mix and order of the four types,
// repeated suffixes, single-type batches, expired operations.
func Batch(t *rapid.T, code uint64, max int, allowExpired bool, pool string) []QOp {
	nd := rapid.IntRange(1, 6).Draw(t, "dids")
	var template []interface{}
	wide := max > 6 && rapid.IntRange(0, 3).Draw(t, "wide") == 0
	if wide {
		nd = rapid.IntRange(7, max).Draw(t, "wideDids")
		if rapid.Bool().Draw(t, "template") {
			template = ValidPatches(t, 3, PatchOpts{})
		}
	}
	var pools []*DIDPool
	var creates []QOp
	for i := 0; i < nd; i++ {
		p, c := newDIDPool(t, code, i, pool, template)
		pools = append(pools, p)
		creates = append(creates, c)
	}
	shape := rapid.SampledFrom([]string{"mixed", "mixed", "mixed", "deactivate-only", "update-only", "create-only", "single", "repeated-suffix"}).Draw(t, "batchShape")
	n := rapid.IntRange(1, max).Draw(t, "batchSize")
	if wide {
		n = rapid.IntRange(nd, max).Draw(t, "wideBatchSize")
	}
	if shape == "single" {
		n = 1
	}
	var out []QOp
	usedCreate := map[int]bool{}
	for len(out) < n {
		di := rapid.IntRange(0, nd-1).Draw(t, "did")
		if shape == "repeated-suffix" && rapid.IntRange(0, 2).Draw(t, "sameDid") > 0 {
			di = 0
		}
		var typ string
		switch shape {
		case "deactivate-only":
			typ = "deactivate"
		case "update-only":
			typ = "update"
		case "create-only":
			typ = "create"
		default:
			typ = rapid.SampledFrom([]string{"create", "update", "update", "recover", "deactivate"}).Draw(t, "type")
		}
		if typ == "create" {
			if usedCreate[di] && rapid.Bool().Draw(t, "skipDupCreate") {
				typ = "update"
			} else {
				usedCreate[di] = true
				out = append(out, creates[di])
				continue
			}
		}
		expired := allowExpired && rapid.IntRange(0, 6).Draw(t, "expired") == 0
		out = append(out, pools[di].Op(t, typ, expired))
	}
	return out
}

// BulkCreates builds n create operations for n distinct DIDs without drawing anything (keys by index, one small
// patch each): transactions and batches far beyond hand-written sizes.
func BulkCreates(code uint64, n int, pool string) []QOp {
	out := make([]QOp, 0, n)
	for i := 0; i < n; i++ {
		rec, upd := keys.Get(keys.Ed25519, pool+"/bulk", 2*i), keys.Get(keys.Ed25519, pool+"/bulk", 2*i+1)
		patches := []interface{}{map[string]interface{}{"action": "add-also-known-as", "uris": []interface{}{fmt.Sprintf("https://bulk.example/%d", i)}}}
		c := &asm.Create{Code: code, RecoveryCommit: asm.Commit(rec, code), Delta: asm.Delta(asm.Commit(upd, code), patches)}
		out = append(out, QOp{Type: "create", Suffix: c.Suffix(), Request: c.Bytes(), DID: i})
	}
	return out
}
