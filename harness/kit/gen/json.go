package gen

import (
	"math"

	"pgregory.net/rapid"

	"verifharness/kit/refjcs"
)

// RapidChooser adapts rapid draws to refjcs.Chooser.
type RapidChooser struct {
	T     *rapid.T
	Label string
}

// Intn implements refjcs.Chooser.
func (r RapidChooser) Intn(n int) int {
	if n <= 1 {
		return 0
	}
	return rapid.IntRange(0, n-1).Draw(r.T, r.Label)
}

// TrickyStrings is the alphabet of member names / string values with ordering and escaping corner cases.
var TrickyStrings = []string{
	"", "a", "b", "aa", "ab", "A", "1", "10", "2", "\u0000", "\u001f", "\"\\/", "\u007f", "\u0080", "\u2028", "\u2029", "\u20ac", "\ue000", "\ufb33", "\uffff",
	"\U0001f600", "\U0001d11e", "\U00010000", "\U0010ffff", "a\U0001f600", "a\ufb33", "\n", "\t\r\b\f", "<>&", "\u00e9", "e\u0301", "\u00f6", "\\u0041", "key", "Key", "KEY",
}

// TrickyNumbers are doubles around every formatting boundary.
var TrickyNumbers = []float64{
	0, math.Copysign(0, -1), 1, -1, 10, 100, 1e21, 999999999999999868928, 1e21 + 131072, 1e-6, 1e-7, 9.999999999999999e-7, 0.000001, 5e-324, 1.7976931348623157e308, 2.2250738585072014e-308,
	9007199254740991, 9007199254740992, 9007199254740993, 0.1 + 0.2, 999999999999999900000, 123456789012345680000, 1.5, -1.5, 1e20, 1e22, 123456789, 0.5, 4.5, 2e-3, 1e23, 295147905179352830000,
	333333333.33333329, 1424953923781206.2, 4.9406564584124654e-324, 1.0000000000000002, 4503599627370497.5, 1e15, 1e16, 1e17, 12345678901234567890, 0.00001, 0.000001234, 1234567.890123456,
}

// Double draws a finite double by bit pattern, near a power of ten, or from the tricky list.
func Double(t *rapid.T) float64 {
	switch rapid.IntRange(0, 9).Draw(t, "numKind") {
	case 0, 1:
		return rapid.SampledFrom(TrickyNumbers).Draw(t, "trickyNum")
	case 2, 3, 4, 5:
		bits := rapid.Uint64().Draw(t, "bits")
		f := math.Float64frombits(bits)
		if math.IsNaN(f) || math.IsInf(f, 0) {
			f = math.Float64frombits(bits &^ (1 << 62))
		}
		return f
	case 6:
		e := rapid.IntRange(-30, 30).Draw(t, "pow10")
		f := math.Pow(10, float64(e))
		steps := rapid.IntRange(-3, 3).Draw(t, "ulps")
		for i := 0; i < steps; i++ {
			f = math.Nextafter(f, math.Inf(1))
		}
		for i := 0; i > steps; i-- {
			f = math.Nextafter(f, math.Inf(-1))
		}
		return f
	case 7:
		return float64(rapid.Int64Range(-1<<54, 1<<54).Draw(t, "int"))
	case 8:
		return float64(rapid.IntRange(-1000000, 1000000).Draw(t, "smallInt")) / float64(rapid.SampledFrom([]int{1, 2, 4, 8, 10, 100, 1000, 3, 7}).Draw(t, "div"))
	default:
		m := rapid.Float64Range(1, 10).Draw(t, "mant")
		e := rapid.IntRange(-320, 308).Draw(t, "exp")
		f := m * math.Pow(10, float64(e))
		if math.IsInf(f, 0) {
			f = math.MaxFloat64
		}
		return f
	}
}

// JSONString draws a string: tricky, ASCII, or arbitrary valid runes.
func JSONString(t *rapid.T) string {
	switch rapid.IntRange(0, 3).Draw(t, "strKind") {
	case 0:
		return rapid.SampledFrom(TrickyStrings).Draw(t, "trickyStr")
	case 1:
		return rapid.StringMatching(`[a-zA-Z0-9_ ]{0,8}`).Draw(t, "asciiStr")
	case 2:
		return rapid.SampledFrom(TrickyStrings).Draw(t, "trickyStr") + rapid.SampledFrom(TrickyStrings).Draw(t, "trickyStr2")
	default:
		n := rapid.IntRange(0, 5).Draw(t, "runes")
		rs := make([]rune, 0, n)
		for i := 0; i < n; i++ {
			r := rune(rapid.IntRange(0, 0x10ffff).Draw(t, "rune"))
			if r >= 0xd800 && r <= 0xdfff {
				r = 0xfffd
			}
			rs = append(rs, r)
		}
		return string(rs)
	}
}

// JSONValue draws a JSON value of bounded depth (top level may be any kind).
func JSONValue(t *rapid.T, depth int) *refjcs.Value {
	kinds := []refjcs.Kind{refjcs.Null, refjcs.Bool, refjcs.Number, refjcs.Number, refjcs.String, refjcs.String}
	if depth > 0 {
		kinds = append(kinds, refjcs.Array, refjcs.Object, refjcs.Object)
	}
	switch rapid.SampledFrom(kinds).Draw(t, "kind") {
	case refjcs.Null:
		return &refjcs.Value{Kind: refjcs.Null}
	case refjcs.Bool:
		return &refjcs.Value{Kind: refjcs.Bool, B: rapid.Bool().Draw(t, "bool")}
	case refjcs.Number:
		return &refjcs.Value{Kind: refjcs.Number, Num: Double(t)}
	case refjcs.String:
		return &refjcs.Value{Kind: refjcs.String, Str: JSONString(t)}
	case refjcs.Array:
		return JSONArray(t, depth)
	default:
		return JSONObject(t, depth)
	}
}

// JSONArray draws an array.
func JSONArray(t *rapid.T, depth int) *refjcs.Value {
	n := rapid.IntRange(0, 4).Draw(t, "arrLen")
	v := &refjcs.Value{Kind: refjcs.Array, Arr: []*refjcs.Value{}}
	for i := 0; i < n; i++ {
		v.Arr = append(v.Arr, JSONValue(t, depth-1))
	}
	return v
}

// JSONObject draws an object with distinct member names.
func JSONObject(t *rapid.T, depth int) *refjcs.Value {
	n := rapid.IntRange(0, 5).Draw(t, "objLen")
	v := &refjcs.Value{Kind: refjcs.Object, Obj: []refjcs.Member{}}
	seen := map[string]bool{}
	for i := 0; i < n; i++ {
		name := JSONString(t)
		if len(v.Obj) > 0 && rapid.IntRange(0, 3).Draw(t, "siblingName") == 0 {
			name = siblingName(t, v.Obj[rapid.IntRange(0, len(v.Obj)-1).Draw(t, "siblingOf")].Name)
		}
		if seen[name] {
			continue
		}
		seen[name] = true
		v.Obj = append(v.Obj, refjcs.Member{Name: name, Val: JSONValue(t, depth-1)})
	}
	return v
}

// JSONTop draws an object or array of the given depth.
func JSONTop(t *rapid.T, depth int) *refjcs.Value {
	if rapid.IntRange(0, 3).Draw(t, "topArray") == 0 {
		return JSONArray(t, depth)
	}
	return JSONObject(t, depth)
}

// siblingName derives a member name from an earlier one by changing one bit of one code point (or appending one
// when the name is empty), so that ordering decisions between names that differ late and little are frequent.
func siblingName(t *rapid.T, of string) string {
	rs := []rune(of)
	if len(rs) == 0 {
		return string(rune(rapid.SampledFrom([]int{0x41, 0xe000, 0x10000, 0x1f640}).Draw(t, "siblingRune")))
	}
	i := rapid.IntRange(0, len(rs)-1).Draw(t, "siblingPos")
	r := rs[i] ^ (1 << uint(rapid.IntRange(0, 20).Draw(t, "siblingBit")))
	if r > 0x10ffff || (r >= 0xd800 && r <= 0xdfff) {
		r = rs[i] ^ 1
	}
	if r >= 0xd800 && r <= 0xdfff {
		r = 0xfffd
	}
	rs[i] = r
	return string(rs)
}

// JSONLarge draws an object or array that is large in exactly one respect (drawn): many members (up to 64, names
// sharing long common prefixes so that ordering is decided late), a long array (up to 200 elements), long strings
// (up to 600 code points, as name and as value) or deep nesting (up to 40 levels); the rest stays small.
func JSONLarge(t *rapid.T) (*refjcs.Value, string) {
	num := func(i int) *refjcs.Value { return &refjcs.Value{Kind: refjcs.Number, Num: float64(i)} }
	switch shape := rapid.SampledFrom([]string{"many-members", "long-array", "long-strings", "deep"}).Draw(t, "largeShape"); shape {
	case "many-members":
		n := rapid.IntRange(9, 64).Draw(t, "members")
		prefix := rapid.SampledFrom([]string{"", "k", "key-with-a-long-common-prefix-", "\u00e9\U0001f600"}).Draw(t, "namePrefix")
		v := &refjcs.Value{Kind: refjcs.Object, Obj: []refjcs.Member{}}
		seen := map[string]bool{}
		for i := 0; i < n; i++ {
			name := prefix + JSONString(t)
			if rapid.Bool().Draw(t, "numericName") {
				name = prefix + rapid.StringMatching(`[0-9]{1,3}`).Draw(t, "digits")
			}
			if seen[name] {
				continue
			}
			seen[name] = true
			v.Obj = append(v.Obj, refjcs.Member{Name: name, Val: num(i)})
		}
		return v, shape
	case "long-array":
		n := rapid.IntRange(17, 200).Draw(t, "elements")
		v := &refjcs.Value{Kind: refjcs.Array, Arr: []*refjcs.Value{}}
		for i := 0; i < n; i++ {
			if i%7 == 0 {
				v.Arr = append(v.Arr, JSONValue(t, 1))
			} else {
				v.Arr = append(v.Arr, num(i))
			}
		}
		return v, shape
	case "long-strings":
		long := func() string {
			n := rapid.IntRange(60, 600).Draw(t, "codePoints")
			unit := rapid.SampledFrom([]string{"a", "\u00e9", "\u20ac", "\U0001f600", "\"", "\\", "\n", "\u0001", "ab\u2028"}).Draw(t, "unit")
			s := ""
			for len([]rune(s)) < n {
				s += unit
				if rapid.IntRange(0, 9).Draw(t, "mix") == 0 {
					s += JSONString(t)
				}
			}
			return s
		}
		return &refjcs.Value{Kind: refjcs.Object, Obj: []refjcs.Member{{Name: long(), Val: &refjcs.Value{Kind: refjcs.String, Str: long()}}, {Name: "z", Val: num(1)}}}, shape
	default:
		depth := rapid.IntRange(8, 40).Draw(t, "levels")
		var v *refjcs.Value = JSONValue(t, 1)
		for i := 0; i < depth; i++ {
			if rapid.Bool().Draw(t, "wrapInArray") {
				v = &refjcs.Value{Kind: refjcs.Array, Arr: []*refjcs.Value{num(i), v}}
			} else {
				v = &refjcs.Value{Kind: refjcs.Object, Obj: []refjcs.Member{{Name: "b", Val: num(i)}, {Name: "a", Val: v}}}
			}
		}
		if v.Kind != refjcs.Array && v.Kind != refjcs.Object {
			v = &refjcs.Value{Kind: refjcs.Array, Arr: []*refjcs.Value{v}}
		}
		return v, shape
	}
}
