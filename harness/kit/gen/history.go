// Package gen holds the rapid generators shared by the checks.
package gen

import (
	"fmt"

	"pgregory.net/rapid"

	"verifharness/kit/asm"
	"verifharness/kit/hist"
	"verifharness/kit/keys"
	"verifharness/kit/refmodel"
)

// HistOpts selects the operation alphabet of a generated history.
type HistOpts struct {
	MinOps, MaxOps int
	Forks          bool // several valid operations consuming one commitment
	BadDeltas      bool // failing-patch / invalid / mismatched / missing deltas
	Windows        bool // signed anchoring windows, in and out
	Forges         bool // unauthorised operations of every forgery class
	DupCreates     bool // further creates with the same suffix data
	Cycles         bool // operations re-committing to a consumed commitment
	Replays        bool // byte-identical copies of operations
	KeyTypes       []keys.Type
	Pool           string
}

type state struct {
	upd, rec *keys.Key // nil upd = no update commitment reachable
	updAnc   []*keys.Key
	recAnc   []*keys.Key
}

// History is a generated, not yet anchored, set of operations for one DID.
type History struct {
	Suffix string
	Code   uint64
	Ops    []*hist.Op
}

// Hist generates a history by expanding a tree of reachable (update key, recovery key) states.
func Hist(t *rapid.T, o HistOpts) *History {
	if len(o.KeyTypes) == 0 {
		o.KeyTypes = keys.AllTypes
	}
	if o.Pool == "" {
		o.Pool = "hist"
	}
	code := rapid.SampledFrom([]uint64{asm.SHA256, asm.SHA512}).Draw(t, "hash")
	nk := 0
	// keys come from a bounded universe (cached) - the index is drawn so that shrinking prefers small ones
	newKey := func() *keys.Key {
		kt := rapid.SampledFrom(o.KeyTypes).Draw(t, "keyType")
		nk++
		return keys.Get(kt, o.Pool, nk)
	}
	attacker := func(kt keys.Type) *keys.Key {
		nk++
		return keys.Get(kt, o.Pool+"/attacker", nk)
	}
	h := &History{Code: code}
	r0, u0 := newKey(), newKey()
	origin := rapid.SampledFrom([]interface{}{nil, "origin-a", map[string]interface{}{"o": "b"}}).Draw(t, "anchorOrigin")
	createClass := refmodel.DeltaGood
	createInvalid := ""
	if o.BadDeltas && rapid.IntRange(0, 6).Draw(t, "createBad") == 0 {
		createClass = rapid.SampledFrom([]string{refmodel.DeltaFailPatch, refmodel.DeltaInvalid, refmodel.DeltaInvalid, refmodel.DeltaMismatch}).Draw(t, "createClass")
		if createClass == refmodel.DeltaInvalid {
			createInvalid = rapid.SampledFrom([]string{hist.InvalidNoPatches, hist.InvalidBadCommit, hist.InvalidUnknownAction, hist.InvalidSecondPatch}).Draw(t, "createInvalidKind")
		}
	}
	create := hist.NewCreate(hist.CreateSpec{Name: "create", Code: code, Recovery: r0, Update: u0,
		Markers: map[string]interface{}{"c": "0"}, Opt: hist.Opt{AnchorOrigin: origin, Delta: createClass, InvalidKind: createInvalid}})
	h.Suffix = create.Suffix
	h.Ops = append(h.Ops, create)
	var frontier []*state
	s0 := &state{upd: u0, rec: r0}
	if createClass == refmodel.DeltaInvalid || createClass == refmodel.DeltaMismatch {
		// the create leaves no update commitment; operations signed with u0 are still generated now and then below
		s0.upd = nil
	}
	frontier = append(frontier, s0)

	n := rapid.IntRange(o.MinOps, o.MaxOps).Draw(t, "numOps")
	for i := 0; i < n; i++ {
		// pick a state: mostly the newest, sometimes an older one (forks)
		si := len(frontier) - 1
		if o.Forks && len(frontier) > 1 && rapid.IntRange(0, 2).Draw(t, "fork") == 0 {
			si = rapid.IntRange(0, len(frontier)-1).Draw(t, "forkState")
		}
		st := frontier[si]
		kinds := []string{"update", "update", "update", "recover", "deactivate"}
		if st.upd == nil {
			kinds = []string{"recover", "recover", "deactivate"}
		}
		kind := rapid.SampledFrom(kinds).Draw(t, "kind")
		name := fmt.Sprintf("%s%d", kind[:1], i+1)
		opt := hist.Opt{}
		if o.BadDeltas && kind != "deactivate" && rapid.IntRange(0, 3).Draw(t, "bad") == 0 {
			opt.Delta = rapid.SampledFrom([]string{refmodel.DeltaFailPatch, refmodel.DeltaInvalid, refmodel.DeltaMismatch, refmodel.DeltaMissing}).Draw(t, "deltaClass")
			if opt.Delta == refmodel.DeltaInvalid {
				opt.InvalidKind = rapid.SampledFrom([]string{hist.InvalidNoPatches, hist.InvalidBadCommit, hist.InvalidUnknownAction, hist.InvalidSecondPatch}).Draw(t, "invalidKind")
			}
		}
		if o.Windows && rapid.IntRange(0, 3).Draw(t, "window") == 0 {
			w := rapid.SampledFrom([][2]int64{{1, 4000}, {1, 0}, {0, 4000}, {5000, 0}, {5000, 9000}, {1, 5}, {0, 5}, {5000, 9}, {30, 12}}).Draw(t, "fromUntil")
			opt.From, opt.Until = w[0], w[1]
		}
		forged := false
		if o.Forges && rapid.IntRange(0, 2).Draw(t, "forge") == 0 {
			classes := append([]string{}, hist.AllForges...)
			if kind == "deactivate" {
				classes = append(classes, hist.ForgeOtherDID)
			}
			opt.Forge = rapid.SampledFrom(classes).Draw(t, "forgeClass")
			forged = true
		}
		reveal := st.rec
		if kind == "update" {
			reveal = st.upd
		}
		if forged {
			opt.Attacker = attacker(reveal.Type)
		}
		spec := hist.SignedSpec{Name: name, Type: kind, Suffix: h.Suffix, Code: code, Reveal: reveal,
			Markers: map[string]interface{}{name: fmt.Sprintf("v%d", i+1)}, Opt: opt}
		cyc := false
		switch kind {
		case "update":
			spec.NextUpd = newKey()
			// (an unauthorised operation names an already consumed or the current commitment as its next one every third time)
			if (o.Cycles && rapid.IntRange(0, 5).Draw(t, "cycle") == 0) || (forged && rapid.IntRange(0, 2).Draw(t, "forgedCycle") == 0) {
				anc := append(append([]*keys.Key{}, st.updAnc...), st.upd)
				if rapid.IntRange(0, 2).Draw(t, "crossChain") == 0 {
					// the other chain's commitments: consumed recovery commitments, and the one in force (which is consumed
					// as well by the time the update chain runs if a recover or deactivate follows)
					anc = append(append([]*keys.Key{}, st.recAnc...), st.rec)
				}
				spec.Opt.NextUpdate = asm.Commit(rapid.SampledFrom(anc).Draw(t, "cycleTarget"), code)
				cyc = true
			}
		case "recover":
			spec.NextUpd, spec.NextRec = newKey(), newKey()
			spec.Opt.AnchorOrigin = rapid.SampledFrom([]interface{}{nil, "origin-r"}).Draw(t, "recoverOrigin")
			if (o.Cycles && rapid.IntRange(0, 5).Draw(t, "cycle") == 0) || (forged && rapid.IntRange(0, 2).Draw(t, "forgedCycle") == 0) {
				anc := append(append([]*keys.Key{}, st.recAnc...), st.rec)
				if rapid.IntRange(0, 2).Draw(t, "crossChain") == 0 {
					// hands a recovery commitment that is consumed by then on as the next *update* commitment
					spec.Opt.NextUpdate = asm.Commit(rapid.SampledFrom(anc).Draw(t, "cycleTarget"), code)
				} else {
					spec.Opt.NextRecovery = asm.Commit(rapid.SampledFrom(anc).Draw(t, "cycleTarget"), code)
				}
				cyc = true
			}
		}
		if cyc {
			spec.Name = name + "cyc"
		}
		op := hist.NewSigned(spec)
		h.Ops = append(h.Ops, op)
		if o.Replays && rapid.IntRange(0, 7).Draw(t, "replay") == 0 {
			cp := *op
			cp.Desc.Name = op.Desc.Name + "/replay"
			cp.Dup = true
			h.Ops = append(h.Ops, &cp)
		}
		if forged || kind == "deactivate" {
			continue
		}
		cls := op.Desc.Delta
		switch kind {
		case "update":
			if cls == refmodel.DeltaGood || cls == refmodel.DeltaFailPatch {
				next := spec.NextUpd
				if cyc {
					// the chain would continue with the ancestor's key; the model decides whether it is skipped
					continue
				}
				frontier = append(frontier, &state{upd: next, rec: st.rec, updAnc: append(append([]*keys.Key{}, st.updAnc...), st.upd), recAnc: st.recAnc})
			}
		case "recover":
			if cyc {
				continue
			}
			ns := &state{rec: spec.NextRec, recAnc: append(append([]*keys.Key{}, st.recAnc...), st.rec)}
			if cls == refmodel.DeltaGood || cls == refmodel.DeltaFailPatch {
				ns.upd = spec.NextUpd
			}
			frontier = append(frontier, ns)
		}
	}
	if o.DupCreates {
		nd := rapid.IntRange(0, 2).Draw(t, "dupCreates")
		for i := 0; i < nd; i++ {
			if rapid.Bool().Draw(t, "dupSameDelta") {
				cp := *create
				cp.Desc.Name = fmt.Sprintf("create/dup%d", i+1)
				cp.Dup = true
				h.Ops = append(h.Ops, &cp)
			} else {
				d := hist.DupCreateOtherDelta(create, fmt.Sprintf("create/other-delta%d", i+1), code)
				h.Ops = append(h.Ops, d)
			}
		}
	}
	return h
}

// AnchorOpts controls coordinate assignment.
type AnchorOpts struct {
	Unpublished  bool // allow an unpublished tail
	CreateFirst  bool // keep the genuine create (index 0) at the earliest coordinates
	DupAfterOrig bool // duplicate creates (name prefix "create/") only after the genuine create
}

// Anchor assigns pairwise distinct (time, number) coordinates with numbers drawn independently of times.
func Anchor(t *rapid.T, h *History, o AnchorOpts) []*hist.Anchored {
	n := len(h.Ops)
	mode := rapid.SampledFrom([]string{"independent", "independent", "equal-numbers", "co-monotone", "anti-monotone"}).Draw(t, "coordMode")
	perm := Perm(t, n, "numPerm")
	times := make([]uint64, n)
	nums := make([]uint64, n)
	span := rapid.IntRange(1, n+1).Draw(t, "timeSpan")
	for i := 0; i < n; i++ {
		switch mode {
		case "independent":
			times[i] = 10 + uint64(rapid.IntRange(0, span).Draw(t, "time"))
			nums[i] = uint64(perm[i])
		case "equal-numbers":
			times[i] = 10 + uint64(perm[i])
			nums[i] = 7
		case "co-monotone":
			times[i] = 10 + uint64(perm[i])
			nums[i] = uint64(perm[i])
		case "anti-monotone":
			times[i] = 10 + uint64(perm[i])
			nums[i] = uint64(n - perm[i])
		}
	}
	if rapid.IntRange(0, 4).Draw(t, "hugeNumbers") == 0 {
		// transaction numbers are uint64: a global counter above 2^32, with high parts that differ between operations
		for i := range nums {
			nums[i] += uint64(rapid.IntRange(0, 3).Draw(t, "numberHigh")) << 32
		}
	}
	unpub := make([]bool, n)
	if o.Unpublished {
		k := rapid.IntRange(0, 2).Draw(t, "numUnpublished")
		for j := 0; j < k && j < n; j++ {
			i := rapid.IntRange(0, n-1).Draw(t, "unpubIndex")
			unpub[i] = true
		}
	}
	if o.CreateFirst || o.DupAfterOrig {
		// give the genuine create the minimum coordinates among creates (or all operations)
		best := 0
		for i := 1; i < n; i++ {
			if (o.CreateFirst || h.Ops[i].Desc.Type == "create") && !unpub[i] &&
				(times[i] < times[best] || (times[i] == times[best] && nums[i] < nums[best])) {
				best = i
			}
		}
		times[0], times[best] = times[best], times[0]
		nums[0], nums[best] = nums[best], nums[0]
		unpub[0] = false
	}
	earlyUnpub := o.Unpublished && rapid.Bool().Draw(t, "unpublishedBeforeLedgerTimes")
	out := make([]*hist.Anchored, n)
	for i, op := range h.Ops {
		if unpub[i] {
			// unpublished operations carry the wall-clock time of their submission, which may lie before or after the
			// ledger times of the published ones
			ut := 100000 + uint64(perm[i])
			if earlyUnpub {
				ut = uint64(perm[i])
			}
			out[i] = op.At(ut, 0, "", 0)
		} else {
			out[i] = op.At(times[i], nums[i], fmt.Sprintf("ref-%d", i), 0)
		}
	}
	return out
}

// Perm draws a permutation of 0..n-1.
func Perm(t *rapid.T, n int, label string) []int {
	p := make([]int, n)
	for i := range p {
		p[i] = i
	}
	for i := n - 1; i > 0; i-- {
		j := rapid.IntRange(0, i).Draw(t, label)
		p[i], p[j] = p[j], p[i]
	}
	return p
}

// IsIdentity reports whether p is the identity permutation.
func IsIdentity(p []int) bool {
	for i, v := range p {
		if i != v {
			return false
		}
	}
	return true
}

// AssignVersions turns an anchored history into a two-version one: version 0 and a version with genesis 20 whose
// maximum operation time deltas differ (one of them tiny, so that a from-only window is open under one version and
// closed under the other). Each operation is stamped with the version in force at its anchoring time or, one time
// in four, with the other one (operations are applied under the version of their stamp - the version in force when
// they were accepted - not under the one their anchoring time falls in).
func AssignVersions(t *rapid.T, h []*hist.Anchored) []hist.VersionSpec {
	d := rapid.SampledFrom([][2]uint64{{3, 7207}, {7207, 3}, {3, 600}, {600, 3}}).Draw(t, "versionDeltas")
	vs := []hist.VersionSpec{{Genesis: 0, MaxTimeDelta: d[0]}, {Genesis: 20, MaxTimeDelta: d[1]}}
	for _, a := range h {
		pv := uint64(0)
		if a.Op.TransactionTime >= 20 {
			pv = 20
		}
		if rapid.IntRange(0, 3).Draw(t, "otherVersion") == 0 {
			pv = 20 - pv
		}
		a.Op.ProtocolVersion = pv
	}
	return vs
}
