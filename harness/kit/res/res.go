// Package res runs the real OperationProcessor over a given set of anchored operations and flattens the
// result into a comparable, JSON-serialisable Outcome.
package res

import (
	"encoding/json"
	"fmt"
	"reflect"
	"runtime/debug"
	"sort"
	"strings"

	"github.com/trustbloc/sidetree-core-go/pkg/api/operation"
	"github.com/trustbloc/sidetree-core-go/pkg/api/protocol"
	"github.com/trustbloc/sidetree-core-go/pkg/document"
	"github.com/trustbloc/sidetree-core-go/pkg/processor"

	"verifharness/kit/refmodel"
	"verifharness/kit/wire"
)

// Outcome is the flattened result of one Resolve call.
type Outcome struct {
	Err          string                 `json:"err,omitempty"`
	Panic        string                 `json:"panic,omitempty"`
	Doc          map[string]interface{} `json:"doc,omitempty"`
	Update       string                 `json:"update"`
	Recovery     string                 `json:"recovery"`
	Deactivated  bool                   `json:"deactivated"`
	AnchorOrigin interface{}            `json:"anchorOrigin,omitempty"`
	VersionID    string                 `json:"versionId"`
	CanonicalRef string                 `json:"canonicalRef"`
	LastTime     uint64                 `json:"lastTime"`
	LastNum      uint64                 `json:"lastNum"`
	CreatedTime  uint64                 `json:"createdTime"`
	UpdatedTime  uint64                 `json:"updatedTime"`
	ApplyCalls   int                    `json:"applyCalls"`
	Applied      []wire.ApplyEvent      `json:"applied,omitempty"`
	PubRefs      []string               `json:"-"`
	NumUnpub     int                    `json:"-"`
}

type unpubSlice struct {
	ops []*operation.AnchoredOperation
}

func (u *unpubSlice) Get(suffix string) ([]*operation.AnchoredOperation, error) {
	var out []*operation.AnchoredOperation
	for _, op := range u.ops {
		if op.UniqueSuffix == suffix {
			out = append(out, wire.CopyOp(op))
		}
	}
	if len(out) == 0 {
		return nil, fmt.Errorf("not found")
	}
	return out, nil
}

type countingClient struct {
	inner protocol.Client
	calls *int
	limit int
	log   *[]wire.ApplyEvent
}

type sharedApplier struct {
	inner protocol.OperationApplier
	c     *countingClient
}

func (a sharedApplier) Apply(op *operation.AnchoredOperation, rm *protocol.ResolutionModel) (*protocol.ResolutionModel, error) {
	*a.c.calls++
	if a.c.limit > 0 && *a.c.calls > a.c.limit {
		panic(wire.ErrStepBound)
	}
	r, err := a.inner.Apply(op, rm)
	if err == nil && r != nil {
		*a.c.log = append(*a.c.log, wire.ApplyEvent{Type: op.Type, TxnTime: op.TransactionTime, TxnNum: op.TransactionNumber,
			UpdateBefore: rm.UpdateCommitment, RecoveryBefore: rm.RecoveryCommitment})
	}
	return r, err
}

type sharedVersion struct {
	inner protocol.Version
	c     *countingClient
}

func (v sharedVersion) Version() string             { return v.inner.Version() }
func (v sharedVersion) Protocol() protocol.Protocol { return v.inner.Protocol() }
func (v sharedVersion) TransactionProcessor() protocol.TxnProcessor {
	return v.inner.TransactionProcessor()
}
func (v sharedVersion) OperationParser() protocol.OperationParser { return v.inner.OperationParser() }
func (v sharedVersion) OperationHandler() protocol.OperationHandler {
	return v.inner.OperationHandler()
}
func (v sharedVersion) OperationProvider() protocol.OperationProvider {
	return v.inner.OperationProvider()
}
func (v sharedVersion) DocumentComposer() protocol.DocumentComposer {
	return v.inner.DocumentComposer()
}
func (v sharedVersion) DocumentValidator() protocol.DocumentValidator {
	return v.inner.DocumentValidator()
}
func (v sharedVersion) DocumentTransformer() protocol.DocumentTransformer {
	return v.inner.DocumentTransformer()
}

func (v sharedVersion) OperationApplier() protocol.OperationApplier {
	return sharedApplier{inner: v.inner.OperationApplier(), c: v.c}
}

func (c *countingClient) Current() (protocol.Version, error) {
	v, err := c.inner.Current()
	if err != nil {
		return nil, err
	}
	return sharedVersion{inner: v, c: c}, nil
}

func (c *countingClient) Get(t uint64) (protocol.Version, error) {
	v, err := c.inner.Get(t)
	if err != nil {
		return nil, err
	}
	return sharedVersion{inner: v, c: c}, nil
}

// BoundedClient wraps a protocol client so that more than limit Apply calls (in total) panic with
// wire.ErrStepBound; checks that drive the real processor indirectly (document handler) use it so that a
// non-terminating resolution becomes a reported failure instead of a hang.
func BoundedClient(pc protocol.Client, limit int) protocol.Client {
	calls := 0
	var log []wire.ApplyEvent
	return &countingClient{inner: pc, calls: &calls, limit: limit, log: &log}
}

// Resolve resolves suffix over the given published store content (returned in exactly this order) and
// unpublished operations. A panic is caught and reported in Outcome.Panic. The number of Apply calls is
// bounded by 4*len(ops)+8 (exceeding it is reported as a non-termination panic).
func Resolve(pc protocol.Client, suffix string, stored, unpublished []*operation.AnchoredOperation, opts ...document.ResolutionOption) (out *Outcome) {
	return ResolveAfter(pc, suffix, stored, unpublished, nil, opts...)
}

// ResolveAfter is Resolve on a processor object that has already served other resolutions of the same (unchanged)
// stores: first the latest state, then one resolution per warm option. Their outcomes are not judged; a node keeps
// one processor for all requests, so whatever they leave behind must not influence the resolution under test.
func ResolveAfter(pc protocol.Client, suffix string, stored, unpublished []*operation.AnchoredOperation, warm []document.ResolutionOption, opts ...document.ResolutionOption) (out *Outcome) {
	calls := 0
	var log []wire.ApplyEvent
	cc := &countingClient{inner: pc, calls: &calls, limit: (4*(len(stored)+len(unpublished)) + 8) * (2 + len(warm)), log: &log}
	var popts []processor.Option
	if unpublished != nil {
		popts = append(popts, processor.WithUnpublishedOperationStore(&unpubSlice{ops: unpublished}))
	}
	var store processor.OperationStoreClient = &wire.SliceStore{Ops: stored}
	if warm != nil {
		// the long-lived node: its store hands out the same internal slice on every call
		var mine []*operation.AnchoredOperation
		for _, op := range stored {
			if op.UniqueSuffix == suffix {
				mine = append(mine, op)
			}
		}
		store = wire.NewSharedSliceStore(mine)
	}
	p := processor.New("verif", store, cc, popts...)
	out = &Outcome{}
	defer func() {
		if r := recover(); r != nil {
			out = &Outcome{Panic: fmt.Sprintf("%v", r), ApplyCalls: calls}
			if r != wire.ErrStepBound {
				st := string(debug.Stack())
				if i := strings.Index(st, "panic("); i >= 0 {
					st = st[i:]
				}
				if len(st) > 1500 {
					st = st[:1500]
				}
				out.Panic += "\n" + st
			}
		}
	}()
	if warm != nil {
		_, _ = p.Resolve(suffix)
		for _, w := range warm {
			_, _ = p.Resolve(suffix, w)
		}
		calls, log = 0, nil
	}
	rm, err := p.Resolve(suffix, opts...)
	out.ApplyCalls = calls
	out.Applied = log
	if err != nil {
		out.Err = err.Error()
		return out
	}
	return FromModel(rm, out)
}

// FromModel flattens a resolution model.
func FromModel(rm *protocol.ResolutionModel, out *Outcome) *Outcome {
	if out == nil {
		out = &Outcome{}
	}
	out.Doc = Normalize(rm.Doc)
	out.Update, out.Recovery, out.Deactivated = rm.UpdateCommitment, rm.RecoveryCommitment, rm.Deactivated
	out.AnchorOrigin = NormalizeAny(rm.AnchorOrigin)
	out.VersionID, out.CanonicalRef = rm.VersionID, rm.CanonicalReference
	out.LastTime, out.LastNum = rm.LastOperationTransactionTime, rm.LastOperationTransactionNumber
	out.CreatedTime, out.UpdatedTime = rm.CreatedTime, rm.UpdatedTime
	for _, op := range rm.PublishedOperations {
		out.PubRefs = append(out.PubRefs, op.CanonicalReference)
	}
	out.NumUnpub = len(rm.UnpublishedOperations)
	return out
}

// Normalize round-trips a document through JSON so that it compares as a JSON value.
func Normalize(doc map[string]interface{}) map[string]interface{} {
	if doc == nil {
		return nil
	}
	b, err := json.Marshal(doc)
	if err != nil {
		return map[string]interface{}{"__unmarshalable__": err.Error()}
	}
	var out map[string]interface{}
	_ = json.Unmarshal(b, &out)
	return out
}

// NormalizeAny round-trips any value through JSON.
func NormalizeAny(v interface{}) interface{} {
	if v == nil {
		return nil
	}
	b, err := json.Marshal(v)
	if err != nil {
		return fmt.Sprintf("__unmarshalable__:%v", err)
	}
	var out interface{}
	_ = json.Unmarshal(b, &out)
	return out
}

// JSONEqual compares two values as JSON values.
func JSONEqual(a, b interface{}) bool {
	return reflect.DeepEqual(NormalizeAny(a), NormalizeAny(b))
}

// SameState compares every field of the resolved state (not the operation lists); it returns the names of
// the differing fields.
func SameState(a, b *Outcome) []string {
	var diff []string
	add := func(name string, eq bool) {
		if !eq {
			diff = append(diff, name)
		}
	}
	add("panic", (a.Panic == "") == (b.Panic == ""))
	add("error", (a.Err == "") == (b.Err == ""))
	add("doc", reflect.DeepEqual(a.Doc, b.Doc))
	add("updateCommitment", a.Update == b.Update)
	add("recoveryCommitment", a.Recovery == b.Recovery)
	add("deactivated", a.Deactivated == b.Deactivated)
	add("anchorOrigin", reflect.DeepEqual(a.AnchorOrigin, b.AnchorOrigin))
	add("versionId", a.VersionID == b.VersionID)
	add("canonicalReference", a.CanonicalRef == b.CanonicalRef)
	add("lastOperationTime", a.LastTime == b.LastTime)
	add("lastOperationNumber", a.LastNum == b.LastNum)
	add("createdTime", a.CreatedTime == b.CreatedTime)
	add("updatedTime", a.UpdatedTime == b.UpdatedTime)
	return diff
}

// VsModel compares an outcome with the reference state on the verdict fields (document, both
// commitments, deactivated flag, last-operation coordinates, version id) and separately returns advisory
// differences (anchor origin, canonical reference, times) that never make a verdict.
func VsModel(o *Outcome, m *refmodel.State) (verdict, advisory []string) {
	if o.Panic != "" {
		return []string{"panic"}, nil
	}
	if !m.Found {
		if o.Err == "" {
			verdict = append(verdict, "resolved-without-create")
		}
		return verdict, nil
	}
	if o.Err != "" {
		return []string{"error:" + o.Err}, nil
	}
	add := func(list *[]string, name string, eq bool) {
		if !eq {
			*list = append(*list, name)
		}
	}
	add(&verdict, "doc", reflect.DeepEqual(o.Doc, Normalize(m.Doc)))
	add(&verdict, "updateCommitment", o.Update == m.Update)
	add(&verdict, "recoveryCommitment", o.Recovery == m.Recovery)
	add(&verdict, "deactivated", o.Deactivated == m.Deactivated)
	add(&verdict, "lastOperationTime", o.LastTime == m.LastTime)
	add(&verdict, "lastOperationNumber", o.LastNum == m.LastNum)
	add(&verdict, "versionId", o.VersionID == m.VersionID)
	// anchor origin: fixed by the create, replaced by a recover, untouched by an update ("advances only the update
	// commitment"); left open once deactivated ("clears everything")
	if m.Deactivated {
		add(&advisory, "anchorOrigin", JSONEqual(o.AnchorOrigin, m.AnchorOrigin))
	} else {
		add(&verdict, "anchorOrigin", JSONEqual(o.AnchorOrigin, m.AnchorOrigin))
	}
	add(&advisory, "canonicalReference", o.CanonicalRef == m.CanonicalRef)
	add(&advisory, "createdTime", o.CreatedTime == m.CreatedTime)
	add(&advisory, "updatedTime", o.UpdatedTime == m.UpdatedTime)
	return verdict, advisory
}

// ConsumedTwice inspects the apply log: within the recovery chain and within the update chain no
// commitment may be consumed by two applied operations. It returns a description or "".
func ConsumedTwice(o *Outcome) string {
	seenR, seenU := map[string]bool{}, map[string]bool{}
	for _, e := range o.Applied {
		switch e.Type {
		case operation.TypeRecover, operation.TypeDeactivate:
			if seenR[e.RecoveryBefore] {
				return "recovery commitment " + e.RecoveryBefore + " consumed twice"
			}
			seenR[e.RecoveryBefore] = true
			if e.Type == operation.TypeRecover {
				seenU = map[string]bool{} // a recover starts a fresh update chain
			}
		case operation.TypeUpdate:
			if seenU[e.UpdateBefore] {
				return "update commitment " + e.UpdateBefore + " consumed twice"
			}
			seenU[e.UpdateBefore] = true
		}
	}
	return ""
}

// SortedKeys returns the sorted keys of a map.
func SortedKeys(m map[string]interface{}) []string {
	var ks []string
	for k := range m {
		ks = append(ks, k)
	}
	sort.Strings(ks)
	return ks
}
