// Package refjcs is an independent RFC 8785 (JCS) reference: a strict RFC 8259 parser into its own value
// type and a canonical serializer. It shares no code with the implementation under test.
// Trusted: strconv (shortest round-trip digits; ParseFloat for literals of at most 300 characters), math/big (longer
// literals), unicode/utf16, unicode/utf8.
package refjcs

import (
	"fmt"
	"math"
	"math/big"
	"sort"
	"strconv"
	"strings"
	"unicode/utf16"
	"unicode/utf8"
)

// Kind of a JSON value.
type Kind int

// Kinds.
const (
	Null Kind = iota
	Bool
	Number
	String
	Array
	Object
)

// Member of an object, in source order.
type Member struct {
	Name string
	Val  *Value
}

// Value is a parsed JSON value.
type Value struct {
	Kind Kind
	B    bool
	Num  float64
	Str  string
	Arr  []*Value
	Obj  []Member
}

// Error classes reported by Parse.
const (
	ErrDuplicate    = "duplicate-name"
	ErrUnterminated = "unterminated"
	ErrEscape       = "invalid-escape"
	ErrSurrogate    = "lone-surrogate"
	ErrControl      = "raw-control"
	ErrTrailing     = "trailing-content"
	ErrOther        = "other" // anything the property statement does not list (number syntax, bad literal, invalid UTF-8, scalar top level ...)
)

// ParseError carries the class of the first defect found.
type ParseError struct {
	Class string
	Pos   int
	Msg   string
}

func (e *ParseError) Error() string { return fmt.Sprintf("%s at %d: %s", e.Class, e.Pos, e.Msg) }

type parser struct {
	b   []byte
	pos int
}

func (p *parser) fail(class, msg string) *ParseError {
	return &ParseError{Class: class, Pos: p.pos, Msg: msg}
}

func (p *parser) ws() {
	for p.pos < len(p.b) {
		switch p.b[p.pos] {
		case ' ', '\t', '\n', '\r':
			p.pos++
		default:
			return
		}
	}
}

// Parse parses a complete JSON text whose top level is an object or an array.
func Parse(b []byte) (*Value, *ParseError) {
	p := &parser{b: b}
	p.ws()
	if p.pos >= len(p.b) {
		return nil, p.fail(ErrOther, "empty input")
	}
	if p.b[p.pos] != '{' && p.b[p.pos] != '[' {
		return nil, p.fail(ErrOther, "top level is not an object or array")
	}
	v, err := p.value(0)
	if err != nil {
		return nil, err
	}
	p.ws()
	if p.pos != len(p.b) {
		return nil, p.fail(ErrTrailing, "content after top-level value")
	}
	return v, nil
}

// ParseAny parses a JSON text with any top-level value.
func ParseAny(b []byte) (*Value, *ParseError) {
	p := &parser{b: b}
	p.ws()
	v, err := p.value(0)
	if err != nil {
		return nil, err
	}
	p.ws()
	if p.pos != len(p.b) {
		return nil, p.fail(ErrTrailing, "content after top-level value")
	}
	return v, nil
}

const maxDepth = 2000

func (p *parser) value(depth int) (*Value, *ParseError) {
	if depth > maxDepth {
		return nil, p.fail(ErrOther, "too deep")
	}
	p.ws()
	if p.pos >= len(p.b) {
		return nil, p.fail(ErrUnterminated, "unexpected end of input")
	}
	switch c := p.b[p.pos]; {
	case c == '{':
		return p.object(depth)
	case c == '[':
		return p.array(depth)
	case c == '"':
		s, err := p.str()
		if err != nil {
			return nil, err
		}
		return &Value{Kind: String, Str: s}, nil
	case c == 't':
		return p.lit("true", &Value{Kind: Bool, B: true})
	case c == 'f':
		return p.lit("false", &Value{Kind: Bool, B: false})
	case c == 'n':
		return p.lit("null", &Value{Kind: Null})
	case c == '-' || (c >= '0' && c <= '9'):
		return p.number()
	default:
		return nil, p.fail(ErrOther, fmt.Sprintf("unexpected character %q", c))
	}
}

func (p *parser) lit(word string, v *Value) (*Value, *ParseError) {
	if p.pos+len(word) > len(p.b) {
		if strings.HasPrefix(word, string(p.b[p.pos:])) {
			return nil, p.fail(ErrUnterminated, "truncated literal")
		}
		return nil, p.fail(ErrOther, "bad literal")
	}
	if string(p.b[p.pos:p.pos+len(word)]) != word {
		return nil, p.fail(ErrOther, "bad literal")
	}
	p.pos += len(word)
	return v, nil
}

func (p *parser) number() (*Value, *ParseError) {
	start := p.pos
	i := p.pos
	n := len(p.b)
	if i < n && p.b[i] == '-' {
		i++
	}
	if i >= n {
		return nil, p.fail(ErrOther, "bad number")
	}
	if p.b[i] == '0' {
		i++
	} else if p.b[i] >= '1' && p.b[i] <= '9' {
		for i < n && p.b[i] >= '0' && p.b[i] <= '9' {
			i++
		}
	} else {
		return nil, p.fail(ErrOther, "bad number")
	}
	if i < n && p.b[i] == '.' {
		i++
		j := i
		for i < n && p.b[i] >= '0' && p.b[i] <= '9' {
			i++
		}
		if i == j {
			return nil, p.fail(ErrOther, "bad number fraction")
		}
	}
	if i < n && (p.b[i] == 'e' || p.b[i] == 'E') {
		i++
		if i < n && (p.b[i] == '+' || p.b[i] == '-') {
			i++
		}
		j := i
		for i < n && p.b[i] >= '0' && p.b[i] <= '9' {
			i++
		}
		if i == j {
			return nil, p.fail(ErrOther, "bad number exponent")
		}
	}
	// a number must be followed by a structural character, whitespace or end of input
	if i < n {
		switch p.b[i] {
		case ',', ']', '}', ' ', '\t', '\n', '\r':
		default:
			return nil, p.fail(ErrOther, "bad number tail")
		}
	}
	f, err := ParseDouble(string(p.b[start:i]))
	if err != nil || math.IsInf(f, 0) || math.IsNaN(f) {
		return nil, p.fail(ErrOther, "number out of range")
	}
	p.pos = i
	return &Value{Kind: Number, Num: f}, nil
}

func hex4(b []byte) (rune, bool) {
	if len(b) < 4 {
		return 0, false
	}
	var r rune
	for _, c := range b[:4] {
		r <<= 4
		switch {
		case c >= '0' && c <= '9':
			r |= rune(c - '0')
		case c >= 'a' && c <= 'f':
			r |= rune(c-'a') + 10
		case c >= 'A' && c <= 'F':
			r |= rune(c-'A') + 10
		default:
			return 0, false
		}
	}
	return r, true
}

func (p *parser) str() (string, *ParseError) {
	// p.b[p.pos] == '"'
	p.pos++
	var sb strings.Builder
	for {
		if p.pos >= len(p.b) {
			return "", p.fail(ErrUnterminated, "unterminated string")
		}
		c := p.b[p.pos]
		switch {
		case c == '"':
			p.pos++
			return sb.String(), nil
		case c < 0x20:
			return "", p.fail(ErrControl, "raw control character in string")
		case c == '\\':
			p.pos++
			if p.pos >= len(p.b) {
				return "", p.fail(ErrUnterminated, "unterminated escape")
			}
			e := p.b[p.pos]
			p.pos++
			switch e {
			case '"':
				sb.WriteByte('"')
			case '\\':
				sb.WriteByte('\\')
			case '/':
				sb.WriteByte('/')
			case 'b':
				sb.WriteByte('\b')
			case 'f':
				sb.WriteByte('\f')
			case 'n':
				sb.WriteByte('\n')
			case 'r':
				sb.WriteByte('\r')
			case 't':
				sb.WriteByte('\t')
			case 'u':
				r, ok := hex4(p.b[p.pos:])
				if !ok {
					if len(p.b)-p.pos < 4 && allHexOrQuote(p.b[p.pos:]) {
						return "", p.fail(ErrUnterminated, "truncated \\u escape")
					}
					return "", p.fail(ErrEscape, "bad \\u escape")
				}
				p.pos += 4
				switch {
				case r >= 0xD800 && r <= 0xDBFF:
					// must be followed by a \u low surrogate
					if p.pos+6 <= len(p.b) && p.b[p.pos] == '\\' && p.b[p.pos+1] == 'u' {
						r2, ok2 := hex4(p.b[p.pos+2:])
						if !ok2 {
							return "", p.fail(ErrEscape, "bad \\u escape")
						}
						if r2 < 0xDC00 || r2 > 0xDFFF {
							return "", p.fail(ErrSurrogate, "high surrogate not followed by low surrogate")
						}
						p.pos += 6
						sb.WriteRune(utf16.DecodeRune(r, r2))
					} else {
						return "", p.fail(ErrSurrogate, "lone high surrogate")
					}
				case r >= 0xDC00 && r <= 0xDFFF:
					return "", p.fail(ErrSurrogate, "lone low surrogate")
				default:
					sb.WriteRune(r)
				}
			default:
				return "", p.fail(ErrEscape, fmt.Sprintf("invalid escape \\%c", e))
			}
		case c < 0x80:
			sb.WriteByte(c)
			p.pos++
		default:
			r, size := utf8.DecodeRune(p.b[p.pos:])
			if r == utf8.RuneError && size <= 1 {
				return "", p.fail(ErrOther, "invalid UTF-8")
			}
			sb.WriteString(string(p.b[p.pos : p.pos+size]))
			p.pos += size
		}
	}
}

func allHexOrQuote(b []byte) bool {
	for _, c := range b {
		if !((c >= '0' && c <= '9') || (c >= 'a' && c <= 'f') || (c >= 'A' && c <= 'F')) {
			return false
		}
	}
	return true
}

func (p *parser) array(depth int) (*Value, *ParseError) {
	p.pos++ // [
	v := &Value{Kind: Array, Arr: []*Value{}}
	p.ws()
	if p.pos < len(p.b) && p.b[p.pos] == ']' {
		p.pos++
		return v, nil
	}
	for {
		e, err := p.value(depth + 1)
		if err != nil {
			return nil, err
		}
		v.Arr = append(v.Arr, e)
		p.ws()
		if p.pos >= len(p.b) {
			return nil, p.fail(ErrUnterminated, "unterminated array")
		}
		switch p.b[p.pos] {
		case ',':
			p.pos++
		case ']':
			p.pos++
			return v, nil
		default:
			return nil, p.fail(ErrOther, "expected , or ] in array")
		}
	}
}

func (p *parser) object(depth int) (*Value, *ParseError) {
	p.pos++ // {
	v := &Value{Kind: Object, Obj: []Member{}}
	seen := map[string]bool{}
	p.ws()
	if p.pos < len(p.b) && p.b[p.pos] == '}' {
		p.pos++
		return v, nil
	}
	for {
		p.ws()
		if p.pos >= len(p.b) {
			return nil, p.fail(ErrUnterminated, "unterminated object")
		}
		if p.b[p.pos] != '"' {
			return nil, p.fail(ErrOther, "expected member name")
		}
		name, err := p.str()
		if err != nil {
			return nil, err
		}
		p.ws()
		if p.pos >= len(p.b) {
			return nil, p.fail(ErrUnterminated, "unterminated object")
		}
		if p.b[p.pos] != ':' {
			return nil, p.fail(ErrOther, "expected :")
		}
		p.pos++
		val, err := p.value(depth + 1)
		if err != nil {
			return nil, err
		}
		if seen[name] {
			return nil, p.fail(ErrDuplicate, "duplicate member name "+strconv.Quote(name))
		}
		seen[name] = true
		v.Obj = append(v.Obj, Member{Name: name, Val: val})
		p.ws()
		if p.pos >= len(p.b) {
			return nil, p.fail(ErrUnterminated, "unterminated object")
		}
		switch p.b[p.pos] {
		case ',':
			p.pos++
		case '}':
			p.pos++
			return v, nil
		default:
			return nil, p.fail(ErrOther, "expected , or } in object")
		}
	}
}

// ---------------------------------------------------------------------------------------------
// canonical serialization

// Canonical returns the RFC 8785 serialization of v.
func Canonical(v *Value) ([]byte, error) {
	var sb strings.Builder
	if err := writeCanon(&sb, v); err != nil {
		return nil, err
	}
	return []byte(sb.String()), nil
}

// Transform parses b and returns its canonical form.
func Transform(b []byte) ([]byte, error) {
	v, perr := Parse(b)
	if perr != nil {
		return nil, perr
	}
	return Canonical(v)
}

func utf16Less(a, b string) bool {
	ua, ub := utf16.Encode([]rune(a)), utf16.Encode([]rune(b))
	for i := 0; i < len(ua) && i < len(ub); i++ {
		if ua[i] != ub[i] {
			return ua[i] < ub[i]
		}
	}
	return len(ua) < len(ub)
}

func writeCanon(sb *strings.Builder, v *Value) error {
	switch v.Kind {
	case Null:
		sb.WriteString("null")
	case Bool:
		if v.B {
			sb.WriteString("true")
		} else {
			sb.WriteString("false")
		}
	case Number:
		s, err := NumberString(v.Num)
		if err != nil {
			return err
		}
		sb.WriteString(s)
	case String:
		writeString(sb, v.Str)
	case Array:
		sb.WriteByte('[')
		for i, e := range v.Arr {
			if i > 0 {
				sb.WriteByte(',')
			}
			if err := writeCanon(sb, e); err != nil {
				return err
			}
		}
		sb.WriteByte(']')
	case Object:
		ms := make([]Member, len(v.Obj))
		copy(ms, v.Obj)
		sort.SliceStable(ms, func(i, j int) bool { return utf16Less(ms[i].Name, ms[j].Name) })
		sb.WriteByte('{')
		for i, m := range ms {
			if i > 0 {
				sb.WriteByte(',')
			}
			writeString(sb, m.Name)
			sb.WriteByte(':')
			if err := writeCanon(sb, m.Val); err != nil {
				return err
			}
		}
		sb.WriteByte('}')
	}
	return nil
}

func writeString(sb *strings.Builder, s string) {
	sb.WriteByte('"')
	for _, r := range s {
		switch r {
		case '"':
			sb.WriteString(`\"`)
		case '\\':
			sb.WriteString(`\\`)
		case '\b':
			sb.WriteString(`\b`)
		case '\f':
			sb.WriteString(`\f`)
		case '\n':
			sb.WriteString(`\n`)
		case '\r':
			sb.WriteString(`\r`)
		case '\t':
			sb.WriteString(`\t`)
		default:
			if r < 0x20 {
				fmt.Fprintf(sb, `\u%04x`, r)
			} else {
				sb.WriteRune(r)
			}
		}
	}
	sb.WriteByte('"')
}

// NumberString formats a finite double by the ECMAScript Number::toString algorithm, laid out from the
// shortest round-trip digits strconv produces.
func NumberString(f float64) (string, error) {
	if math.IsNaN(f) || math.IsInf(f, 0) {
		return "", fmt.Errorf("number is not finite")
	}
	if f == 0 {
		return "0", nil
	}
	sign := ""
	if f < 0 {
		sign = "-"
		f = -f
	}
	e := strconv.FormatFloat(f, 'e', -1, 64) // d.ddddde±xx
	mant, expS, _ := strings.Cut(e, "e")
	exp, _ := strconv.Atoi(expS)
	digits := strings.Replace(mant, ".", "", 1)
	k := len(digits)
	n := exp + 1
	var out string
	switch {
	case k <= n && n <= 21:
		out = digits + strings.Repeat("0", n-k)
	case 0 < n && n <= 21:
		out = digits[:n] + "." + digits[n:]
	case -6 < n && n <= 0:
		out = "0." + strings.Repeat("0", -n) + digits
	default:
		ee := n - 1
		es := "+"
		if ee < 0 {
			es = "-"
			ee = -ee
		}
		if k == 1 {
			out = digits + "e" + es + strconv.Itoa(ee)
		} else {
			out = digits[:1] + "." + digits[1:] + "e" + es + strconv.Itoa(ee)
		}
	}
	return sign + out, nil
}

// ---------------------------------------------------------------------------------------------
// helpers

// Equal compares two values as JSON values (object member order is irrelevant; numbers by double value).
func Equal(a, b *Value) bool {
	if a.Kind != b.Kind {
		return false
	}
	switch a.Kind {
	case Null:
		return true
	case Bool:
		return a.B == b.B
	case Number:
		return a.Num == b.Num
	case String:
		return a.Str == b.Str
	case Array:
		if len(a.Arr) != len(b.Arr) {
			return false
		}
		for i := range a.Arr {
			if !Equal(a.Arr[i], b.Arr[i]) {
				return false
			}
		}
		return true
	default:
		if len(a.Obj) != len(b.Obj) {
			return false
		}
		m := map[string]*Value{}
		for _, x := range a.Obj {
			m[x.Name] = x.Val
		}
		for _, y := range b.Obj {
			x, ok := m[y.Name]
			if !ok || !Equal(x, y.Val) {
				return false
			}
		}
		return true
	}
}

// FromGo converts a Go value made of map[string]interface{}, []interface{}, string, float64, int, int64,
// uint64, bool, nil (the shapes the harness builds requests from) into a Value.
func FromGo(x interface{}) *Value {
	switch v := x.(type) {
	case nil:
		return &Value{Kind: Null}
	case *Value:
		return v
	case bool:
		return &Value{Kind: Bool, B: v}
	case string:
		return &Value{Kind: String, Str: v}
	case float64:
		return &Value{Kind: Number, Num: v}
	case int:
		return &Value{Kind: Number, Num: float64(v)}
	case int64:
		return &Value{Kind: Number, Num: float64(v)}
	case uint64:
		return &Value{Kind: Number, Num: float64(v)}
	case uint:
		return &Value{Kind: Number, Num: float64(v)}
	case []interface{}:
		out := &Value{Kind: Array, Arr: []*Value{}}
		for _, e := range v {
			out.Arr = append(out.Arr, FromGo(e))
		}
		return out
	case []string:
		out := &Value{Kind: Array, Arr: []*Value{}}
		for _, e := range v {
			out.Arr = append(out.Arr, FromGo(e))
		}
		return out
	case []map[string]interface{}:
		out := &Value{Kind: Array, Arr: []*Value{}}
		for _, e := range v {
			out.Arr = append(out.Arr, FromGo(e))
		}
		return out
	case map[string]interface{}:
		out := &Value{Kind: Object, Obj: []Member{}}
		names := make([]string, 0, len(v))
		for k := range v {
			names = append(names, k)
		}
		sort.Strings(names)
		for _, k := range names {
			out.Obj = append(out.Obj, Member{Name: k, Val: FromGo(v[k])})
		}
		return out
	default:
		panic(fmt.Sprintf("refjcs.FromGo: unsupported type %T", x))
	}
}

// ToGo converts a Value into plain Go values (map[string]interface{}, []interface{}, float64 ...).
func ToGo(v *Value) interface{} {
	switch v.Kind {
	case Null:
		return nil
	case Bool:
		return v.B
	case Number:
		return v.Num
	case String:
		return v.Str
	case Array:
		out := make([]interface{}, 0, len(v.Arr))
		for _, e := range v.Arr {
			out = append(out, ToGo(e))
		}
		return out
	default:
		out := map[string]interface{}{}
		for _, m := range v.Obj {
			out[m.Name] = ToGo(m.Val)
		}
		return out
	}
}

// MustCanonicalGo canonicalizes a Go value built from maps/slices (see FromGo).
func MustCanonicalGo(x interface{}) []byte {
	b, err := Canonical(FromGo(x))
	if err != nil {
		panic(err)
	}
	return b
}

// ParseDouble converts an RFC 8259 number literal to the nearest double. Short literals go through strconv; long
// ones (strconv.ParseFloat keeps 800 digits and has been observed to misplace the decimal point beyond that, and to
// stop reading exponents at 10000) are evaluated exactly with math/big.
func ParseDouble(tok string) (float64, error) {
	if len(tok) <= 300 {
		return strconv.ParseFloat(tok, 64)
	}
	mant, expS := tok, ""
	if i := strings.IndexAny(tok, "eE"); i >= 0 {
		mant, expS = tok[:i], tok[i+1:]
	}
	exp := new(big.Int)
	if expS != "" {
		if _, ok := exp.SetString(strings.TrimPrefix(expS, "+"), 10); !ok {
			return 0, fmt.Errorf("bad exponent in %q", tok)
		}
	}
	neg := strings.HasPrefix(mant, "-")
	digits := strings.Replace(strings.TrimPrefix(mant, "-"), ".", "", 1)
	if strings.Trim(digits, "0") == "" {
		if neg {
			return math.Copysign(0, -1), nil
		}
		return 0, nil
	}
	bound := big.NewInt(int64(len(tok)) + 400)
	if exp.CmpAbs(bound) > 0 {
		// far outside the double range whatever the digits are
		if exp.Sign() > 0 {
			return math.Inf(1), fmt.Errorf("number out of range")
		}
		if neg {
			return math.Copysign(0, -1), nil
		}
		return 0, nil
	}
	// value = digits x 10^(exp - number of fraction digits), as an exact fraction (Rat.SetString refuses literals whose
	// exponent exceeds a million)
	frac := 0
	if i := strings.IndexByte(mant, '.'); i >= 0 {
		frac = len(mant) - i - 1
	}
	m, ok := new(big.Int).SetString(digits, 10)
	if !ok {
		return 0, fmt.Errorf("bad number %q", tok)
	}
	e := new(big.Int).Sub(exp, big.NewInt(int64(frac)))
	p10 := new(big.Int).Exp(big.NewInt(10), new(big.Int).Abs(e), nil)
	r := new(big.Rat)
	if e.Sign() >= 0 {
		r.SetInt(m.Mul(m, p10))
	} else {
		r.SetFrac(m, p10)
	}
	if neg {
		r.Neg(r)
	}
	f, _ := r.Float64()
	return f, nil
}
