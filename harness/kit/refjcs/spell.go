package refjcs

import (
	"fmt"
	"math"
	"math/big"
	"strconv"
	"strings"
	"unicode/utf16"
)

// Chooser supplies the random choices of a re-serialization (backed by rapid draws or fuzz bytes).
type Chooser interface {
	// Intn returns a value in [0, n).
	Intn(n int) int
}

// FixedChooser always returns 0 (the plainest spelling).
type FixedChooser struct{}

// Intn implements Chooser.
func (FixedChooser) Intn(int) int { return 0 }

// SpellOpts selects which freedoms a re-serialization uses.
type SpellOpts struct {
	Order      bool // permute object members
	Whitespace bool
	Escapes    bool
	Numbers    bool
}

// AllSpell enables every freedom.
var AllSpell = SpellOpts{Order: true, Whitespace: true, Escapes: true, Numbers: true}

// Spell serializes v as some JSON text denoting the same value.
func Spell(v *Value, c Chooser, o SpellOpts) []byte {
	var sb strings.Builder
	spell(&sb, v, c, o)
	ws(&sb, c, o)
	return []byte(sb.String())
}

func ws(sb *strings.Builder, c Chooser, o SpellOpts) {
	if !o.Whitespace {
		return
	}
	n := c.Intn(4)
	if n < 2 {
		return
	}
	for i := 0; i < n-1; i++ {
		sb.WriteByte(" \t\n\r"[c.Intn(4)])
	}
}

func spell(sb *strings.Builder, v *Value, c Chooser, o SpellOpts) {
	ws(sb, c, o)
	switch v.Kind {
	case Null:
		sb.WriteString("null")
	case Bool:
		if v.B {
			sb.WriteString("true")
		} else {
			sb.WriteString("false")
		}
	case Number:
		sb.WriteString(SpellNumber(v.Num, c, o))
	case String:
		SpellString(sb, v.Str, c, o)
	case Array:
		sb.WriteByte('[')
		for i, e := range v.Arr {
			if i > 0 {
				ws(sb, c, o)
				sb.WriteByte(',')
			}
			spell(sb, e, c, o)
		}
		ws(sb, c, o)
		sb.WriteByte(']')
	case Object:
		ms := make([]Member, len(v.Obj))
		copy(ms, v.Obj)
		if o.Order {
			for i := len(ms) - 1; i > 0; i-- {
				j := c.Intn(i + 1)
				ms[i], ms[j] = ms[j], ms[i]
			}
		}
		sb.WriteByte('{')
		for i, m := range ms {
			if i > 0 {
				ws(sb, c, o)
				sb.WriteByte(',')
			}
			ws(sb, c, o)
			SpellString(sb, m.Name, c, o)
			ws(sb, c, o)
			sb.WriteByte(':')
			spell(sb, m.Val, c, o)
		}
		ws(sb, c, o)
		sb.WriteByte('}')
	}
}

var shortEsc = map[rune]string{'"': `\"`, '\\': `\\`, '/': `\/`, '\b': `\b`, '\f': `\f`, '\n': `\n`, '\r': `\r`, '\t': `\t`}

func hex4s(u uint16, upper bool) string {
	if upper {
		return fmt.Sprintf(`\u%04X`, u)
	}
	return fmt.Sprintf(`\u%04x`, u)
}

// SpellString writes s as a JSON string literal with drawn escape spellings.
func SpellString(sb *strings.Builder, s string, c Chooser, o SpellOpts) {
	sb.WriteByte('"')
	for _, r := range s {
		must := r < 0x20 || r == '"' || r == '\\'
		mode := 0 // 0 raw, 1 short, 2 \u lower, 3 \u upper
		if o.Escapes {
			mode = c.Intn(6)
			if mode > 3 {
				mode = 0
			}
		}
		if must && mode == 0 {
			mode = 1
		}
		se, hasShort := shortEsc[r]
		if mode == 1 && !hasShort {
			if must {
				mode = 2
			} else {
				mode = 0
			}
		}
		switch mode {
		case 0:
			sb.WriteRune(r)
		case 1:
			sb.WriteString(se)
		default:
			if r >= 0x10000 {
				r1, r2 := utf16.EncodeRune(r)
				sb.WriteString(hex4s(uint16(r1), mode == 3))
				sb.WriteString(hex4s(uint16(r2), c.Intn(2) == 1))
			} else {
				sb.WriteString(hex4s(uint16(r), mode == 3))
			}
		}
	}
	sb.WriteByte('"')
}

func sameDouble(s string, f float64) bool {
	g, err := ParseDouble(s)
	if err != nil {
		return false
	}
	if f == 0 {
		return g == 0
	}
	return math.Float64bits(g) == math.Float64bits(f)
}

// SpellNumber returns some RFC 8259 number literal denoting exactly f.
func SpellNumber(f float64, c Chooser, o SpellOpts) string {
	canon, err := NumberString(f)
	if err != nil {
		panic(err)
	}
	if !o.Numbers {
		return canon
	}
	var cands []string
	cands = append(cands, canon)
	if f == 0 {
		cands = append(cands, "-0", "0.0", "-0.0", "0e0", "0E-5", "0.000e+3", "-0e99")
	} else {
		e := strconv.FormatFloat(f, 'e', -1, 64)
		cands = append(cands, e, strings.ToUpper(e), strings.Replace(e, "e+", "e", 1), strings.Replace(strings.Replace(e, "e+", "e+00", 1), "e-", "e-00", 1))
		cands = append(cands, strconv.FormatFloat(f, 'e', 20, 64), strconv.FormatFloat(f, 'E', 25, 64))
		abs := math.Abs(f)
		if abs < 1e25 && abs > 1e-25 {
			fx := strconv.FormatFloat(f, 'f', -1, 64)
			cands = append(cands, fx)
			if !strings.Contains(fx, ".") {
				cands = append(cands, fx+".0", fx+".000")
			} else {
				cands = append(cands, fx+"0", fx+"000")
			}
			cands = append(cands, strconv.FormatFloat(f, 'f', 40, 64))
		}
		if abs >= 1<<53 && abs < 1e25 && abs == math.Trunc(abs) {
			// other integer spellings of the same double: its exact decimal expansion and neighbours that round to it
			bi, _ := new(big.Float).SetFloat64(abs).Int(nil)
			sg := ""
			if f < 0 {
				sg = "-"
			}
			for _, d := range []int64{0, 1, -1, 7, -13, 100, -255} {
				cands = append(cands, sg+new(big.Int).Add(bi, big.NewInt(d)).String())
			}
			cands = append(cands, sg+bi.String(), sg+bi.String()) // weight
		}
		// shift the decimal point: d.ddd e x  ==  ddd.d e (x-2) ...
		mant, expS, _ := strings.Cut(e, "e")
		exp, _ := strconv.Atoi(expS)
		neg := strings.HasPrefix(mant, "-")
		digits := strings.Replace(strings.TrimPrefix(mant, "-"), ".", "", 1)
		sign := ""
		if neg {
			sign = "-"
		}
		cands = append(cands, fmt.Sprintf("%s%se%d", sign, digits, exp-(len(digits)-1)))
		cands = append(cands, fmt.Sprintf("%s0.%se%d", sign, digits, exp+1))
		cands = append(cands, fmt.Sprintf("%s0.000%sE%d", sign, digits, exp+4))
		// very long literals: hundreds of zeros behind the digits (compensated by the exponent) or in front of them
		z := 750 + c.Intn(600)
		cands = append(cands, fmt.Sprintf("%s%s%se%d", sign, digits, strings.Repeat("0", z), exp-(len(digits)-1)-z))
		cands = append(cands, fmt.Sprintf("%s0.%s%se%d", sign, strings.Repeat("0", z), digits, exp+1+z))
	}
	for tries := 0; tries < 4; tries++ {
		s := cands[c.Intn(len(cands))]
		if validNumberSyntax(s) && sameDouble(s, f) {
			return s
		}
	}
	return canon
}

func validNumberSyntax(s string) bool {
	p := &parser{b: []byte(s)}
	v, err := p.number()
	return err == nil && v != nil && p.pos == len(s)
}
