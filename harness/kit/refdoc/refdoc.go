// Package refdoc is the independent ordered-set document model: three ordered, id-keyed sections (public
// keys, services, also-known-as URIs) plus other top-level members, with the patch rules of the property
// statements C17 / C19 and an independent projection to the external DID document. It imports nothing from
// the library under test.
package refdoc

import (
	"encoding/json"
	"fmt"
	"reflect"
	"sort"
	"strings"
)

// Doc is the reference document.
type Doc struct {
	Keys     []map[string]interface{}
	Services []map[string]interface{}
	AKA      []string
	Other    map[string]interface{}
}

// New returns the empty document.
func New() *Doc { return &Doc{Other: map[string]interface{}{}} }

func deep(v interface{}) interface{} {
	b, _ := json.Marshal(v)
	var o interface{}
	_ = json.Unmarshal(b, &o)
	return o
}

// Clone deep-copies a document.
func (d *Doc) Clone() *Doc {
	c := New()
	for _, k := range d.Keys {
		c.Keys = append(c.Keys, deep(k).(map[string]interface{}))
	}
	for _, s := range d.Services {
		c.Services = append(c.Services, deep(s).(map[string]interface{}))
	}
	c.AKA = append(c.AKA, d.AKA...)
	for k, v := range d.Other {
		c.Other[k] = deep(v)
	}
	return c
}

func id(m map[string]interface{}) string {
	s, _ := m["id"].(string)
	return s
}

func objects(v interface{}) []map[string]interface{} {
	l, _ := v.([]interface{})
	var out []map[string]interface{}
	for _, e := range l {
		if m, ok := e.(map[string]interface{}); ok {
			out = append(out, deep(m).(map[string]interface{}))
		}
	}
	return out
}

func stringsOf(v interface{}) []string {
	l, _ := v.([]interface{})
	var out []string
	for _, e := range l {
		if s, ok := e.(string); ok {
			out = append(out, s)
		}
	}
	return out
}

func upsert(list []map[string]interface{}, add []map[string]interface{}) []map[string]interface{} {
	for _, a := range add {
		replaced := false
		for i := range list {
			if id(list[i]) == id(a) {
				list[i] = a
				replaced = true
			}
		}
		if !replaced {
			list = append(list, a)
		}
	}
	return list
}

func remove(list []map[string]interface{}, ids []string) []map[string]interface{} {
	var out []map[string]interface{}
	for _, e := range list {
		drop := false
		for _, i := range ids {
			if id(e) == i {
				drop = true
			}
		}
		if !drop {
			out = append(out, e)
		}
	}
	return out
}

// ErrUnsupported marks patches whose effect the model does not define (the caller must not generate them
// when it wants a prediction).
var ErrUnsupported = fmt.Errorf("refdoc: patch outside the modelled subset")

// Apply applies a patch list atomically: it returns a new document or an error, never a partial result.
func Apply(d *Doc, patches []interface{}) (*Doc, error) {
	cur := d.Clone()
	for i, p := range patches {
		pm, ok := p.(map[string]interface{})
		if !ok {
			return nil, fmt.Errorf("patch %d is not an object", i)
		}
		next, err := applyOne(cur, pm)
		if err != nil {
			return nil, fmt.Errorf("patch %d: %w", i, err)
		}
		cur = next
	}
	return cur, nil
}

func applyOne(d *Doc, p map[string]interface{}) (*Doc, error) {
	action, _ := p["action"].(string)
	switch action {
	case "add-public-keys":
		v, ok := p["publicKeys"]
		if !ok {
			return nil, fmt.Errorf("missing publicKeys")
		}
		d.Keys = upsert(d.Keys, objects(v))
	case "remove-public-keys":
		v, ok := p["ids"]
		if !ok {
			return nil, fmt.Errorf("missing ids")
		}
		d.Keys = remove(d.Keys, stringsOf(v))
	case "add-services":
		v, ok := p["services"]
		if !ok {
			return nil, fmt.Errorf("missing services")
		}
		d.Services = upsert(d.Services, objects(v))
	case "remove-services":
		v, ok := p["ids"]
		if !ok {
			return nil, fmt.Errorf("missing ids")
		}
		d.Services = remove(d.Services, stringsOf(v))
	case "add-also-known-as":
		v, ok := p["uris"]
		if !ok {
			return nil, fmt.Errorf("missing uris")
		}
		for _, u := range stringsOf(v) {
			present := false
			for _, e := range d.AKA {
				if e == u {
					present = true
				}
			}
			if !present {
				d.AKA = append(d.AKA, u)
			}
		}
	case "remove-also-known-as":
		v, ok := p["uris"]
		if !ok {
			return nil, fmt.Errorf("missing uris")
		}
		rm := stringsOf(v)
		var out []string
		for _, e := range d.AKA {
			drop := false
			for _, u := range rm {
				if e == u {
					drop = true
				}
			}
			if !drop {
				out = append(out, e)
			}
		}
		d.AKA = out
	case "replace":
		v, ok := p["document"]
		if !ok {
			return nil, fmt.Errorf("missing document")
		}
		m, _ := v.(map[string]interface{})
		n := New()
		n.Keys = objects(m["publicKeys"])
		n.Services = objects(m["services"])
		return n, nil
	case "ietf-json-patch":
		v, ok := p["patches"]
		if !ok {
			return nil, fmt.Errorf("missing patches")
		}
		ops, _ := v.([]interface{})
		for _, o := range ops {
			om, _ := o.(map[string]interface{})
			op, _ := om["op"].(string)
			path, _ := om["path"].(string)
			if !strings.HasPrefix(path, "/") || strings.Contains(path[1:], "/") || strings.ContainsAny(path, "~") {
				return nil, ErrUnsupported
			}
			name := path[1:]
			if name == "publicKey" || name == "service" || name == "alsoKnownAs" || name == "" {
				return nil, ErrUnsupported
			}
			switch op {
			case "add":
				val, has := om["value"]
				if !has || val == nil {
					return nil, ErrUnsupported
				}
				d.Other[name] = deep(val)
			case "replace":
				val, has := om["value"]
				if !has || val == nil {
					return nil, ErrUnsupported
				}
				if _, ok := d.Other[name]; !ok {
					// what a json-patch engine does with "replace" of an absent member is not part of any statement
					return nil, ErrUnsupported
				}
				d.Other[name] = deep(val)
			case "remove":
				if _, ok := d.Other[name]; !ok {
					return nil, fmt.Errorf("remove of missing member %s", name)
				}
				delete(d.Other, name)
			case "test":
				val, has := om["value"]
				if !has {
					return nil, ErrUnsupported
				}
				cur, ok := d.Other[name]
				if !ok || !reflect.DeepEqual(deep(cur), deep(val)) {
					return nil, fmt.Errorf("test failed for %s", name)
				}
			default:
				return nil, ErrUnsupported
			}
		}
	default:
		return nil, fmt.Errorf("unknown action %q", action)
	}
	return d, nil
}

// ToMap renders the document in the library's internal shape (publicKey / service / alsoKnownAs sections
// present only when non-empty).
func (d *Doc) ToMap() map[string]interface{} {
	m := map[string]interface{}{}
	for k, v := range d.Other {
		m[k] = deep(v)
	}
	if len(d.Keys) > 0 {
		var l []interface{}
		for _, k := range d.Keys {
			l = append(l, deep(k))
		}
		m["publicKey"] = l
	}
	if len(d.Services) > 0 {
		var l []interface{}
		for _, s := range d.Services {
			l = append(l, deep(s))
		}
		m["service"] = l
	}
	if len(d.AKA) > 0 {
		var l []interface{}
		for _, u := range d.AKA {
			l = append(l, u)
		}
		m["alsoKnownAs"] = l
	}
	return m
}

// FromMap reads a document in the library's internal shape.
func FromMap(m map[string]interface{}) *Doc {
	d := New()
	for k, v := range m {
		switch k {
		case "publicKey":
			d.Keys = objects(v)
		case "service":
			d.Services = objects(v)
		case "alsoKnownAs":
			d.AKA = stringsOf(v)
		default:
			d.Other[k] = deep(v)
		}
	}
	return d
}

// Normalize maps an internal document (as produced by the library) to the comparison form in which an absent,
// null or empty section are the same thing.
func Normalize(m map[string]interface{}) map[string]interface{} {
	if m == nil {
		return nil
	}
	out := deep(m).(map[string]interface{})
	for _, sec := range []string{"publicKey", "service", "alsoKnownAs"} {
		v, ok := out[sec]
		if !ok {
			continue
		}
		if v == nil {
			delete(out, sec)
			continue
		}
		if l, isList := v.([]interface{}); isList && len(l) == 0 {
			delete(out, sec)
		}
	}
	return out
}

// Equal compares a library document with the reference document (sections absent == null == empty).
func Equal(impl map[string]interface{}, ref *Doc) bool {
	return reflect.DeepEqual(Normalize(impl), Normalize(ref.ToMap()))
}

// Diff names the differing top-level members.
func Diff(impl map[string]interface{}, ref *Doc) []string {
	a, b := Normalize(impl), Normalize(ref.ToMap())
	seen := map[string]bool{}
	var out []string
	for k := range a {
		seen[k] = true
		if !reflect.DeepEqual(a[k], b[k]) {
			out = append(out, k)
		}
	}
	for k := range b {
		if !seen[k] {
			out = append(out, k)
		}
	}
	sort.Strings(out)
	return out
}
