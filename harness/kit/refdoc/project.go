package refdoc

import (
	"encoding/base64"
	"fmt"
	"math/big"
	"reflect"
	"time"
)

const b58Alphabet = "123456789ABCDEFGHJKLMNPQRSTUVWXYZabcdefghijkmnopqrstuvwxyz"

// Base58 encodes with the Bitcoin alphabet (own implementation).
func Base58(b []byte) string {
	zeros := 0
	for zeros < len(b) && b[zeros] == 0 {
		zeros++
	}
	n := new(big.Int).SetBytes(b)
	radix := big.NewInt(58)
	mod := new(big.Int)
	var out []byte
	for n.Sign() > 0 {
		n.DivMod(n, radix, mod)
		out = append(out, b58Alphabet[mod.Int64()])
	}
	for i := 0; i < zeros; i++ {
		out = append(out, '1')
	}
	for i, j := 0, len(out)-1; i < j; i, j = i+1, j-1 {
		out[i], out[j] = out[j], out[i]
	}
	return string(out)
}

// ProjectOpts are the transformer options.
type ProjectOpts struct {
	Base          bool
	MethodContext []string
}

var keyContexts = map[string]string{
	"Bls12381G2Key2020":                 "https://w3id.org/security/suites/bls12381-2020/v1",
	"JsonWebKey2020":                    "https://w3id.org/security/suites/jws-2020/v1",
	"EcdsaSecp256k1VerificationKey2019": "https://w3id.org/security/suites/secp256k1-2019/v1",
	"Ed25519VerificationKey2018":        "https://w3id.org/security/suites/ed25519-2018/v1",
	"Ed25519VerificationKey2020":        "https://w3id.org/security/suites/ed25519-2020/v1",
	"X25519KeyAgreementKey2019":         "https://w3id.org/security/suites/x25519-2019/v1",
}

var purposeSection = map[string]string{
	"authentication":       "authentication",
	"assertionMethod":      "assertionMethod",
	"keyAgreement":         "keyAgreement",
	"capabilityDelegation": "capabilityDelegation",
	"capabilityInvocation": "capabilityInvocation",
}

// Project is the independent projection of an internal document to the external DID document.
func Project(d *Doc, did string, o ProjectOpts) (map[string]interface{}, error) {
	out := map[string]interface{}{"id": did}
	ctx := []interface{}{"https://www.w3.org/ns/did/v1"}
	for _, c := range o.MethodContext {
		ctx = append(ctx, c)
	}
	if o.Base {
		ctx = append(ctx, map[string]interface{}{"@base": did})
	}
	qual := func(id string) string {
		if o.Base {
			return "#" + id
		}
		return did + "#" + id
	}
	if len(d.AKA) > 0 {
		var l []interface{}
		for _, u := range d.AKA {
			l = append(l, u)
		}
		out["alsoKnownAs"] = l
	}
	sections := map[string][]interface{}{}
	var vms []interface{}
	usedCtx := map[string]bool{}
	for _, k := range d.Keys {
		kid, _ := k["id"].(string)
		typ, _ := k["type"].(string)
		vm := map[string]interface{}{"id": qual(kid), "type": typ, "controller": did}
		if jwk, ok := k["publicKeyJwk"].(map[string]interface{}); ok {
			switch typ {
			case "Ed25519VerificationKey2018", "Ed25519VerificationKey2020":
				xs, _ := jwk["x"].(string)
				x, err := base64.RawURLEncoding.DecodeString(xs)
				if err != nil || len(x) != 32 {
					return nil, fmt.Errorf("key %s: not a 32-byte Ed25519 JWK", kid)
				}
				if typ == "Ed25519VerificationKey2018" {
					vm["publicKeyBase58"] = Base58(x)
				} else {
					vm["publicKeyMultibase"] = "z" + Base58(x)
				}
			default:
				vm["publicKeyJwk"] = deep(jwk)
			}
		} else if b58, ok := k["publicKeyBase58"].(string); ok && b58 != "" {
			vm["publicKeyBase58"] = b58
		} else {
			vm["publicKeyJwk"] = nil
		}
		vms = append(vms, vm)
		c, ok := keyContexts[typ]
		if !ok {
			return nil, fmt.Errorf("key %s: no context for type %s", kid, typ)
		}
		if !usedCtx[c] {
			usedCtx[c] = true
			ctx = append(ctx, c)
		}
		if ps, ok := k["purposes"].([]interface{}); ok {
			for _, p := range ps {
				if s, ok := p.(string); ok {
					if sec, ok := purposeSection[s]; ok {
						sections[sec] = append(sections[sec], qual(kid))
					}
				}
			}
		}
	}
	if len(vms) > 0 {
		out["verificationMethod"] = vms
	}
	for sec, refs := range sections {
		out[sec] = refs
	}
	var svcs []interface{}
	for _, s := range d.Services {
		sid, _ := s["id"].(string)
		e := deep(s).(map[string]interface{})
		e["id"] = qual(sid)
		if _, ok := e["type"]; !ok {
			e["type"] = ""
		} else if _, isStr := e["type"].(string); !isStr {
			e["type"] = ""
		}
		if _, ok := e["serviceEndpoint"]; !ok {
			e["serviceEndpoint"] = nil
		}
		svcs = append(svcs, e)
	}
	if len(svcs) > 0 {
		out["service"] = svcs
	}
	out["@context"] = ctx
	return out, nil
}

// Model is the resolved state the metadata is derived from.
type Model struct {
	Update, Recovery string
	AnchorOrigin     interface{}
	Deactivated      bool
	VersionID        string
	CreatedTime      uint64
	UpdatedTime      uint64
}

// Info is the transformation info relevant to metadata.
type Info struct {
	Published   bool
	CanonicalID string
	Equivalent  []string
}

// RFC3339 formats unix seconds.
func RFC3339(t uint64) string { return time.Unix(int64(t), 0).UTC().Format(time.RFC3339) }

// Metadata is the independent rendering of the document metadata (without operation lists).
func Metadata(m Model, i Info) map[string]interface{} {
	method := map[string]interface{}{"published": i.Published}
	if m.Recovery != "" {
		method["recoveryCommitment"] = m.Recovery
	}
	if m.Update != "" {
		method["updateCommitment"] = m.Update
	}
	if m.AnchorOrigin != nil {
		method["anchorOrigin"] = deep(m.AnchorOrigin)
	}
	out := map[string]interface{}{"method": method}
	if m.Deactivated {
		out["deactivated"] = true
	}
	if i.CanonicalID != "" {
		out["canonicalId"] = i.CanonicalID
	}
	if len(i.Equivalent) > 0 {
		var l []interface{}
		for _, e := range i.Equivalent {
			l = append(l, e)
		}
		out["equivalentId"] = l
	}
	if i.Published {
		out["created"] = RFC3339(m.CreatedTime)
	}
	if m.VersionID != "" {
		out["versionId"] = m.VersionID
		if m.UpdatedTime > 0 {
			out["updated"] = RFC3339(m.UpdatedTime)
		}
	}
	return out
}

// ExternalKeys are the members of the external document the property statements speak about.
var ExternalKeys = []string{"@context", "id", "alsoKnownAs", "verificationMethod", "authentication", "assertionMethod", "keyAgreement", "capabilityDelegation", "capabilityInvocation", "service"}

func emptyish(v interface{}) bool {
	if v == nil {
		return true
	}
	if l, ok := v.([]interface{}); ok && len(l) == 0 {
		return true
	}
	return false
}

// DiffExternal compares an external document with the reference projection on the stated members only (an
// absent member equals an empty list); members the statements do not mention are ignored, except the internal
// publicKey section, which must never appear. It returns the names of the differing members.
func DiffExternal(got, want map[string]interface{}) []string {
	var out []string
	g, w := deep(got).(map[string]interface{}), deep(want).(map[string]interface{})
	for _, k := range ExternalKeys {
		gv, wv := g[k], w[k]
		if emptyish(gv) && emptyish(wv) {
			continue
		}
		if k == "@context" {
			// stated: the context of every key type used is included (and, in base mode, the @base entry that the
			// relative ids need); order and further contexts are left open
			gl, _ := gv.([]interface{})
			wl, _ := wv.([]interface{})
			for _, we := range wl {
				found := false
				for _, ge := range gl {
					if reflect.DeepEqual(ge, we) {
						found = true
					}
				}
				if !found {
					out = append(out, k)
					break
				}
			}
			continue
		}
		if !reflect.DeepEqual(gv, wv) {
			out = append(out, k)
		}
	}
	if _, leaked := g["publicKey"]; leaked {
		out = append(out, "publicKey(leaked)")
	}
	return out
}

// DiffMetadata compares document metadata with the reference rendering on the stated fields only: method.published,
// method.updateCommitment, method.recoveryCommitment, method.anchorOrigin, deactivated, versionId, created, updated,
// canonicalId, equivalentId.
func DiffMetadata(got, want map[string]interface{}) []string {
	var out []string
	g, w := deep(got).(map[string]interface{}), deep(want).(map[string]interface{})
	gm, _ := g["method"].(map[string]interface{})
	wm, _ := w["method"].(map[string]interface{})
	for _, k := range []string{"published", "updateCommitment", "recoveryCommitment", "anchorOrigin"} {
		if !reflect.DeepEqual(gm[k], wm[k]) {
			out = append(out, "method."+k)
		}
	}
	for _, k := range []string{"deactivated", "versionId", "created", "updated", "canonicalId", "equivalentId"} {
		gv, wv := g[k], w[k]
		if k == "deactivated" {
			gb, _ := gv.(bool)
			wb, _ := wv.(bool)
			if gb != wb {
				out = append(out, k)
			}
			continue
		}
		if emptyish(gv) && emptyish(wv) {
			continue
		}
		if !reflect.DeepEqual(gv, wv) {
			out = append(out, k)
		}
	}
	return out
}
