// Package keys is the deterministic key universe of the harness: five key families whose private
// material is a pure function of (pool, index). Signing is done here with crypto/ed25519 and a small
// textbook ECDSA over elliptic.Curve with a deterministic nonce, so signature bytes are reproducible
// and nothing from the library under test is involved.
package keys

import (
	"crypto/ecdsa"
	"crypto/ed25519"
	"crypto/elliptic"
	"crypto/sha256"
	"crypto/sha512"
	"encoding/base64"
	"encoding/binary"
	"fmt"
	"math/big"
	"sync"

	"github.com/btcsuite/btcd/btcec"

	"github.com/trustbloc/sidetree-core-go/pkg/jws"
)

// Type is a key family.
type Type int

// Key families.
const (
	Ed25519 Type = iota
	P256
	P384
	P521
	Secp256k1
	NumTypes
)

// AllTypes lists the five families.
var AllTypes = []Type{Ed25519, P256, P384, P521, Secp256k1}

func (t Type) String() string {
	return [...]string{"Ed25519", "P-256", "P-384", "P-521", "secp256k1"}[t]
}

// Alg is the JWS algorithm name for the family.
func (t Type) Alg() string {
	return [...]string{"EdDSA", "ES256", "ES384", "ES512", "ES256K"}[t]
}

// Crv is the JWK curve name.
func (t Type) Crv() string { return t.String() }

// Kty is the JWK key type.
func (t Type) Kty() string {
	if t == Ed25519 {
		return "OKP"
	}
	return "EC"
}

// Curve returns the elliptic curve (nil for Ed25519).
func (t Type) Curve() elliptic.Curve {
	switch t {
	case P256:
		return elliptic.P256()
	case P384:
		return elliptic.P384()
	case P521:
		return elliptic.P521()
	case Secp256k1:
		return btcec.S256()
	}
	return nil
}

// CoordSize is the byte length of a JWK coordinate / half signature.
func (t Type) CoordSize() int {
	return [...]int{32, 32, 48, 66, 32}[t]
}

// Digest hashes msg with the curve's JWS hash.
func (t Type) Digest(msg []byte) []byte {
	switch t {
	case P384:
		h := sha512.Sum384(msg)
		return h[:]
	case P521:
		h := sha512.Sum512(msg)
		return h[:]
	default:
		h := sha256.Sum256(msg)
		return h[:]
	}
}

// Key is one key pair.
type Key struct {
	Type  Type
	Pool  string
	Index int
	Nonce string // base64url nonce carried in the JWK ("" = none)

	ed ed25519.PrivateKey
	d  *big.Int
	x  *big.Int
	y  *big.Int
}

var (
	cacheMu sync.Mutex
	cache   = map[string]*Key{}
)

// Get returns the key (type, pool, index); pools are disjoint by construction.
func Get(t Type, pool string, index int) *Key {
	id := fmt.Sprintf("%d/%s/%d", t, pool, index)
	cacheMu.Lock()
	if k, ok := cache[id]; ok {
		cacheMu.Unlock()
		return k
	}
	cacheMu.Unlock()
	seed := sha512.Sum512([]byte("verif-key-universe/" + id))
	k := &Key{Type: t, Pool: pool, Index: index}
	if t == Ed25519 {
		k.ed = ed25519.NewKeyFromSeed(seed[:32])
	} else {
		c := t.Curve()
		n := c.Params().N
		d := new(big.Int).SetBytes(seed[:])
		d.Mod(d, new(big.Int).Sub(n, big.NewInt(1)))
		d.Add(d, big.NewInt(1))
		k.d = d
		k.x, k.y = c.ScalarBaseMult(d.Bytes())
	}
	cacheMu.Lock()
	cache[id] = k
	cacheMu.Unlock()
	return k
}

// WithNonce returns a copy of k carrying a nonce of n bytes derived from tag.
func (k *Key) WithNonce(n int, tag string) *Key {
	c := *k
	h := sha512.Sum512([]byte("nonce/" + tag + "/" + k.ID()))
	buf := make([]byte, 0, n)
	for len(buf) < n {
		buf = append(buf, h[:]...)
		h = sha512.Sum512(h[:])
	}
	c.Nonce = base64.RawURLEncoding.EncodeToString(buf[:n])
	return &c
}

// Negated returns the EC key whose point is the inverse of k's: the same x coordinate, y' = p - y, private scalar
// n - d. It is the one other key that agrees with k in every JWK member but "y". For Ed25519 it returns nil.
func (k *Key) Negated() *Key {
	if k.Type == Ed25519 {
		return nil
	}
	c := *k
	params := k.Type.Curve().Params()
	c.d = new(big.Int).Sub(params.N, k.d)
	c.x = new(big.Int).Set(k.x)
	c.y = new(big.Int).Sub(params.P, k.y)
	c.Pool = k.Pool + "~neg"
	return &c
}

// ID names the key in samples and replay files.
func (k *Key) ID() string { return fmt.Sprintf("%s/%s/%d", k.Type, k.Pool, k.Index) }

func pad(b []byte, n int) []byte {
	if len(b) >= n {
		return b
	}
	out := make([]byte, n)
	copy(out[n-len(b):], b)
	return out
}

// XY returns the raw public coordinates (y is nil for Ed25519).
func (k *Key) XY() ([]byte, []byte) {
	if k.Type == Ed25519 {
		return []byte(k.ed.Public().(ed25519.PublicKey)), nil
	}
	n := k.Type.CoordSize()
	return pad(k.x.Bytes(), n), pad(k.y.Bytes(), n)
}

// JWKMap is the public JWK as a plain JSON object, exactly the members the library's JWK model carries
// (kty, crv, x, y - y is the empty string for OKP keys - and the optional nonce).
func (k *Key) JWKMap() map[string]interface{} {
	x, y := k.XY()
	m := map[string]interface{}{
		"kty": k.Type.Kty(),
		"crv": k.Type.Crv(),
		"x":   base64.RawURLEncoding.EncodeToString(x),
		"y":   base64.RawURLEncoding.EncodeToString(y),
	}
	if k.Nonce != "" {
		m["nonce"] = k.Nonce
	}
	return m
}

// LibJWK is the same key as the library's public JWK model.
func (k *Key) LibJWK() *jws.JWK {
	x, y := k.XY()
	return &jws.JWK{
		Kty:   k.Type.Kty(),
		Crv:   k.Type.Crv(),
		X:     base64.RawURLEncoding.EncodeToString(x),
		Y:     base64.RawURLEncoding.EncodeToString(y),
		Nonce: k.Nonce,
	}
}

// ECDSAPrivate returns the key as *ecdsa.PrivateKey (EC families only), for the library's ecsigner.
func (k *Key) ECDSAPrivate() *ecdsa.PrivateKey {
	return &ecdsa.PrivateKey{PublicKey: ecdsa.PublicKey{Curve: k.Type.Curve(), X: k.x, Y: k.y}, D: k.d}
}

// ECDSAPublic returns the public key (EC families only).
func (k *Key) ECDSAPublic() *ecdsa.PublicKey {
	return &ecdsa.PublicKey{Curve: k.Type.Curve(), X: k.x, Y: k.y}
}

// Ed25519Private returns the Ed25519 private key.
func (k *Key) Ed25519Private() ed25519.PrivateKey { return k.ed }

// Ed25519Public returns the Ed25519 public key.
func (k *Key) Ed25519Public() ed25519.PublicKey { return k.ed.Public().(ed25519.PublicKey) }

// Sign signs msg: Ed25519 signature, or fixed-width r||s over the curve's JWS hash of msg.
func (k *Key) Sign(msg []byte) []byte {
	if k.Type == Ed25519 {
		return ed25519.Sign(k.ed, msg)
	}
	r, s := k.signECDSA(k.Type.Digest(msg), 0)
	n := k.Type.CoordSize()
	return append(pad(r.Bytes(), n), pad(s.Bytes(), n)...)
}

// signECDSA is textbook ECDSA with a deterministic nonce k = H(d || digest || ctr) mod (n-1) + 1.
func (k *Key) signECDSA(digest []byte, ctr uint32) (*big.Int, *big.Int) {
	c := k.Type.Curve()
	n := c.Params().N
	for {
		var cb [4]byte
		binary.BigEndian.PutUint32(cb[:], ctr)
		h := sha512.New()
		h.Write(k.d.Bytes())
		h.Write(digest)
		h.Write(cb[:])
		h2 := sha512.Sum512(h.Sum(nil))
		kk := new(big.Int).SetBytes(append(h.Sum(nil), h2[:]...))
		kk.Mod(kk, new(big.Int).Sub(n, big.NewInt(1)))
		kk.Add(kk, big.NewInt(1))
		rx, _ := c.ScalarBaseMult(kk.Bytes())
		r := new(big.Int).Mod(rx, n)
		if r.Sign() == 0 {
			ctr++
			continue
		}
		z := hashToInt(digest, n)
		s := new(big.Int).Mul(r, k.d)
		s.Add(s, z)
		s.Mul(s, new(big.Int).ModInverse(kk, n))
		s.Mod(s, n)
		if s.Sign() == 0 {
			ctr++
			continue
		}
		return r, s
	}
}

func hashToInt(hash []byte, n *big.Int) *big.Int {
	orderBits := n.BitLen()
	orderBytes := (orderBits + 7) / 8
	if len(hash) > orderBytes {
		hash = hash[:orderBytes]
	}
	ret := new(big.Int).SetBytes(hash)
	excess := len(hash)*8 - orderBits
	if excess > 0 {
		ret.Rsh(ret, uint(excess))
	}
	return ret
}

// Order returns the group order n of the key's curve (EC families only).
func (k *Key) Order() *big.Int { return k.Type.Curve().Params().N }

var (
	lzMu    sync.Mutex
	lzCache = map[string][]*Key{}
)

// LeadingZero returns keys of the given EC family (from pool, indices 1..max) whose X or Y coordinate starts
// with a zero byte - the shape that exposes padding mistakes in JWK conversion. The scan is cached per process.
func LeadingZero(t Type, pool string, max int) []*Key {
	if t == Ed25519 {
		return nil
	}
	id := fmt.Sprintf("%d/%s/%d", t, pool, max)
	lzMu.Lock()
	defer lzMu.Unlock()
	if l, ok := lzCache[id]; ok {
		return l
	}
	var out []*Key
	for i := 1; i <= max && len(out) < 4; i++ {
		k := Get(t, pool, i)
		x, y := k.XY()
		if x[0] == 0 || y[0] == 0 {
			out = append(out, k)
		}
	}
	lzCache[id] = out
	return out
}
