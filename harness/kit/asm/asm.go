// Package asm is the harness's independent Sidetree request assembler: base64url, multihash framing,
// compact JWS and the four request shapes are built from plain maps with refjcs and the stdlib only.
// Because nothing of the library under test is used, it can also build what the client library refuses to
// build (self-loops, equal commitments, forged signatures, mismatched reveals, missing members).
package asm

import (
	"crypto/sha256"
	"crypto/sha512"
	"encoding/base64"

	"verifharness/kit/keys"
	"verifharness/kit/refjcs"
)

// Multihash codes.
const (
	SHA256 uint64 = 18
	SHA512 uint64 = 19
)

// B64 is unpadded base64url.
func B64(b []byte) string { return base64.RawURLEncoding.EncodeToString(b) }

// UnB64 decodes unpadded base64url.
func UnB64(s string) ([]byte, error) { return base64.RawURLEncoding.DecodeString(s) }

// Digest computes the raw digest for a multihash code (18 or 19).
func Digest(code uint64, data []byte) []byte {
	if code == SHA512 {
		h := sha512.Sum512(data)
		return h[:]
	}
	h := sha256.Sum256(data)
	return h[:]
}

func varint(x uint64) []byte {
	var out []byte
	for x >= 0x80 {
		out = append(out, byte(x)|0x80)
		x >>= 7
	}
	return append(out, byte(x))
}

// FrameMultihash frames an already computed digest: varint(code) varint(len) digest.
func FrameMultihash(code uint64, digest []byte) []byte {
	out := append(varint(code), varint(uint64(len(digest)))...)
	return append(out, digest...)
}

// Multihash returns base64url(multihash(code, H(data))).
func Multihash(code uint64, data []byte) string {
	return B64(FrameMultihash(code, Digest(code, data)))
}

// HashModel returns the multihash of the canonical form of a JSON value built from maps/slices.
func HashModel(code uint64, model interface{}) string {
	return Multihash(code, refjcs.MustCanonicalGo(model))
}

// Reveal is the reveal value of a key: multihash(H(JCS(jwk))).
func Reveal(k *keys.Key, code uint64) string { return HashModel(code, k.JWKMap()) }

// Commit is the commitment of a key: multihash(H(H(JCS(jwk)))).
func Commit(k *keys.Key, code uint64) string {
	return Multihash(code, Digest(code, refjcs.MustCanonicalGo(k.JWKMap())))
}

// CommitFromReveal recomputes the commitment from an encoded reveal value (ok=false if malformed).
func CommitFromReveal(rv string) (string, bool) {
	raw, err := UnB64(rv)
	if err != nil || len(raw) < 2 {
		return "", false
	}
	code, n1 := unvarint(raw)
	if n1 == 0 {
		return "", false
	}
	l, n2 := unvarint(raw[n1:])
	if n2 == 0 || uint64(len(raw)-n1-n2) != l {
		return "", false
	}
	if code != SHA256 && code != SHA512 {
		return "", false
	}
	return Multihash(code, raw[n1+n2:]), true
}

func unvarint(b []byte) (uint64, int) {
	var x uint64
	var s uint
	for i, c := range b {
		if i == 9 {
			return 0, 0
		}
		if c < 0x80 {
			return x | uint64(c)<<s, i + 1
		}
		x |= uint64(c&0x7f) << s
		s += 7
	}
	return 0, 0
}

// DecodeMultihash splits an encoded multihash into (code, digest); ok=false when it is not well formed.
func DecodeMultihash(mh string) (code uint64, digest []byte, ok bool) {
	raw, err := UnB64(mh)
	if err != nil || B64(raw) != mh {
		// not base64url, or another spelling than the canonical one (line breaks, non-zero trailing bits): a hash
		// field is a string, and strings that merely decode to the same bytes are different field values
		return 0, nil, false
	}
	code, n1 := unvarint(raw)
	if n1 == 0 {
		return 0, nil, false
	}
	l, n2 := unvarint(raw[n1:])
	if n2 == 0 || uint64(len(raw)-n1-n2) != l {
		return 0, nil, false
	}
	return code, raw[n1+n2:], true
}

// Header returns the Sidetree protected header for a key ({"alg":...} plus optional kid).
func Header(k *keys.Key, kid string) map[string]interface{} {
	h := map[string]interface{}{"alg": k.Type.Alg()}
	if kid != "" {
		h["kid"] = kid
	}
	return h
}

// SigningInput is b64(compact sorted header) + "." + b64(payload).
func SigningInput(header map[string]interface{}, payload []byte) []byte {
	return []byte(B64(refjcs.MustCanonicalGo(header)) + "." + B64(payload))
}

// Compact assembles a compact JWS from its decoded parts.
func Compact(header map[string]interface{}, payload, sig []byte) string {
	return B64(refjcs.MustCanonicalGo(header)) + "." + B64(payload) + "." + B64(sig)
}

// SignCompact signs payload with k under header (nil = {"alg": alg of k}).
func SignCompact(k *keys.Key, header map[string]interface{}, payload []byte) string {
	if header == nil {
		header = Header(k, "")
	}
	return Compact(header, payload, k.Sign(SigningInput(header, payload)))
}

// Delta builds a delta object.
func Delta(updateCommitment string, patches []interface{}) map[string]interface{} {
	d := map[string]interface{}{}
	if updateCommitment != "" {
		d["updateCommitment"] = updateCommitment
	}
	if patches != nil {
		d["patches"] = patches
	}
	return d
}

// Create describes a create request.
type Create struct {
	Code           uint64
	RecoveryCommit string
	Delta          map[string]interface{}
	DeltaHash      string // "" = hash of Delta
	AnchorOrigin   interface{}
	DIDType        string
}

// SuffixData returns the suffix data object.
func (c *Create) SuffixData() map[string]interface{} {
	dh := c.DeltaHash
	if dh == "" {
		dh = HashModel(c.Code, c.Delta)
	}
	sd := map[string]interface{}{"deltaHash": dh, "recoveryCommitment": c.RecoveryCommit}
	if c.AnchorOrigin != nil {
		sd["anchorOrigin"] = c.AnchorOrigin
	}
	if c.DIDType != "" {
		sd["type"] = c.DIDType
	}
	return sd
}

// Suffix is the DID unique suffix: multihash of the suffix data.
func (c *Create) Suffix() string { return HashModel(c.Code, c.SuffixData()) }

// Request returns the request object.
func (c *Create) Request() map[string]interface{} {
	r := map[string]interface{}{"type": "create", "suffixData": c.SuffixData()}
	if c.Delta != nil {
		r["delta"] = c.Delta
	}
	return r
}

// Bytes returns the request serialized canonically.
func (c *Create) Bytes() []byte { return refjcs.MustCanonicalGo(c.Request()) }

// LongForm returns did:<ns>:<suffix>:<b64(JCS({delta,suffixData}))>.
func (c *Create) LongForm(namespace string) string {
	init := map[string]interface{}{"suffixData": c.SuffixData(), "delta": c.Delta}
	return namespace + ":" + c.Suffix() + ":" + B64(refjcs.MustCanonicalGo(init))
}

// Signed describes an update, recover or deactivate request with every part overridable.
type Signed struct {
	Type   string // "update" | "recover" | "deactivate"
	Suffix string
	Code   uint64

	RevealKey   *keys.Key // key placed in the signed data (updateKey / recoveryKey)
	SignKey     *keys.Key // key that signs; nil = RevealKey
	RevealValue string    // "" = Reveal(RevealKey, Code)

	Delta     map[string]interface{} // update / recover
	NoDelta   bool                   // omit the delta member
	DeltaHash string                 // "" = hash of Delta under Code

	NextRecoveryCommit string      // recover
	AnchorOrigin       interface{} // recover
	From, Until        int64

	SignedSuffix *string                // deactivate: didSuffix inside the signed data (nil = Suffix)
	Header       map[string]interface{} // nil = {"alg": SignKey alg}
	ExtraSigned  map[string]interface{} // additional signed-data members
}

// SignedData returns the signed payload object.
func (s *Signed) SignedData() map[string]interface{} {
	sd := map[string]interface{}{}
	switch s.Type {
	case "update":
		sd["updateKey"] = s.RevealKey.JWKMap()
		sd["deltaHash"] = s.deltaHash()
	case "recover":
		sd["recoveryKey"] = s.RevealKey.JWKMap()
		sd["deltaHash"] = s.deltaHash()
		sd["recoveryCommitment"] = s.NextRecoveryCommit
		if s.AnchorOrigin != nil {
			sd["anchorOrigin"] = s.AnchorOrigin
		}
	case "deactivate":
		sd["recoveryKey"] = s.RevealKey.JWKMap()
		if s.SignedSuffix != nil {
			sd["didSuffix"] = *s.SignedSuffix
		} else {
			sd["didSuffix"] = s.Suffix
		}
	}
	if s.From != 0 {
		sd["anchorFrom"] = s.From
	}
	if s.Until != 0 {
		sd["anchorUntil"] = s.Until
	}
	for k, v := range s.ExtraSigned {
		sd[k] = v
	}
	return sd
}

func (s *Signed) deltaHash() string {
	if s.DeltaHash != "" {
		return s.DeltaHash
	}
	return HashModel(s.Code, s.Delta)
}

func (s *Signed) signer() *keys.Key {
	if s.SignKey != nil {
		return s.SignKey
	}
	return s.RevealKey
}

// HeaderMap returns the protected header.
func (s *Signed) HeaderMap() map[string]interface{} {
	if s.Header != nil {
		return s.Header
	}
	return Header(s.signer(), "")
}

// Payload returns the canonical signed payload bytes.
func (s *Signed) Payload() []byte { return refjcs.MustCanonicalGo(s.SignedData()) }

// JWS returns the compact JWS over the signed data.
func (s *Signed) JWS() string { return SignCompact(s.signer(), s.HeaderMap(), s.Payload()) }

// Reveal returns the reveal value member.
func (s *Signed) Reveal() string {
	if s.RevealValue != "" {
		return s.RevealValue
	}
	return Reveal(s.RevealKey, s.Code)
}

// RequestWith assembles the request around a given compact JWS.
func (s *Signed) RequestWith(compact string) map[string]interface{} {
	r := map[string]interface{}{"type": s.Type, "didSuffix": s.Suffix, "revealValue": s.Reveal(), "signedData": compact}
	if s.Type != "deactivate" && !s.NoDelta && s.Delta != nil {
		r["delta"] = s.Delta
	}
	return r
}

// Request assembles the genuine request.
func (s *Signed) Request() map[string]interface{} { return s.RequestWith(s.JWS()) }

// Bytes returns the request serialized canonically.
func (s *Signed) Bytes() []byte { return refjcs.MustCanonicalGo(s.Request()) }

// BytesOf serializes any request object canonically.
func BytesOf(req map[string]interface{}) []byte { return refjcs.MustCanonicalGo(req) }
