// Package refmodel is the independent Sidetree reference state machine used as oracle by the
// resolution checks. It consumes operation *descriptors* (what the generator knows it built), never
// request bytes, and imports nothing from the library under test.
//
// Rules (from the property statements C01-C06, C12):
//   - operations are considered in anchoring order: published ones ordered by (time, number), then
//     unpublished ones ordered likewise;
//   - the defining create is the first create (in that order) whose suffix data is acceptable; it fixes
//     the recovery commitment; a good delta fixes the update commitment and the document; a delta that
//     does not match its hash or is invalid gives an empty document and no update commitment; a delta
//     whose patches fail gives an empty document with the update commitment;
//   - the recovery chain (recover / deactivate) is followed first: among the candidates revealing the key
//     of the commitment in force, the earliest one that is authorised (valid reveal, valid signature,
//     for deactivate also matching suffix and inside its window) and does not re-commit to the consumed
//     commitment or to one consumed earlier in the chain is applied;
//   - recover replaces both commitments and the document (empty document without update commitment for a
//     mismatched/invalid delta; empty document with update commitment for failing patches or outside the
//     window); deactivate clears everything and ends resolution;
//   - then the update chain over updates anchored strictly after the last applied create/recover (or
//     unpublished): an authorised update with a matching, valid delta advances the update commitment;
//     its patches change the document only inside the window and only if they all apply.
package refmodel

import (
	"math/big"
	"sort"
)

// Delta classes.
const (
	DeltaGood      = "good"
	DeltaFailPatch = "failpatch" // valid delta whose patches fail to apply
	DeltaInvalid   = "invalid"   // delta rejected by delta validation
	DeltaMismatch  = "mismatch"  // delta does not hash to the signed / suffix-data delta hash
	DeltaMissing   = "missing"   // no delta member
)

// Op describes one anchored operation.
type Op struct {
	Name string `json:"name"`
	Type string `json:"type"` // create | update | recover | deactivate

	// Consumes is the commitment derived from the operation's reveal value (empty for create).
	Consumes string `json:"consumes,omitempty"`
	// Authorised: the request parses in batch mode, its reveal value is the hash of the signed key, the
	// signature is genuine and (deactivate) the signed suffix is the DID's. For create: suffix data valid.
	Authorised bool `json:"authorised"`

	NextUpdate   string `json:"nextUpdate,omitempty"`
	NextRecovery string `json:"nextRecovery,omitempty"`

	// VersionDelta is the maximum operation time delta of the protocol version the operation is applied under
	// (the version its stamp selects); 0 = the Params default.
	VersionDelta uint64 `json:"versionMaxTimeDelta,omitempty"`

	Delta   string                 `json:"delta,omitempty"` // delta class
	Markers map[string]interface{} `json:"markers,omitempty"`
	// Removes lists marker names removed by the delta (applied after Markers are set).
	Removes []string `json:"removes,omitempty"`

	From  int64 `json:"from,omitempty"`
	Until int64 `json:"until,omitempty"` // effective until is computed by the model from MaxTimeDelta

	AnchorOrigin interface{} `json:"anchorOrigin,omitempty"`

	Time      uint64 `json:"time"`
	Num       uint64 `json:"num"`
	Published bool   `json:"published"`
	Ref       string `json:"ref,omitempty"` // canonical reference
}

// State is the resolved state.
type State struct {
	Found        bool                   `json:"found"`
	Doc          map[string]interface{} `json:"doc"`
	Update       string                 `json:"update"`
	Recovery     string                 `json:"recovery"`
	Deactivated  bool                   `json:"deactivated"`
	AnchorOrigin interface{}            `json:"anchorOrigin,omitempty"`
	VersionID    string                 `json:"versionId"`
	CanonicalRef string                 `json:"canonicalRef"`
	LastTime     uint64                 `json:"lastTime"`
	LastNum      uint64                 `json:"lastNum"`
	CreatedTime  uint64                 `json:"createdTime"`
	UpdatedTime  uint64                 `json:"updatedTime"`
	// Applied lists the names of the operations that took effect, in order.
	Applied []string `json:"applied"`
}

// Params are the protocol parameters the model depends on.
type Params struct {
	MaxTimeDelta uint64
}

func (p Params) deltaFor(o *Op) uint64 {
	if o.VersionDelta != 0 {
		return o.VersionDelta
	}
	return p.MaxTimeDelta
}

// InWindow is the signed anchoring window predicate, evaluated in unbounded integers (the bounds are signed 64-bit
// values, the anchoring time and the maximum operation time delta unsigned ones; nothing wraps around here).
func InWindow(from, until int64, t uint64, maxDelta uint64) bool {
	if from == 0 && until == 0 {
		return true
	}
	f, e, at := big.NewInt(from), big.NewInt(until), new(big.Int).SetUint64(t)
	if until == 0 {
		e = new(big.Int).Add(f, new(big.Int).SetUint64(maxDelta))
	}
	return f.Cmp(at) <= 0 && at.Cmp(e) <= 0
}

// Less orders by (time, number).
func Less(a, b *Op) bool {
	if a.Time != b.Time {
		return a.Time < b.Time
	}
	return a.Num < b.Num
}

// Order returns published operations by (time, number) followed by unpublished ones likewise.
func Order(ops []*Op) []*Op {
	var pub, unpub []*Op
	for _, o := range ops {
		if o.Published {
			pub = append(pub, o)
		} else {
			unpub = append(unpub, o)
		}
	}
	sort.SliceStable(pub, func(i, j int) bool { return Less(pub[i], pub[j]) })
	sort.SliceStable(unpub, func(i, j int) bool { return Less(unpub[i], unpub[j]) })
	return append(pub, unpub...)
}

func copyDoc(d map[string]interface{}) map[string]interface{} {
	out := make(map[string]interface{}, len(d))
	for k, v := range d {
		out[k] = v
	}
	return out
}

func applyMarkers(base map[string]interface{}, o *Op) map[string]interface{} {
	d := copyDoc(base)
	for k, v := range o.Markers {
		d[k] = v
	}
	for _, k := range o.Removes {
		delete(d, k)
	}
	return d
}

func badDelta(class string) bool {
	return class == DeltaInvalid || class == DeltaMismatch || class == DeltaMissing
}

// Resolve runs the reference state machine over a set of operations of one DID.
func Resolve(all []*Op, p Params) *State {
	ops := Order(all)
	st := &State{}
	var create *Op
	for _, o := range ops {
		if o.Type == "create" && o.Authorised {
			create = o
			break
		}
	}
	if create == nil {
		return st
	}
	st.Found = true
	st.Doc = map[string]interface{}{}
	st.Recovery = create.NextRecovery
	st.AnchorOrigin = create.AnchorOrigin
	st.VersionID = create.Ref
	st.CanonicalRef = create.Ref
	st.LastTime, st.LastNum = create.Time, create.Num
	st.CreatedTime = create.Time
	st.Applied = append(st.Applied, create.Name)
	if !badDelta(create.Delta) {
		st.Update = create.NextUpdate
		if create.Delta == DeltaGood {
			st.Doc = applyMarkers(map[string]interface{}{}, create)
		}
	}

	// recovery chain
	consumed := map[string]bool{}
	for st.Recovery != "" {
		c := st.Recovery
		var pick *Op
		for _, o := range ops {
			if (o.Type != "recover" && o.Type != "deactivate") || o.Consumes != c || !o.Authorised {
				continue
			}
			if o.Type == "recover" {
				if o.NextRecovery == c || consumed[o.NextRecovery] {
					continue
				}
				// a recover that hands the commitment it consumes on as the next update commitment re-commits to the
				// key it reveals just as well (the update chain would consume that commitment a second time)
				if !badDelta(o.Delta) && o.NextUpdate == c {
					continue
				}
			} else if !InWindow(o.From, o.Until, o.Time, p.deltaFor(o)) {
				continue
			}
			pick = o
			break
		}
		if pick == nil {
			break
		}
		consumed[c] = true
		st.Applied = append(st.Applied, pick.Name)
		st.LastTime, st.LastNum = pick.Time, pick.Num
		st.UpdatedTime = pick.Time
		st.VersionID = pick.Ref
		if pick.Type == "deactivate" {
			st.Deactivated = true
			st.Doc = map[string]interface{}{}
			st.Update, st.Recovery = "", ""
			return st
		}
		st.CanonicalRef = pick.Ref
		st.Recovery = pick.NextRecovery
		st.AnchorOrigin = pick.AnchorOrigin
		st.Doc = map[string]interface{}{}
		st.Update = ""
		if !badDelta(pick.Delta) {
			st.Update = pick.NextUpdate
			if pick.Delta == DeltaGood && InWindow(pick.From, pick.Until, pick.Time, p.deltaFor(pick)) {
				st.Doc = applyMarkers(map[string]interface{}{}, pick)
			}
		}
	}

	// update chain: published strictly after the last full operation, or unpublished
	baseT, baseN := st.LastTime, st.LastNum
	after := func(o *Op) bool {
		if !o.Published {
			return true
		}
		if o.Time != baseT {
			return o.Time > baseT
		}
		return o.Num > baseN
	}
	// the set of consumed commitments carries over from the recovery chain: a commitment is consumed at most once in
	// the course of a resolution, in whichever chain it comes up again (an update chain that would start with a
	// commitment the recovery chain has consumed does not start)
	for st.Update != "" && !consumed[st.Update] {
		c := st.Update
		var pick *Op
		for _, o := range ops {
			if o.Type != "update" || o.Consumes != c || !o.Authorised || !after(o) {
				continue
			}
			if badDelta(o.Delta) {
				continue
			}
			if o.NextUpdate == c || consumed[o.NextUpdate] {
				continue
			}
			pick = o
			break
		}
		if pick == nil {
			break
		}
		consumed[c] = true
		st.Applied = append(st.Applied, pick.Name)
		st.LastTime, st.LastNum = pick.Time, pick.Num
		st.UpdatedTime = pick.Time
		st.VersionID = pick.Ref
		st.Update = pick.NextUpdate
		if pick.Delta == DeltaGood && InWindow(pick.From, pick.Until, pick.Time, p.deltaFor(pick)) {
			st.Doc = applyMarkers(st.Doc, pick)
		}
	}
	return st
}
