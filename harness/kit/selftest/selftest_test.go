package selftest

import (
	"fmt"
	"testing"

	"github.com/trustbloc/sidetree-core-go/pkg/commitment"

	"verifharness/kit/asm"
	"verifharness/kit/hist"
	"verifharness/kit/keys"
	"verifharness/kit/refmodel"
	"verifharness/kit/res"
	"verifharness/kit/wire"
)

// The harness's own assembler must agree with the library on a plain valid chain for every key type and
// hash algorithm; otherwise every other check would be unsound.
func TestAssemblerAgainstLibrary(t *testing.T) {
	for _, code := range []uint64{asm.SHA256, asm.SHA512} {
		for _, kt := range keys.AllTypes {
			name := fmt.Sprintf("%s/%d", kt, code)
			p := wire.BaseProtocol()
			p.MultihashAlgorithms = []uint{uint(code)}
			pc := wire.NewClient(wire.Build(p, wire.Deps{}))
			k := func(i int) *keys.Key { return keys.Get(kt, "selftest", i) }

			rv, err := commitment.GetRevealValue(k(0).LibJWK(), uint(code))
			if err != nil || rv != asm.Reveal(k(0), code) {
				t.Fatalf("%s reveal mismatch lib=%s asm=%s err=%v", name, rv, asm.Reveal(k(0), code), err)
			}
			cm, err := commitment.GetCommitment(k(0).LibJWK(), uint(code))
			if err != nil || cm != asm.Commit(k(0), code) {
				t.Fatalf("%s commitment mismatch", name)
			}

			c := hist.NewCreate(hist.CreateSpec{Name: "create", Code: code, Recovery: k(0), Update: k(1), Markers: map[string]interface{}{"c": "1"}})
			u := hist.NewSigned(hist.SignedSpec{Name: "u1", Type: "update", Suffix: c.Suffix, Code: code, Reveal: k(1), NextUpd: k(2), Markers: map[string]interface{}{"u": 1.0}})
			f := hist.NewSigned(hist.SignedSpec{Name: "u2", Type: "update", Suffix: c.Suffix, Code: code, Reveal: k(2), NextUpd: k(3), Opt: hist.Opt{Delta: refmodel.DeltaFailPatch}})
			r := hist.NewSigned(hist.SignedSpec{Name: "r", Type: "recover", Suffix: c.Suffix, Code: code, Reveal: k(0), NextRec: k(4), NextUpd: k(5), Markers: map[string]interface{}{"r": true}})
			u3 := hist.NewSigned(hist.SignedSpec{Name: "u3", Type: "update", Suffix: c.Suffix, Code: code, Reveal: k(5), NextUpd: k(6), Markers: map[string]interface{}{"p": "q"}})
			d := hist.NewSigned(hist.SignedSpec{Name: "d", Type: "deactivate", Suffix: c.Suffix, Code: code, Reveal: k(4)})

			steps := []*hist.Op{c, u, f, r, u3, d}
			var h []*hist.Anchored
			for i, op := range steps {
				h = append(h, op.At(uint64(10+i), uint64(i), fmt.Sprintf("ref%d", i), 0))
				ds, ops := hist.Split(h)
				out := res.Resolve(pc, c.Suffix, ops, nil)
				m := refmodel.Resolve(ds, refmodel.Params{MaxTimeDelta: p.MaxOperationTimeDelta})
				v, adv := res.VsModel(out, m)
				if len(v) > 0 || len(adv) > 0 {
					t.Fatalf("%s step %d (%s): verdict %v advisory %v\nimpl=%+v\nmodel=%+v", name, i, op.Desc.Name, v, adv, out, m)
				}
				want := [][]string{{"create"}, {"create", "u1"}, {"create", "u1", "u2"}, {"create", "r"}, {"create", "r", "u3"}, {"create", "r", "d"}}[i]
				if fmt.Sprint(m.Applied) != fmt.Sprint(want) {
					t.Fatalf("%s step %d: model applied %v want %v", name, i, m.Applied, want)
				}
			}
		}
	}
}
