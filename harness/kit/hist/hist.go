// Package hist materialises operation descriptors (refmodel.Op) into real Sidetree requests with kit/asm
// and into anchored operations with caller-chosen coordinates. It is the bridge between what the generator
// knows it built (the descriptor the reference model consumes) and what the library is fed (bytes).
package hist

import (
	"fmt"
	"sort"

	"github.com/trustbloc/sidetree-core-go/pkg/api/operation"

	"verifharness/kit/asm"
	"verifharness/kit/keys"
	"verifharness/kit/refjcs"
	"verifharness/kit/refmodel"
)

// Op is a built request together with its descriptor (coordinates unset).
type Op struct {
	Desc    refmodel.Op
	Request []byte
	Suffix  string
	Forge   string // forgery class ("" = genuine)
	Dup     bool   // duplicate create / byte-identical replay
}

// Anchored is an operation placed at coordinates.
type Anchored struct {
	Desc refmodel.Op
	Op   *operation.AnchoredOperation
}

// Forge classes for signed operations.
const (
	ForgeNone               = ""
	ForgeSigRandom          = "sig-random"                          // right reveal, signature bytes replaced by deterministic noise
	ForgeSigForeign         = "sig-foreign"                         // right reveal, signed by another key
	ForgeSigBitflip         = "sig-bitflip"                         // right reveal, one bit of the genuine signature flipped
	ForgePayloadAltered     = "payload-altered"                     // signed payload changed after signing (other next commitment / suffix)
	ForgeRevealMismatch     = "reveal-mismatch"                     // reveal value of the legitimate key, signed data carries the attacker's key (self-signed)
	ForgeOtherKey           = "other-key"                           // attacker key revealed consistently with its own valid signature
	ForgeOtherKeyClaim      = "other-key-claims-reveal"             // as other-key, and the signed data additionally names the legitimate key's reveal value (revealValue member)
	ForgeMismatchClaimLegit = "reveal-mismatch-signed-legit-reveal" // reveal-mismatch, and the signed data repeats the legitimate reveal value in a revealValue member
	ForgeMismatchClaimOwn   = "reveal-mismatch-signed-own-reveal"   // reveal-mismatch, and the signed data carries the attacker key's own reveal value in a revealValue member
	ForgeOtherDID           = "other-did"                           // deactivate genuinely signed for another DID suffix
	ForgeNoSignedData       = "no-signed-data"                      // signedData member removed
	ForgeSigTruncated       = "sig-truncated"                       // signature shortened by one byte
	ForgeSigEmpty           = "sig-empty"                           // empty signature segment
	ForgeTwinKey            = "twin-key-member"                     // signed data names the legitimate key under the exact member name and the attacker's key under a name that differs in case only and comes later (updatekey / recoverykey); signed by the attacker
	ForgeTwinKeyNegated     = "twin-key-member-negated"             // as twin-key-member, the attacker's key being the inverse point of the legitimate EC key (same kty, crv, x, nonce - only y differs)
	ForgeTwinKeyFirst       = "twin-key-member-first"               // the attacker's key under a case variant that comes first (UpdateKey / RecoveryKey), signed by the attacker
)

// AllForges lists the forgery classes applicable to every signed type.
var AllForges = []string{ForgeSigRandom, ForgeSigForeign, ForgeSigBitflip, ForgePayloadAltered, ForgeRevealMismatch, ForgeOtherKey, ForgeOtherKeyClaim, ForgeMismatchClaimLegit, ForgeMismatchClaimOwn, ForgeNoSignedData, ForgeSigTruncated, ForgeSigEmpty,
	ForgeTwinKey, ForgeTwinKeyNegated, ForgeTwinKeyFirst}

// Invalid-delta variants.
const (
	InvalidNoPatches     = "no-patches"
	InvalidBadCommit     = "bad-update-commitment"
	InvalidUnknownAction = "unknown-action"
	InvalidSecondPatch   = "second-patch-invalid" // a valid patch followed by an invalid one of the same action
)

// Opt tunes a built operation.
type Opt struct {
	Delta        string // refmodel delta class; "" = good
	InvalidKind  string // variant for refmodel.DeltaInvalid
	From, Until  int64
	Forge        string
	Attacker     *keys.Key   // key used by the forgery classes that need one
	AnchorOrigin interface{} // create / recover
	Removes      []string
	NextUpdate   string // explicit next update commitment (cycles); "" = commitment of the next key
	NextRecovery string // explicit next recovery commitment (cycles)
	Kid          string
}

func markerPatches(markers map[string]interface{}, removes []string) []interface{} {
	var names []string
	for k := range markers {
		names = append(names, k)
	}
	sort.Strings(names)
	var ops []interface{}
	for _, k := range names {
		ops = append(ops, map[string]interface{}{"op": "add", "path": "/" + k, "value": markers[k]})
	}
	for _, k := range removes {
		ops = append(ops, map[string]interface{}{"op": "remove", "path": "/" + k})
	}
	if len(ops) == 0 {
		ops = append(ops, map[string]interface{}{"op": "add", "path": "/zz_noop", "value": "x"})
	}
	return []interface{}{map[string]interface{}{"action": "ietf-json-patch", "patches": ops}}
}

// buildDelta returns (delta object sent, delta object hashed) for a delta class.
func buildDelta(class, invalidKind, nextUpdate string, markers map[string]interface{}, removes []string) (sent, hashed map[string]interface{}) {
	good := asm.Delta(nextUpdate, markerPatches(markers, removes))
	switch class {
	case "", refmodel.DeltaGood:
		return good, good
	case refmodel.DeltaFailPatch:
		d := asm.Delta(nextUpdate, []interface{}{map[string]interface{}{"action": "ietf-json-patch", "patches": []interface{}{
			map[string]interface{}{"op": "remove", "path": "/zz_never_present"}}}})
		return d, d
	case refmodel.DeltaInvalid:
		var d map[string]interface{}
		switch invalidKind {
		case InvalidBadCommit:
			d = asm.Delta("AAAA", markerPatches(markers, removes))
		case InvalidUnknownAction:
			d = asm.Delta(nextUpdate, []interface{}{map[string]interface{}{"action": "no-such-action", "x": 1}})
		case InvalidSecondPatch:
			ps := markerPatches(markers, removes)
			ps = append(ps, map[string]interface{}{"action": "ietf-json-patch", "patches": []interface{}{
				map[string]interface{}{"op": "remove", "path": "/service"}}})
			d = asm.Delta(nextUpdate, ps)
		default:
			d = asm.Delta(nextUpdate, []interface{}{})
		}
		return d, d
	case refmodel.DeltaMismatch:
		other := asm.Delta(nextUpdate, markerPatches(map[string]interface{}{"zz_mismatch": "signed-other-delta"}, nil))
		return good, other
	case refmodel.DeltaMissing:
		return nil, good
	}
	panic("hist: unknown delta class " + class)
}

func normClass(c string) string {
	if c == "" {
		return refmodel.DeltaGood
	}
	return c
}

// CreateSpec describes a create.
type CreateSpec struct {
	Name     string
	Code     uint64
	Recovery *keys.Key
	Update   *keys.Key
	Markers  map[string]interface{}
	Opt      Opt
}

// NewCreate builds a create operation. With Opt.Delta == mismatch the suffix data keeps the hash of the
// good delta (so the suffix is that of the genuine create) and another delta is sent.
func NewCreate(s CreateSpec) *Op {
	nextU := s.Opt.NextUpdate
	if nextU == "" {
		nextU = asm.Commit(s.Update, s.Code)
	}
	rec := s.Opt.NextRecovery
	if rec == "" {
		rec = asm.Commit(s.Recovery, s.Code)
	}
	class := normClass(s.Opt.Delta)
	var sent, hashed map[string]interface{}
	if class == refmodel.DeltaMismatch {
		// same suffix data as the genuine create (hash of the good delta), but another delta is sent
		hashed = asm.Delta(nextU, markerPatches(s.Markers, s.Opt.Removes))
		sent = asm.Delta(nextU, markerPatches(map[string]interface{}{"zz_dup": "other-delta"}, nil))
	} else {
		sent, hashed = buildDelta(class, s.Opt.InvalidKind, nextU, s.Markers, s.Opt.Removes)
	}
	c := &asm.Create{Code: s.Code, RecoveryCommit: rec, Delta: sent, DeltaHash: asm.HashModel(s.Code, hashed), AnchorOrigin: s.Opt.AnchorOrigin}
	d := refmodel.Op{Name: s.Name, Type: "create", Authorised: true, NextRecovery: rec, Delta: class, AnchorOrigin: s.Opt.AnchorOrigin}
	if class != refmodel.DeltaMissing {
		d.NextUpdate, _ = sent["updateCommitment"].(string)
	}
	if class == refmodel.DeltaGood {
		d.Markers, d.Removes = s.Markers, s.Opt.Removes
		if len(s.Markers) == 0 && len(s.Opt.Removes) == 0 {
			d.Markers = map[string]interface{}{"zz_noop": "x"}
		}
	}
	return &Op{Desc: d, Request: c.Bytes(), Suffix: c.Suffix()}
}

// DupCreateOtherDelta returns a create with exactly the suffix data of orig (hence the same DID suffix) but
// another, otherwise valid, delta - which therefore cannot match the delta hash in the suffix data.
func DupCreateOtherDelta(orig *Op, name string, code uint64) *Op {
	v, perr := refjcs.Parse(orig.Request)
	if perr != nil {
		panic(perr)
	}
	req := refjcs.ToGo(v).(map[string]interface{})
	nextU, _ := orig.Desc.NextUpdate, 0
	if nextU == "" {
		nextU = asm.Multihash(code, []byte("dup-create-next-update"))
	}
	req["delta"] = asm.Delta(nextU, markerPatches(map[string]interface{}{"zz_dup": name}, nil))
	d := orig.Desc
	d.Name = name
	d.Delta = refmodel.DeltaMismatch
	d.Markers, d.Removes = nil, nil
	d.NextUpdate = nextU
	return &Op{Desc: d, Request: asm.BytesOf(req), Suffix: orig.Suffix, Dup: true}
}

// SignedSpec describes an update, recover or deactivate.
type SignedSpec struct {
	Name    string
	Type    string
	Suffix  string
	Code    uint64
	Reveal  *keys.Key // key whose commitment is consumed
	NextUpd *keys.Key // next update key (update / recover)
	NextRec *keys.Key // next recovery key (recover)
	Markers map[string]interface{}
	Opt     Opt
}

func noise(n int, tag string) []byte {
	out := make([]byte, 0, n)
	h := asm.Digest(asm.SHA512, []byte("noise/"+tag))
	for len(out) < n {
		out = append(out, h...)
		h = asm.Digest(asm.SHA512, h)
	}
	return out[:n]
}

// NewSigned builds an update / recover / deactivate, genuine or forged as Opt.Forge says.
func NewSigned(s SignedSpec) *Op {
	class := normClass(s.Opt.Delta)
	nextU := s.Opt.NextUpdate
	if nextU == "" && s.NextUpd != nil {
		nextU = asm.Commit(s.NextUpd, s.Code)
	}
	nextR := s.Opt.NextRecovery
	if nextR == "" && s.NextRec != nil {
		nextR = asm.Commit(s.NextRec, s.Code)
	}
	b := &asm.Signed{Type: s.Type, Suffix: s.Suffix, Code: s.Code, RevealKey: s.Reveal, From: s.Opt.From, Until: s.Opt.Until,
		NextRecoveryCommit: nextR, AnchorOrigin: s.Opt.AnchorOrigin}
	if s.Opt.Kid != "" {
		b.Header = asm.Header(s.Reveal, s.Opt.Kid)
	}
	d := refmodel.Op{Name: s.Name, Type: s.Type, Authorised: true, From: s.Opt.From, Until: s.Opt.Until}
	if s.Type != "deactivate" {
		sent, hashed := buildDelta(class, s.Opt.InvalidKind, nextU, s.Markers, s.Opt.Removes)
		b.Delta = sent
		b.NoDelta = sent == nil
		b.DeltaHash = asm.HashModel(s.Code, hashed)
		d.Delta = class
		if sent != nil {
			d.NextUpdate, _ = sent["updateCommitment"].(string)
		}
		if class == refmodel.DeltaGood {
			d.Markers, d.Removes = s.Markers, s.Opt.Removes
			if len(s.Markers) == 0 && len(s.Opt.Removes) == 0 {
				d.Markers = map[string]interface{}{"zz_noop": "x"}
			}
		}
	}
	if s.Type == "recover" {
		d.NextRecovery = nextR
		d.AnchorOrigin = s.Opt.AnchorOrigin
	}
	d.Consumes = asm.Commit(s.Reveal, s.Code)

	var req map[string]interface{}
	att := s.Opt.Attacker
	switch s.Opt.Forge {
	case ForgeNone:
		req = b.Request()
	case ForgeSigRandom:
		sig := s.Reveal.Sign([]byte("x"))
		req = b.RequestWith(asm.Compact(b.HeaderMap(), b.Payload(), noise(len(sig), s.Name)))
		d.Authorised = false
	case ForgeSigBitflip:
		sig := s.Reveal.Sign(asm.SigningInput(b.HeaderMap(), b.Payload()))
		sig[len(sig)/3] ^= 0x10
		req = b.RequestWith(asm.Compact(b.HeaderMap(), b.Payload(), sig))
		d.Authorised = false
	case ForgeSigTruncated:
		sig := s.Reveal.Sign(asm.SigningInput(b.HeaderMap(), b.Payload()))
		req = b.RequestWith(asm.Compact(b.HeaderMap(), b.Payload(), sig[:len(sig)-1]))
		d.Authorised = false
	case ForgeSigEmpty:
		req = b.RequestWith(asm.Compact(b.HeaderMap(), b.Payload(), nil))
		d.Authorised = false
	case ForgeSigForeign:
		// attacker signs the legitimate signed data (which names the legitimate key) with its own key;
		// the attacker key has the same type so that the header is unchanged
		sig := att.Sign(asm.SigningInput(b.HeaderMap(), b.Payload()))
		req = b.RequestWith(asm.Compact(b.HeaderMap(), b.Payload(), sig))
		d.Authorised = false
	case ForgePayloadAltered:
		// genuine signature over the genuine payload, then the payload is replaced by an altered one
		sig := s.Reveal.Sign(asm.SigningInput(b.HeaderMap(), b.Payload()))
		alt := *b
		switch s.Type {
		case "update":
			alt.ExtraSigned = map[string]interface{}{"deltaHash": asm.HashModel(s.Code, asm.Delta(asm.Commit(att, s.Code), markerPatches(map[string]interface{}{"pwned": true}, nil)))}
			alt.Delta = asm.Delta(asm.Commit(att, s.Code), markerPatches(map[string]interface{}{"pwned": true}, nil))
			d.NextUpdate = asm.Commit(att, s.Code)
		case "recover":
			alt.NextRecoveryCommit = asm.Commit(att, s.Code)
			d.NextRecovery = alt.NextRecoveryCommit
		case "deactivate":
			alt.ExtraSigned = map[string]interface{}{"anchorUntil": int64(4102444800)}
		}
		req = alt.RequestWith(asm.Compact(alt.HeaderMap(), alt.Payload(), sig))
		d.Authorised = false
	case ForgeRevealMismatch:
		// request reveals the legitimate key's hash, but the signed data carries (and is signed by) the attacker's key
		alt := *b
		alt.RevealKey = att
		alt.RevealValue = asm.Reveal(s.Reveal, s.Code)
		alt.Header = nil
		req = alt.Request()
		d.Authorised = false
	case ForgeMismatchClaimLegit, ForgeMismatchClaimOwn:
		alt := *b
		alt.RevealKey = att
		alt.RevealValue = asm.Reveal(s.Reveal, s.Code)
		alt.Header = nil
		if s.Opt.Forge == ForgeMismatchClaimLegit {
			alt.ExtraSigned = map[string]interface{}{"revealValue": asm.Reveal(s.Reveal, s.Code)}
		} else {
			alt.ExtraSigned = map[string]interface{}{"revealValue": asm.Reveal(att, s.Code)}
		}
		req = alt.Request()
		d.Authorised = false
	case ForgeTwinKey, ForgeTwinKeyNegated, ForgeTwinKeyFirst:
		// the reveal value and the exactly named key member are the legitimate ones; a second member whose name differs
		// in case only carries the key that signs
		twin := att
		if s.Opt.Forge == ForgeTwinKeyNegated {
			if n := s.Reveal.Negated(); n != nil {
				twin = n
				if s.Reveal.Nonce != "" {
					twin.Nonce = s.Reveal.Nonce
				}
			}
		}
		member := map[string]string{"update": "updatekey", "recover": "recoverykey", "deactivate": "recoverykey"}[s.Type]
		if s.Opt.Forge == ForgeTwinKeyFirst {
			member = map[string]string{"update": "UpdateKey", "recover": "RecoveryKey", "deactivate": "RecoveryKey"}[s.Type]
		}
		alt := *b
		alt.SignKey = twin
		alt.Header = nil
		alt.ExtraSigned = map[string]interface{}{member: twin.JWKMap()}
		req = alt.Request()
		d.Authorised = false
	case ForgeOtherKey:
		alt := *b
		alt.RevealKey = att
		alt.Header = nil
		req = alt.Request()
		d.Consumes = asm.Commit(att, s.Code)
		// self-consistent and validly signed: it is "authorised" for the attacker's own commitment, which is never in force
	case ForgeOtherKeyClaim:
		alt := *b
		legit := asm.Reveal(b.RevealKey, s.Code)
		alt.RevealKey = att
		alt.Header = nil
		alt.ExtraSigned = map[string]interface{}{"revealValue": legit}
		req = alt.Request()
		d.Consumes = asm.Commit(att, s.Code)
	case ForgeOtherDID:
		other := "EiD_other_did_suffix_that_is_not_this_one_000000"
		alt := *b
		alt.SignedSuffix = &other
		req = alt.Request()
		d.Authorised = false
	case ForgeNoSignedData:
		req = b.Request()
		delete(req, "signedData")
		d.Authorised = false
	default:
		panic("hist: unknown forge class " + s.Opt.Forge)
	}
	if s.Opt.Forge != ForgeNone {
		d.Name = fmt.Sprintf("%s[%s]", s.Name, s.Opt.Forge)
	}
	return &Op{Desc: d, Request: asm.BytesOf(req), Suffix: s.Suffix, Forge: s.Opt.Forge}
}

// At places an operation at coordinates. ref is the canonical reference ("" = unpublished).
func (o *Op) At(time, num uint64, ref string, protocolVersion uint64) *Anchored {
	d := o.Desc
	d.Time, d.Num, d.Ref, d.Published = time, num, ref, ref != ""
	return &Anchored{Desc: d, Op: &operation.AnchoredOperation{
		Type:               operation.Type(o.Desc.Type),
		UniqueSuffix:       o.Suffix,
		OperationRequest:   append([]byte{}, o.Request...),
		TransactionTime:    time,
		TransactionNumber:  num,
		ProtocolVersion:    protocolVersion,
		CanonicalReference: ref,
	}}
}

// Split returns the descriptor list and the anchored-operation list of a history.
func Split(h []*Anchored) ([]*refmodel.Op, []*operation.AnchoredOperation) {
	ds := make([]*refmodel.Op, len(h))
	ops := make([]*operation.AnchoredOperation, len(h))
	for i, a := range h {
		d := a.Desc
		ds[i] = &d
		ops[i] = a.Op
	}
	return ds, ops
}
