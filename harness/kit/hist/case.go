package hist

import (
	"fmt"

	"github.com/trustbloc/sidetree-core-go/pkg/api/operation"
	"github.com/trustbloc/sidetree-core-go/pkg/api/protocol"
	"github.com/trustbloc/sidetree-core-go/pkg/versions/1_0/operationparser"

	"verifharness/kit/refmodel"
	"verifharness/kit/wire"
)

// CaseOp is one anchored operation of a concrete, replayable case.
type CaseOp struct {
	Desc    refmodel.Op `json:"desc"`
	Request []byte      `json:"request"`
	PV      uint64      `json:"protocolVersion"`
}

// Case is a concrete history of one DID: the operations (descriptor + bytes + coordinates), the order in
// which the store returns the published ones, and the protocol parameters that matter.
type Case struct {
	Suffix       string   `json:"suffix"`
	Code         uint64   `json:"code"`
	MaxTimeDelta uint64   `json:"maxTimeDelta"`
	Ops          []CaseOp `json:"ops"`
	// StoreOrder lists indexes into Ops of the published operations in the order the store returns them;
	// UnpubOrder likewise for the unpublished store. Nil means index order.
	StoreOrder []int  `json:"storeOrder,omitempty"`
	UnpubOrder []int  `json:"unpubOrder,omitempty"`
	Note       string `json:"note,omitempty"`
	// AdditionalOrder lists indexes into Ops of operations that reach the resolution not through a store but through
	// the caller-supplied additional-operations option, in that order (they must then be absent from StoreOrder /
	// UnpubOrder).
	AdditionalOrder []int `json:"additionalOrder,omitempty"`
	// Versions, when present, are the protocol versions in force (first genesis must be 0); every operation is
	// applied under the version its protocol-version stamp (CaseOp.PV) selects. Empty = one version.
	Versions []VersionSpec `json:"versions,omitempty"`
	// ForeignAdditional: the caller-supplied additional operations also hold the create operation of ANOTHER DID
	// (anchored before everything else), once filed under its own suffix and once under this DID's suffix
	ForeignAdditional bool `json:"foreignAdditional,omitempty"`
	// AsOf, if non-zero, asks (in checks that support it) additionally for the state as of that time: the resolution
	// with that version time must be the state machine's state over the operations with time <= AsOf
	AsOf uint64 `json:"asOf,omitempty"`
	// ExpiredClock: the node's parsers are configured with a server-clock validator for which every signed anchoring
	// window has already expired. Intake would refuse such requests; the resolution of anchored operations must not
	// depend on the node's clock at all.
	ExpiredClock bool `json:"expiredClock,omitempty"`
}

type expiredClock struct{}

func (expiredClock) Validate(from, until int64) error {
	if from == 0 && until == 0 {
		return nil
	}
	return operationparser.ErrOperationExpired
}

func (c *Case) deps() wire.Deps {
	if c.ExpiredClock {
		return wire.Deps{ParserOpts: []operationparser.Option{operationparser.WithAnchorTimeValidator(expiredClock{})}}
	}
	return wire.Deps{}
}

// VersionSpec is one protocol version of a multi-version case: the versions differ in the maximum operation
// time delta only.
type VersionSpec struct {
	Genesis      uint64 `json:"genesis"`
	MaxTimeDelta uint64 `json:"maxTimeDelta"`
}

func (c *Case) versionOf(pv uint64) *VersionSpec {
	var best *VersionSpec
	for i := range c.Versions {
		if c.Versions[i].Genesis <= pv && (best == nil || c.Versions[i].Genesis >= best.Genesis) {
			best = &c.Versions[i]
		}
	}
	return best
}

// NewCase builds a case from anchored operations.
func NewCase(suffix string, code uint64, maxDelta uint64, h []*Anchored) *Case {
	c := &Case{Suffix: suffix, Code: code, MaxTimeDelta: maxDelta}
	for _, a := range h {
		c.Ops = append(c.Ops, CaseOp{Desc: a.Desc, Request: a.Op.OperationRequest, PV: a.Op.ProtocolVersion})
	}
	return c
}

// Anchored returns operation i as the library's anchored operation.
func (c *Case) Anchored(i int) *operation.AnchoredOperation {
	o := c.Ops[i]
	return &operation.AnchoredOperation{
		Type:               operation.Type(o.Desc.Type),
		UniqueSuffix:       c.Suffix,
		OperationRequest:   append([]byte{}, o.Request...),
		TransactionTime:    o.Desc.Time,
		TransactionNumber:  o.Desc.Num,
		ProtocolVersion:    o.PV,
		CanonicalReference: o.Desc.Ref,
	}
}

// Stores returns the published list in store order and the unpublished list in its order.
func (c *Case) Stores() (pub, unpub []*operation.AnchoredOperation) {
	so, uo := c.StoreOrder, c.UnpubOrder
	if so == nil {
		for i, o := range c.Ops {
			if o.Desc.Published {
				so = append(so, i)
			}
		}
	}
	if uo == nil {
		for i, o := range c.Ops {
			if !o.Desc.Published {
				uo = append(uo, i)
			}
		}
	}
	for _, i := range so {
		pub = append(pub, c.Anchored(i))
	}
	for _, i := range uo {
		unpub = append(unpub, c.Anchored(i))
	}
	return pub, unpub
}

// Additional returns the operations handed over through the additional-operations resolution option.
func (c *Case) Additional() []*operation.AnchoredOperation {
	var out []*operation.AnchoredOperation
	for _, i := range c.AdditionalOrder {
		out = append(out, c.Anchored(i))
	}
	return out
}

// Descs returns the descriptors.
func (c *Case) Descs() []*refmodel.Op {
	out := make([]*refmodel.Op, len(c.Ops))
	for i := range c.Ops {
		d := c.Ops[i].Desc
		if v := c.versionOf(c.Ops[i].PV); v != nil {
			d.VersionDelta = v.MaxTimeDelta
		}
		out[i] = &d
	}
	return out
}

// Protocol returns the protocol parameters of the case (base parameters, the case's hash algorithm and
// time delta).
func (c *Case) Protocol() protocol.Protocol {
	p := wire.BaseProtocol()
	p.MultihashAlgorithms = []uint{uint(c.Code)}
	if c.MaxTimeDelta != 0 {
		p.MaxOperationTimeDelta = c.MaxTimeDelta
	}
	return p
}

// Client returns a protocol client of the real components for the case.
func (c *Case) Client() *wire.Client {
	if len(c.Versions) == 0 {
		return wire.NewClient(wire.Build(c.Protocol(), c.deps()))
	}
	var vs []protocol.Version
	for _, v := range c.Versions {
		p := c.Protocol()
		p.GenesisTime = v.Genesis
		p.MaxOperationTimeDelta = v.MaxTimeDelta
		vs = append(vs, wire.Build(p, c.deps()))
	}
	return wire.NewClient(vs...)
}

// Model runs the reference model on the case.
func (c *Case) Model() *refmodel.State {
	return refmodel.Resolve(c.Descs(), refmodel.Params{MaxTimeDelta: c.Protocol().MaxOperationTimeDelta})
}

// ModelAsOf is the reference state over the operations with time <= t (nil if there is none).
func (c *Case) ModelAsOf(t uint64) *refmodel.State {
	var ds []*refmodel.Op
	for _, d := range c.Descs() {
		if d.Time <= t {
			ds = append(ds, d)
		}
	}
	if len(ds) == 0 {
		return nil
	}
	return refmodel.Resolve(ds, refmodel.Params{MaxTimeDelta: c.Protocol().MaxOperationTimeDelta})
}

// Summary is a compact description for evidence samples.
func (c *Case) Summary() map[string]interface{} {
	var ops []string
	for _, o := range c.Ops {
		pub := "pub"
		if !o.Desc.Published {
			pub = "unpub"
		}
		ops = append(ops, fmt.Sprintf("%s@(%d,%d,%s)", o.Desc.Name, o.Desc.Time, o.Desc.Num, pub))
	}
	return map[string]interface{}{"ops": ops, "storeOrder": c.StoreOrder, "unpubOrder": c.UnpubOrder, "hash": c.Code, "note": c.Note}
}
