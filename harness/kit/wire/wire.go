// Package wire builds real protocol.Version objects from the library's own components (parser, applier,
// composer, validator, transformer, batch-file handler and provider, transaction processor) over the
// harness's in-memory CAS / stores, plus a protocol.Client over one or more such versions.
package wire

import (
	"crypto/sha256"
	"encoding/base64"
	"encoding/json"
	"errors"
	"fmt"
	"os"
	"sort"
	"sync"
	"sync/atomic"
	"time"

	"github.com/trustbloc/sidetree-core-go/pkg/api/cas"
	"github.com/trustbloc/sidetree-core-go/pkg/api/operation"
	"github.com/trustbloc/sidetree-core-go/pkg/api/protocol"
	"github.com/trustbloc/sidetree-core-go/pkg/api/txn"
	"github.com/trustbloc/sidetree-core-go/pkg/compression"
	"github.com/trustbloc/sidetree-core-go/pkg/versions/1_0/doccomposer"
	"github.com/trustbloc/sidetree-core-go/pkg/versions/1_0/doctransformer/didtransformer"
	"github.com/trustbloc/sidetree-core-go/pkg/versions/1_0/docvalidator/didvalidator"
	"github.com/trustbloc/sidetree-core-go/pkg/versions/1_0/operationapplier"
	"github.com/trustbloc/sidetree-core-go/pkg/versions/1_0/operationparser"
	"github.com/trustbloc/sidetree-core-go/pkg/versions/1_0/txnprocessor"
	"github.com/trustbloc/sidetree-core-go/pkg/versions/1_0/txnprovider"
)

// AllPatches lists every patch action.
var AllPatches = []string{"replace", "add-public-keys", "remove-public-keys", "add-services", "remove-services", "add-also-known-as", "remove-also-known-as", "ietf-json-patch"}

// AllSigAlgs lists every JWS algorithm.
var AllSigAlgs = []string{"EdDSA", "ES256", "ES384", "ES512", "ES256K"}

// AllKeyAlgs lists every curve.
var AllKeyAlgs = []string{"Ed25519", "P-256", "P-384", "P-521", "secp256k1"}

// BaseProtocol returns generous parameters in which all limits are pairwise distinct (so that a check
// reading the wrong parameter is visible) and every algorithm and patch action is enabled.
func BaseProtocol() protocol.Protocol {
	return protocol.Protocol{
		GenesisTime:                  0,
		MultihashAlgorithms:          []uint{18},
		MaxOperationCount:            50,
		MaxOperationSize:             20011,
		MaxOperationHashLength:       101,
		MaxDeltaSize:                 10007,
		MaxCasURILength:              103,
		CompressionAlgorithm:         "GZIP",
		MaxChunkFileSize:             2000003,
		MaxProvisionalIndexFileSize:  1000003,
		MaxCoreIndexFileSize:         1000033,
		MaxProofFileSize:             1500007,
		SignatureAlgorithms:          append([]string{}, AllSigAlgs...),
		KeyAlgorithms:                append([]string{}, AllKeyAlgs...),
		Patches:                      append([]string{}, AllPatches...),
		MaxOperationTimeDelta:        7207,
		NonceSize:                    16,
		MaxMemoryDecompressionFactor: 3,
	}
}

// Metrics is a no-op metrics provider satisfying every metrics interface of the library.
type Metrics struct{}

// CASWriteSize is a no-op.
func (Metrics) CASWriteSize(string, int) {}

// Deps are the environment pieces a version is wired over.
type Deps struct {
	CAS             cas.Client
	OpStore         txnprocessor.OperationStore
	ParserOpts      []operationparser.Option
	ProviderOpts    []txnprovider.Opt
	TransformerOpts []didtransformer.Option
	TxnProcOpts     []txnprocessor.Option
}

// Version is a protocol.Version made of the real 1.0 components. Fields may be replaced by wrappers
// (counting proxies, stubs) before use.
type Version struct {
	Ver         string
	P           protocol.Protocol
	RealParser  *operationparser.Parser
	Parser      protocol.OperationParser
	Applier     protocol.OperationApplier
	Composer    protocol.DocumentComposer
	Validator   protocol.DocumentValidator
	Transformer protocol.DocumentTransformer
	Handler     protocol.OperationHandler
	Provider    protocol.OperationProvider
	TxnProc     protocol.TxnProcessor
}

// Version implements protocol.Version.
func (v *Version) Version() string { return v.Ver }

// Protocol implements protocol.Version.
func (v *Version) Protocol() protocol.Protocol { return v.P }

// TransactionProcessor implements protocol.Version.
func (v *Version) TransactionProcessor() protocol.TxnProcessor { return v.TxnProc }

// OperationParser implements protocol.Version.
func (v *Version) OperationParser() protocol.OperationParser { return v.Parser }

// OperationApplier implements protocol.Version.
func (v *Version) OperationApplier() protocol.OperationApplier { return v.Applier }

// OperationHandler implements protocol.Version.
func (v *Version) OperationHandler() protocol.OperationHandler { return v.Handler }

// OperationProvider implements protocol.Version.
func (v *Version) OperationProvider() protocol.OperationProvider { return v.Provider }

// DocumentComposer implements protocol.Version.
func (v *Version) DocumentComposer() protocol.DocumentComposer { return v.Composer }

// DocumentValidator implements protocol.Version.
func (v *Version) DocumentValidator() protocol.DocumentValidator { return v.Validator }

// DocumentTransformer implements protocol.Version.
func (v *Version) DocumentTransformer() protocol.DocumentTransformer { return v.Transformer }

// Build wires a version of the real components for protocol parameters p.
//
// Long-lived components: a real node builds its parser, composer, applier, validator and compression registry once
// per protocol version and uses them for every request. Build therefore shares these objects between all cases of a
// process that ask for the same protocol parameters (and no custom parser options), so that state leaking from one
// call into the next - a cache keyed by too little, a reused buffer - is exercised by every check instead of being
// hidden by fresh objects per case. VERIF_FRESH_COMPONENTS=1 switches the sharing off (used to tell a state leak
// from a stateless failure).
func Build(p protocol.Protocol, d Deps) *Version {
	var parser *operationparser.Parser
	var composer *doccomposer.DocumentComposer
	var applier *operationapplier.Applier
	shared := len(d.ParserOpts) == 0 && os.Getenv("VERIF_FRESH_COMPONENTS") == ""
	var key string
	if shared {
		b, _ := json.Marshal(p)
		key = string(b)
		sharedMu.Lock()
		if c, ok := sharedParts[key]; ok {
			parser, composer, applier = c.parser, c.composer, c.applier
		}
		sharedMu.Unlock()
	}
	if parser == nil {
		parser = operationparser.New(p, d.ParserOpts...)
		composer = doccomposer.New()
		applier = operationapplier.New(p, parser, composer)
		if shared {
			sharedMu.Lock()
			if len(sharedParts) > 512 {
				sharedParts = map[string]parts{} // bounded: checks that sweep parameters create many configurations
			}
			sharedParts[key] = parts{parser, composer, applier}
			sharedMu.Unlock()
		}
	}
	v := &Version{
		Ver:         "1.0",
		P:           p,
		RealParser:  parser,
		Parser:      parser,
		Applier:     applier,
		Composer:    composer,
		Validator:   sharedValidator,
		Transformer: didtransformer.New(d.TransformerOpts...),
	}
	if d.CAS != nil {
		cp := sharedCompression
		v.Handler = txnprovider.NewOperationHandler(p, d.CAS, cp, parser, Metrics{})
		prov := txnprovider.NewOperationProvider(p, parser, d.CAS, cp, d.ProviderOpts...)
		v.Provider = prov
		if d.OpStore != nil {
			v.TxnProc = txnprocessor.New(&txnprocessor.Providers{OpStore: d.OpStore, OperationProtocolProvider: providerRef{v}}, d.TxnProcOpts...)
		}
	}
	return v
}

type parts struct {
	parser   *operationparser.Parser
	composer *doccomposer.DocumentComposer
	applier  *operationapplier.Applier
}

var (
	sharedMu          sync.Mutex
	sharedParts       = map[string]parts{}
	sharedValidator   = didvalidator.New()
	sharedCompression = compression.New(compression.WithDefaultAlgorithms())
)

// providerRef lets a test replace v.Provider after Build and still have the transaction processor use it.
type providerRef struct{ v *Version }

func (r providerRef) GetTxnOperations(t *txn.SidetreeTxn) ([]*operation.AnchoredOperation, error) {
	return r.v.Provider.GetTxnOperations(t)
}

// Client is a protocol.Client over versions sorted by genesis time.
type Client struct {
	Versions []protocol.Version
}

// NewClient builds a client; versions are sorted by genesis time.
func NewClient(vs ...protocol.Version) *Client {
	c := &Client{Versions: vs}
	sort.SliceStable(c.Versions, func(i, j int) bool {
		return c.Versions[i].Protocol().GenesisTime < c.Versions[j].Protocol().GenesisTime
	})
	return c
}

// Current implements protocol.Client.
func (c *Client) Current() (protocol.Version, error) {
	if len(c.Versions) == 0 {
		return nil, errors.New("no versions")
	}
	return c.Versions[len(c.Versions)-1], nil
}

// Get implements protocol.Client.
func (c *Client) Get(t uint64) (protocol.Version, error) {
	for i := len(c.Versions) - 1; i >= 0; i-- {
		if t >= c.Versions[i].Protocol().GenesisTime {
			return c.Versions[i], nil
		}
	}
	return nil, fmt.Errorf("protocol parameters are not defined for anchoring time: %d", t)
}

// ClientProvider implements protocol.ClientProvider for one namespace.
type ClientProvider struct {
	NS string
	C  protocol.Client
}

// ForNamespace implements protocol.ClientProvider.
func (p *ClientProvider) ForNamespace(ns string) (protocol.Client, error) {
	if ns != p.NS {
		return nil, fmt.Errorf("protocol client not found for namespace [%s]", ns)
	}
	return p.C, nil
}

// ---------------------------------------------------------------------------------------------
// in-memory CAS with fault injection

// MemCAS is a content-addressed store (address = base64url(sha256(content))).
type MemCAS struct {
	mu     sync.Mutex
	m      map[string][]byte
	Writes int64
	Reads  int64
	// FailWrite / FailRead, when set, decide whether the n-th (1-based) call fails.
	FailWrite func(n int64, content []byte) error
	FailRead  func(n int64, address string) error
}

// NewMemCAS returns an empty CAS.
func NewMemCAS() *MemCAS { return &MemCAS{m: map[string][]byte{}} }

// Address returns the address content is stored under.
func Address(content []byte) string {
	h := sha256.Sum256(content)
	return base64.RawURLEncoding.EncodeToString(h[:])
}

// Write implements cas.Client.
func (c *MemCAS) Write(content []byte) (string, error) {
	n := atomic.AddInt64(&c.Writes, 1)
	if c.FailWrite != nil {
		if err := c.FailWrite(n, content); err != nil {
			return "", err
		}
	}
	a := Address(content)
	c.mu.Lock()
	c.m[a] = append([]byte{}, content...)
	c.mu.Unlock()
	return a, nil
}

// Read implements cas.Client.
func (c *MemCAS) Read(address string) ([]byte, error) {
	n := atomic.AddInt64(&c.Reads, 1)
	if c.FailRead != nil {
		if err := c.FailRead(n, address); err != nil {
			return nil, err
		}
	}
	c.mu.Lock()
	defer c.mu.Unlock()
	b, ok := c.m[address]
	if !ok {
		return nil, errors.New("content not found")
	}
	return append([]byte{}, b...), nil
}

// Put stores arbitrary bytes under an arbitrary address (an adversarial CAS need not be content addressed).
func (c *MemCAS) Put(address string, content []byte) {
	c.mu.Lock()
	c.m[address] = append([]byte{}, content...)
	c.mu.Unlock()
}

// Delete removes an address.
func (c *MemCAS) Delete(address string) {
	c.mu.Lock()
	delete(c.m, address)
	c.mu.Unlock()
}

// Snapshot returns a copy of the content map.
func (c *MemCAS) Snapshot() map[string][]byte {
	c.mu.Lock()
	defer c.mu.Unlock()
	out := make(map[string][]byte, len(c.m))
	for k, v := range c.m {
		out[k] = append([]byte{}, v...)
	}
	return out
}

// Len returns the number of stored addresses.
func (c *MemCAS) Len() int {
	c.mu.Lock()
	defer c.mu.Unlock()
	return len(c.m)
}

// ---------------------------------------------------------------------------------------------
// operation store

// OpStore is an anchored-operation store whose Put is atomic (a failing call stores nothing) and whose Get
// returns copies, in insertion order or in a caller-chosen permutation.
type OpStore struct {
	mu   sync.Mutex
	ops  map[string][]*operation.AnchoredOperation
	Puts [][]*operation.AnchoredOperation // log of successful Put calls (deep copies)
	// FailPut, when set, decides whether the n-th (1-based) Put call fails.
	FailPut  func(n int, ops []*operation.AnchoredOperation) error
	putCalls int
	// Order, when set, permutes what Get returns.
	Order func(suffix string, ops []*operation.AnchoredOperation) []*operation.AnchoredOperation
}

// NewOpStore returns an empty store.
func NewOpStore() *OpStore { return &OpStore{ops: map[string][]*operation.AnchoredOperation{}} }

// CopyOp deep-copies an anchored operation.
func CopyOp(op *operation.AnchoredOperation) *operation.AnchoredOperation {
	c := *op
	c.OperationRequest = append([]byte{}, op.OperationRequest...)
	if op.EquivalentReferences != nil {
		c.EquivalentReferences = append([]string{}, op.EquivalentReferences...)
	}
	return &c
}

// Put implements txnprocessor.OperationStore / observer.OperationStore.
func (s *OpStore) Put(ops []*operation.AnchoredOperation) error {
	s.mu.Lock()
	defer s.mu.Unlock()
	s.putCalls++
	if s.FailPut != nil {
		if err := s.FailPut(s.putCalls, ops); err != nil {
			return err
		}
	}
	var logged []*operation.AnchoredOperation
	for _, op := range ops {
		c := CopyOp(op)
		s.ops[op.UniqueSuffix] = append(s.ops[op.UniqueSuffix], c)
		logged = append(logged, CopyOp(op))
	}
	s.Puts = append(s.Puts, logged)
	return nil
}

// PutCalls returns the number of Put calls made so far (failed ones included).
func (s *OpStore) PutCalls() int {
	s.mu.Lock()
	defer s.mu.Unlock()
	return s.putCalls
}

// Add stores one operation directly.
func (s *OpStore) Add(op *operation.AnchoredOperation) {
	s.mu.Lock()
	defer s.mu.Unlock()
	s.ops[op.UniqueSuffix] = append(s.ops[op.UniqueSuffix], CopyOp(op))
}

// Get implements processor.OperationStoreClient.
func (s *OpStore) Get(suffix string) ([]*operation.AnchoredOperation, error) {
	s.mu.Lock()
	defer s.mu.Unlock()
	ops, ok := s.ops[suffix]
	if !ok || len(ops) == 0 {
		return nil, errors.New("uniqueSuffix not found in the store")
	}
	out := make([]*operation.AnchoredOperation, len(ops))
	for i, op := range ops {
		out[i] = CopyOp(op)
	}
	if s.Order != nil {
		out = s.Order(suffix, out)
	}
	return out, nil
}

// All returns every stored operation grouped by suffix (copies).
func (s *OpStore) All() map[string][]*operation.AnchoredOperation {
	s.mu.Lock()
	defer s.mu.Unlock()
	out := map[string][]*operation.AnchoredOperation{}
	for k, v := range s.ops {
		for _, op := range v {
			out[k] = append(out[k], CopyOp(op))
		}
	}
	return out
}

// SliceStore serves a fixed list of operations for every suffix (used by resolution checks).
// SharedSliceStore is an in-memory store that, like many simple stores (and the library's own mock), hands out its
// internal slice: the same backing array, with spare capacity, on every Get. What a resolution does to that array
// is seen by every later resolution.
type SharedSliceStore struct {
	ops []*operation.AnchoredOperation
}

// NewSharedSliceStore copies ops once into an array with spare capacity.
func NewSharedSliceStore(ops []*operation.AnchoredOperation) *SharedSliceStore {
	s := &SharedSliceStore{ops: make([]*operation.AnchoredOperation, 0, len(ops)+4)}
	for _, op := range ops {
		s.ops = append(s.ops, CopyOp(op))
	}
	return s
}

// Get implements processor.OperationStoreClient (all operations are assumed to belong to one suffix).
func (s *SharedSliceStore) Get(suffix string) ([]*operation.AnchoredOperation, error) {
	for _, op := range s.ops {
		if op.UniqueSuffix != suffix {
			return nil, errors.New("SharedSliceStore holds one suffix only")
		}
	}
	if len(s.ops) == 0 {
		return nil, errors.New("uniqueSuffix not found in the store")
	}
	return s.ops, nil
}

type SliceStore struct {
	Ops []*operation.AnchoredOperation
}

// Get implements processor.OperationStoreClient.
func (s *SliceStore) Get(suffix string) ([]*operation.AnchoredOperation, error) {
	var out []*operation.AnchoredOperation
	for _, op := range s.Ops {
		if op.UniqueSuffix == suffix {
			out = append(out, CopyOp(op))
		}
	}
	if len(out) == 0 {
		return nil, errors.New("uniqueSuffix not found in the store")
	}
	return out, nil
}

// UnpubStore is an unpublished-operation store (one list per suffix) with fault injection.
type UnpubStore struct {
	mu         sync.Mutex
	ops        map[string][]*operation.AnchoredOperation
	FailPut    func(n int) error
	FailDelete func(n int) error
	FailDelAll func(n int) error
	puts, dels int
	delAlls    int
}

// NewUnpubStore returns an empty store.
func NewUnpubStore() *UnpubStore {
	return &UnpubStore{ops: map[string][]*operation.AnchoredOperation{}}
}

// Put stores an unpublished operation.
func (s *UnpubStore) Put(op *operation.AnchoredOperation) error {
	s.mu.Lock()
	defer s.mu.Unlock()
	s.puts++
	if s.FailPut != nil {
		if err := s.FailPut(s.puts); err != nil {
			return err
		}
	}
	s.ops[op.UniqueSuffix] = append(s.ops[op.UniqueSuffix], CopyOp(op))
	return nil
}

func sameOp(a, b *operation.AnchoredOperation) bool {
	return a.UniqueSuffix == b.UniqueSuffix && a.Type == b.Type && string(a.OperationRequest) == string(b.OperationRequest)
}

func (s *UnpubStore) remove(op *operation.AnchoredOperation) {
	l := s.ops[op.UniqueSuffix]
	for i, o := range l {
		if sameOp(o, op) {
			s.ops[op.UniqueSuffix] = append(append([]*operation.AnchoredOperation{}, l[:i]...), l[i+1:]...)
			break
		}
	}
	if len(s.ops[op.UniqueSuffix]) == 0 {
		delete(s.ops, op.UniqueSuffix)
	}
}

// Delete removes one unpublished operation.
func (s *UnpubStore) Delete(op *operation.AnchoredOperation) error {
	s.mu.Lock()
	defer s.mu.Unlock()
	s.dels++
	if s.FailDelete != nil {
		if err := s.FailDelete(s.dels); err != nil {
			return err
		}
	}
	s.remove(op)
	return nil
}

// DeleteAll removes the given operations.
func (s *UnpubStore) DeleteAll(ops []*operation.AnchoredOperation) error {
	s.mu.Lock()
	defer s.mu.Unlock()
	s.delAlls++
	if s.FailDelAll != nil {
		if err := s.FailDelAll(s.delAlls); err != nil {
			return err
		}
	}
	for _, op := range ops {
		s.remove(op)
	}
	return nil
}

// Get returns the unpublished operations of a suffix.
func (s *UnpubStore) Get(suffix string) ([]*operation.AnchoredOperation, error) {
	s.mu.Lock()
	defer s.mu.Unlock()
	l := s.ops[suffix]
	if len(l) == 0 {
		return nil, errors.New("not found")
	}
	out := make([]*operation.AnchoredOperation, len(l))
	for i, op := range l {
		out[i] = CopyOp(op)
	}
	return out, nil
}

// Count returns the total number of stored unpublished operations.
func (s *UnpubStore) Count() int {
	s.mu.Lock()
	defer s.mu.Unlock()
	n := 0
	for _, l := range s.ops {
		n += len(l)
	}
	return n
}

// DelAllCalls returns the number of DeleteAll calls so far.
func (s *UnpubStore) DelAllCalls() int {
	s.mu.Lock()
	defer s.mu.Unlock()
	return s.delAlls
}

// ---------------------------------------------------------------------------------------------
// counting applier proxy (termination / consumed-at-most-once observations)

// ApplyEvent is one successful Apply call seen by CountingApplier.
type ApplyEvent struct {
	Type              operation.Type
	TxnTime, TxnNum   uint64
	UpdateBefore      string
	RecoveryBefore    string
	RequestFingerpint string
}

// CountingApplier wraps an applier, counts calls and aborts (panics with ErrStepBound) past Limit.
type CountingApplier struct {
	Inner   protocol.OperationApplier
	Calls   int
	Limit   int
	Applied []ApplyEvent
}

// ErrStepBound is the panic value raised when the Apply step bound is exceeded.
var ErrStepBound = errors.New("verif: apply step bound exceeded (non-termination)")

// Apply implements protocol.OperationApplier.
func (c *CountingApplier) Apply(op *operation.AnchoredOperation, rm *protocol.ResolutionModel) (*protocol.ResolutionModel, error) {
	c.Calls++
	if c.Limit > 0 && c.Calls > c.Limit {
		panic(ErrStepBound)
	}
	res, err := c.Inner.Apply(op, rm)
	if err == nil && res != nil {
		h := sha256.Sum256(op.OperationRequest)
		c.Applied = append(c.Applied, ApplyEvent{Type: op.Type, TxnTime: op.TransactionTime, TxnNum: op.TransactionNumber,
			UpdateBefore: rm.UpdateCommitment, RecoveryBefore: rm.RecoveryCommitment, RequestFingerpint: base64.RawURLEncoding.EncodeToString(h[:8])})
	}
	return res, err
}

// DocMetrics is a no-op metrics provider for the document handler.
type DocMetrics struct{}

// ProcessOperation is a no-op.
func (DocMetrics) ProcessOperation(time.Duration) {}

// GetProtocolVersionTime is a no-op.
func (DocMetrics) GetProtocolVersionTime(time.Duration) {}

// ParseOperationTime is a no-op.
func (DocMetrics) ParseOperationTime(time.Duration) {}

// ValidateOperationTime is a no-op.
func (DocMetrics) ValidateOperationTime(time.Duration) {}

// DecorateOperationTime is a no-op.
func (DocMetrics) DecorateOperationTime(time.Duration) {}

// AddUnpublishedOperationTime is a no-op.
func (DocMetrics) AddUnpublishedOperationTime(time.Duration) {}

// AddOperationToBatchTime is a no-op.
func (DocMetrics) AddOperationToBatchTime(time.Duration) {}

// GetCreateOperationResultTime is a no-op.
func (DocMetrics) GetCreateOperationResultTime(time.Duration) {}
