// Package c10 decides property C10: whenever intake accepts a request it satisfies every protocol rule and
// limit; every limit is inclusive, exact and governed only by its own parameter; every parser entry point
// answers arbitrary bytes with an error, never a panic.
package c10

import (
	"bytes"
	"encoding/json"
	"fmt"
	"strings"
	"testing"

	"github.com/trustbloc/sidetree-core-go/pkg/api/operation"
	"github.com/trustbloc/sidetree-core-go/pkg/api/protocol"
	"github.com/trustbloc/sidetree-core-go/pkg/dochandler"
	"github.com/trustbloc/sidetree-core-go/pkg/processor"
	"pgregory.net/rapid"

	"verifharness/kit/asm"
	"verifharness/kit/ev"
	"verifharness/kit/gen"
	"verifharness/kit/keys"
	"verifharness/kit/refjcs"
	"verifharness/kit/wire"
)

func TestMain(m *testing.M) { ev.Main(m, "C10") }

const (
	chkImplies = "accepted-implies-rules"
	chkLimits  = "limits-exact-and-independent"
	chkPanic   = "entry-points-never-panic"
	chkFuzz    = "FuzzParser"
)

const ns = "did:sidetree"

// Params is the part of the protocol configuration that C10 varies.
type Params struct {
	Hashes        []uint   `json:"multihashAlgorithms"`
	OperationSize uint     `json:"maxOperationSize"`
	DeltaSize     uint     `json:"maxDeltaSize"`
	HashLength    uint     `json:"maxOperationHashLength"`
	NonceSize     uint64   `json:"nonceSize"`
	SigAlgs       []string `json:"signatureAlgorithms"`
	KeyAlgs       []string `json:"keyAlgorithms"`
	Patches       []string `json:"patches"`
	// unrelated parameters (must not influence intake)
	TimeDelta uint64 `json:"maxOperationTimeDelta"`
	OpCount   uint   `json:"maxOperationCount"`
	CasURI    uint   `json:"maxCasUriLength"`
	ChunkSize uint   `json:"maxChunkFileSize"`
}

func baseParams() Params {
	b := wire.BaseProtocol()
	return Params{Hashes: []uint{18, 19}, OperationSize: 200003, DeltaSize: 100003, HashLength: 151, NonceSize: 16,
		SigAlgs: b.SignatureAlgorithms, KeyAlgs: b.KeyAlgorithms, Patches: b.Patches, TimeDelta: 7207, OpCount: 50, CasURI: 103, ChunkSize: 2000003}
}

func (p Params) protocol() protocol.Protocol {
	b := wire.BaseProtocol()
	b.MultihashAlgorithms = p.Hashes
	b.MaxOperationSize, b.MaxDeltaSize, b.MaxOperationHashLength, b.NonceSize = p.OperationSize, p.DeltaSize, p.HashLength, p.NonceSize
	b.SignatureAlgorithms, b.KeyAlgorithms, b.Patches = p.SigAlgs, p.KeyAlgs, p.Patches
	b.MaxOperationTimeDelta, b.MaxOperationCount, b.MaxCasURILength, b.MaxChunkFileSize = p.TimeDelta, p.OpCount, p.CasURI, p.ChunkSize
	return b
}

// Case is one request under one configuration.
type Case struct {
	Request []byte `json:"request"`
	P       Params `json:"params"`
	Note    string `json:"note"`
	// Want: "" = only the implication is checked; "accept" / "reject" = exact expectation (limit cases)
	Want string `json:"want,omitempty"`
	// Alt: configuration differing only in unrelated parameters; the verdict must not move
	Alt *Params `json:"alt,omitempty"`
}

func init() {
	for _, c := range []string{chkImplies, chkLimits, chkPanic, chkFuzz} {
		ev.RegisterReplay(c, replay)
	}
	ev.Assume("rules the statement does not list (e.g. agreement of an update's delta with its signed delta hash at intake) are not required of accepted requests")
	ev.Assume("'well-formed multihash' means consistent framing (code, length, digest of that length) in base64url; the digest length is not tied to the code by the statement")
}

// TestReplay runs first.
func TestReplay(t *testing.T) { ev.ReplayMain(t) }

func replay(raw json.RawMessage) (string, string) {
	var c Case
	if err := json.Unmarshal(raw, &c); err != nil {
		return "bad-replay", err.Error()
	}
	k, m, _ := evalCase(&c)
	return k, m
}

// ---- the independent acceptance predicate -----------------------------------------------------------------

func in(l []string, s string) bool {
	for _, x := range l {
		if x == s {
			return true
		}
	}
	return false
}

// fold emulates how encoding/json binds object members to struct fields: names match case-insensitively and
// the last matching member wins. It returns the object re-keyed by the canonical field names given.
func fold(v *refjcs.Value, fields ...string) map[string]interface{} {
	if v == nil || v.Kind != refjcs.Object {
		return nil
	}
	out := map[string]interface{}{}
	for _, m := range v.Obj {
		for _, f := range fields {
			if strings.EqualFold(m.Name, f) {
				out[f] = m.Val
			}
		}
	}
	return out
}

func vstr(m map[string]interface{}, k string) (string, bool) {
	v, ok := m[k].(*refjcs.Value)
	if !ok || v.Kind != refjcs.String {
		return "", false
	}
	return v.Str, true
}

func vobj(m map[string]interface{}, k string) *refjcs.Value {
	v, _ := m[k].(*refjcs.Value)
	if v == nil || v.Kind != refjcs.Object {
		return nil
	}
	return v
}

func str(m map[string]interface{}, k string) (string, bool) {
	v, ok := m[k].(string)
	return v, ok
}

// digestLengths: what the algorithms produce (multicodec table: sha2-256, sha2-512, sha3-512, sha3-384, sha3-256).
var digestLengths = map[uint64]int{asm.SHA256: 32, asm.SHA512: 64, 0x14: 64, 0x15: 48, 0x16: 32}

const suffixFormRule = "didSuffix is not a well-formed multihash"

// hashRule: well-formed multihash of an allowed algorithm within the maximum hash length.
func hashRule(p Params, field, mh string) string {
	if uint(len(mh)) > p.HashLength {
		return fmt.Sprintf("%s longer (%d) than maxOperationHashLength %d", field, len(mh), p.HashLength)
	}
	code, digest, ok := asm.DecodeMultihash(mh)
	if !ok {
		return field + " is not a well-formed multihash"
	}
	if want := digestLengths[code]; want != 0 && len(digest) != want {
		return fmt.Sprintf("%s carries a digest of %d bytes, its algorithm produces %d", field, len(digest), want)
	}
	for _, c := range p.Hashes {
		if uint64(c) == code {
			return ""
		}
	}
	return fmt.Sprintf("%s uses multihash code %d which is not enabled", field, code)
}

// broken returns the first listed rule that the (accepted) request violates, or "". Requests the reference
// parser cannot read (duplicate member names, which encoding/json tolerates) are not judged.
func broken(req []byte, p Params) (out string) {
	if uint(len(req)) > p.OperationSize {
		return fmt.Sprintf("request size %d exceeds maxOperationSize %d", len(req), p.OperationSize)
	}
	root, perr := refjcs.Parse(req)
	if perr != nil || root.Kind != refjcs.Object {
		return ""
	}
	m := fold(root, "type", "suffixData", "delta", "revealValue", "signedData", "didSuffix")
	typ, _ := vstr(m, "type")
	var delta map[string]interface{}
	switch typ {
	case "create":
		sd := fold(vobj(m, "suffixData"), "deltaHash", "recoveryCommitment")
		if sd == nil {
			return "create without suffix data"
		}
		for _, f := range []string{"deltaHash", "recoveryCommitment"} {
			v, _ := vstr(sd, f)
			if r := hashRule(p, "suffixData."+f, v); r != "" {
				return r
			}
		}
		delta = fold(vobj(m, "delta"), "updateCommitment", "patches")
	case "update", "recover", "deactivate":
		rv, _ := vstr(m, "revealValue")
		if r := hashRule(p, "revealValue", rv); r != "" {
			return r
		}
		// the DID suffix is the hash of the create's suffix data; it may stem from an algorithm of an earlier protocol
		// version, so only the length limit is applied to it here
		ds, _ := vstr(m, "didSuffix")
		if uint(len(ds)) > p.HashLength {
			return fmt.Sprintf("didSuffix longer (%d) than maxOperationHashLength %d", len(ds), p.HashLength)
		}
		// ... and the form: the one base64url spelling of a multihash whose digest has its algorithm's length (judged
		// after every other rule, below)
		suffixForm := ""
		if code, digest, ok := asm.DecodeMultihash(ds); !ok || (digestLengths[code] != 0 && len(digest) != digestLengths[code]) {
			suffixForm = suffixFormRule
		}
		defer func() {
			if out == "" {
				out = suffixForm
			}
		}()
		sdat, _ := vstr(m, "signedData")
		parts := strings.Split(sdat, ".")
		if len(parts) != 3 {
			return "signed data is not a compact JWS"
		}
		hb, err1 := asm.UnB64(parts[0])
		pb, err2 := asm.UnB64(parts[1])
		if err1 != nil || err2 != nil {
			return "signed data segments are not base64url"
		}
		hv, herr := refjcs.Parse(hb)
		sv, serr := refjcs.Parse(pb)
		if herr != nil || serr != nil {
			return ""
		}
		// protected header names are map keys (case-sensitive)
		var alg string
		for _, hm := range hv.Obj {
			if hm.Name == "alg" && hm.Val.Kind == refjcs.String {
				alg = hm.Val.Str
			}
		}
		if !in(p.SigAlgs, alg) {
			return fmt.Sprintf("signature algorithm %q is not enabled", alg)
		}
		keyName := "recoveryKey"
		if typ == "update" {
			keyName = "updateKey"
		}
		signed := fold(sv, keyName, "deltaHash", "recoveryCommitment")
		key := fold(vobj(signed, keyName), "kty", "crv", "x", "y", "nonce")
		if key == nil {
			return "signed data without signing key"
		}
		crv, _ := vstr(key, "crv")
		if !in(p.KeyAlgs, crv) {
			return fmt.Sprintf("signing key curve %q is not enabled", crv)
		}
		// the signature is made (and later verified) with the key: its algorithm is the one that goes with the key's curve
		if want := map[string]string{"P-256": "ES256", "P-384": "ES384", "P-521": "ES512", "secp256k1": "ES256K", "Ed25519": "EdDSA"}[crv]; want != "" && alg != want {
			return fmt.Sprintf("the signature algorithm of a %s key is %s, which the header does not name (%q) - the algorithm actually used need not be enabled", crv, want, alg)
		}
		nonce, _ := vstr(key, "nonce")
		if nonce != "" {
			nb, err := asm.UnB64(nonce)
			if err != nil || uint64(len(nb)) != p.NonceSize {
				return fmt.Sprintf("nonce of %d bytes, nonceSize is %d", len(nb), p.NonceSize)
			}
		}
		// reveal value is the hash of the signing key (the key model has exactly kty, crv, x, y and an optional nonce)
		kty, _ := vstr(key, "kty")
		x, _ := vstr(key, "x")
		y, _ := vstr(key, "y")
		km := map[string]interface{}{"kty": kty, "crv": crv, "x": x, "y": y}
		if nonce != "" {
			km["nonce"] = nonce
		}
		code, _, _ := asm.DecodeMultihash(rv)
		// ... of the key as it stands in the signed data, when the member is there once and under its own name (the key
		// model would add an empty y to a key that has none and drop members it does not know); with twin members the
		// model decides which one is meant, and the model's form is what can be said
		exact, variants := (*refjcs.Value)(nil), 0
		for _, sm := range sv.Obj {
			if strings.EqualFold(sm.Name, keyName) {
				variants++
				if sm.Name == keyName {
					exact = sm.Val
				}
			}
		}
		// (the same inside the key: a member such as "Y" next to or instead of "y" is bound to the model's field by a
		// reader that folds case - which of the two is meant is the model's call, see the twin findings of C08)
		plainKey := exact != nil && exact.Kind == refjcs.Object
		if plainKey {
			for _, km := range exact.Obj {
				for _, f := range []string{"kty", "crv", "x", "y", "nonce"} {
					if km.Name != f && strings.EqualFold(km.Name, f) {
						plainKey = false
					}
				}
			}
		}
		if variants == 1 && plainKey {
			if canon, err := refjcs.Canonical(exact); err != nil || asm.Multihash(code, canon) != rv {
				return "reveal value is not the hash of the signing key as it stands in the signed data"
			}
		} else if canon, err := refjcs.Canonical(refjcs.FromGo(km)); err != nil || asm.Multihash(code, canon) != rv {
			return "reveal value is not the hash of the signing key"
		}
		if typ != "deactivate" {
			dh, _ := vstr(signed, "deltaHash")
			if r := hashRule(p, "signed deltaHash", dh); r != "" {
				return r
			}
			delta = fold(vobj(m, "delta"), "updateCommitment", "patches")
		}
		if typ == "recover" {
			rc, _ := vstr(signed, "recoveryCommitment")
			if r := hashRule(p, "signed recoveryCommitment", rc); r != "" {
				return r
			}
		}
	default:
		return fmt.Sprintf("operation type %q", typ)
	}
	if typ != "deactivate" {
		if delta == nil {
			return "accepted without a delta"
		}
		uc, _ := vstr(delta, "updateCommitment")
		if r := hashRule(p, "delta.updateCommitment", uc); r != "" {
			return r
		}
		// canonical size of the delta model (updateCommitment + patches)
		dm := &refjcs.Value{Kind: refjcs.Object}
		if uc != "" {
			dm.Obj = append(dm.Obj, refjcs.Member{Name: "updateCommitment", Val: &refjcs.Value{Kind: refjcs.String, Str: uc}})
		}
		ps, _ := delta["patches"].(*refjcs.Value)
		if ps != nil && ps.Kind == refjcs.Array && len(ps.Arr) > 0 {
			dm.Obj = append(dm.Obj, refjcs.Member{Name: "patches", Val: ps})
		}
		canon, err := refjcs.Canonical(dm)
		if err == nil && uint(len(canon)) > p.DeltaSize {
			return fmt.Sprintf("canonical delta size %d exceeds maxDeltaSize %d", len(canon), p.DeltaSize)
		}
		if ps == nil || ps.Kind != refjcs.Array || len(ps.Arr) == 0 {
			return "accepted without patches"
		}
		for _, pt := range ps.Arr {
			a := ""
			if pt.Kind == refjcs.Object {
				for _, pm := range pt.Obj {
					if pm.Name == "action" && pm.Val.Kind == refjcs.String {
						a = pm.Val.Str
					}
				}
			}
			if !in(p.Patches, a) {
				return fmt.Sprintf("patch action %q is not enabled", a)
			}
		}
	}
	return ""
}

// sigOf: the signature a violation is filed under. The DID suffix form has its own (an open known finding).
func sigOf(kind, msg, deflt string) string {
	if kind == "C10/accepted-violating-rule" && strings.Contains(msg, suffixFormRule) {
		return "C10/did-suffix-not-a-multihash"
	}
	return deflt
}

func accepts(req []byte, p Params) (ok bool, errText, panicText string) {
	v := wire.Build(p.protocol(), wire.Deps{})
	var err error
	panicText = ev.Catch(func() { _, err = v.Parser.Parse(ns, req) })
	if err != nil {
		errText = err.Error()
	}
	return err == nil && panicText == "", errText, panicText
}

// evalCase returns (kind, message, accepted).
func evalCase(c *Case) (string, string, bool) {
	ok, errText, pn := accepts(c.Request, c.P)
	if pn != "" {
		return "C10/panic", "Parse panicked: " + pn, false
	}
	if ok {
		if r := broken(c.Request, c.P); r != "" {
			return "C10/accepted-violating-rule", fmt.Sprintf("intake accepted a request that violates a rule (%s): %s [%s] params=%s", c.Note, r, ev.Trunc(string(c.Request), 400), js(c.P)), true
		}
	}
	if c.Want == "accept" && !ok {
		return "C10/limit-not-inclusive", fmt.Sprintf("request exactly within its limits was rejected (%s): %s; params=%s", c.Note, errText, js(c.P)), ok
	}
	if c.Want == "reject" && ok {
		return "C10/limit-not-enforced", fmt.Sprintf("request one past a limit was accepted (%s); params=%s", c.Note, js(c.P)), ok
	}
	if c.Alt != nil {
		ok2, err2, pn2 := accepts(c.Request, *c.Alt)
		if pn2 != "" {
			return "C10/panic", "Parse panicked: " + pn2, ok
		}
		if ok2 != ok {
			return "C10/parameter-bleed", fmt.Sprintf("intake verdict moves (%v -> %v, %s / %s) when only unrelated parameters change (%s): %s -> %s", ok, ok2, errText, err2, c.Note, js(c.P), js(*c.Alt)), ok
		}
	}
	return "", "", ok
}

func js(v interface{}) string {
	b, _ := json.Marshal(v)
	return string(b)
}

// ---- request generation ------------------------------------------------------------------------------------

type reqSpec struct {
	typ    string
	code   uint64
	kt     keys.Type
	nonce  int // 0 = none
	kid    string
	from   int64
	until  int64
	patchs []interface{}
}

func buildReq(s reqSpec, tamper func(req map[string]interface{}, signed *asm.Signed, create *asm.Create)) []byte {
	k := func(i int) *keys.Key {
		kk := keys.Get(s.kt, "c10", i)
		if s.nonce > 0 {
			return kk.WithNonce(s.nonce, "c10")
		}
		return kk
	}
	patches := s.patchs
	if patches == nil {
		patches = []interface{}{map[string]interface{}{"action": "add-also-known-as", "uris": []interface{}{"https://a.example/1"}}}
	}
	if s.typ == "create" {
		c := &asm.Create{Code: s.code, RecoveryCommit: asm.Commit(k(0), s.code), Delta: asm.Delta(asm.Commit(k(1), s.code), patches)}
		req := c.Request()
		if tamper != nil {
			tamper(req, nil, c)
		}
		return asm.BytesOf(req)
	}
	sg := &asm.Signed{Type: s.typ, Suffix: asm.Multihash(s.code, []byte("c10 suffix data")), Code: s.code, RevealKey: k(2), From: s.from, Until: s.until}
	if s.kid != "" {
		sg.Header = asm.Header(k(2), s.kid)
	}
	if s.typ != "deactivate" {
		sg.Delta = asm.Delta(asm.Commit(k(3), s.code), patches)
	}
	if s.typ == "recover" {
		sg.NextRecoveryCommit = asm.Commit(k(4), s.code)
	}
	req := sg.Request()
	if tamper != nil {
		tamper(req, sg, nil)
	}
	return asm.BytesOf(req)
}

func drawSpec(t *rapid.T) reqSpec {
	s := reqSpec{typ: rapid.SampledFrom([]string{"create", "update", "recover", "deactivate"}).Draw(t, "type"),
		code: rapid.SampledFrom([]uint64{asm.SHA256, asm.SHA512}).Draw(t, "hash"), kt: rapid.SampledFrom(keys.AllTypes).Draw(t, "keyType"),
		kid: rapid.SampledFrom([]string{"", "kid1"}).Draw(t, "kid")}
	if rapid.Bool().Draw(t, "nonce") {
		s.nonce = rapid.SampledFrom([]int{16, 16, 15, 17, 1, 32}).Draw(t, "nonceLen")
	}
	if rapid.IntRange(0, 3).Draw(t, "window") == 0 {
		s.from = 1000
		s.until = int64(rapid.SampledFrom([]int{0, 5000}).Draw(t, "until"))
	}
	s.patchs = gen.ValidPatches(t, 3, gen.PatchOpts{})
	return s
}

// mutation of one field of a valid request (re-signing nothing: intake does not verify signatures).
func mutations() []string {
	return []string{"none", "hash-other-alg", "hash-malformed", "hash-too-long", "hash-unknown-code", "alg-disabled", "crv-disabled", "nonce-wrong-size", "patch-disabled", "reveal-mismatch",
		"alg-case-variant", "crv-case-variant", "short-digest", "reveal-of-other-key", "reveal-of-other-key-signed-own", "reveal-respelled", "patch-unknown-action", "delta-missing", "signed-data-missing", "did-suffix-over-long", "hash-respelled", "alg-of-another-key-type", "digest-length", "did-suffix-not-a-multihash", "signing-key-in-another-form"}
}

func mutate(t *rapid.T, s reqSpec, mut string, p *Params) []byte {
	pickHashField := func(req map[string]interface{}, sg *asm.Signed, c *asm.Create, newVal func(old string) string) {
		// choose one of the request's hash fields and replace it
		type loc struct {
			m map[string]interface{}
			k string
		}
		var locs []loc
		if c != nil {
			sd := req["suffixData"].(map[string]interface{})
			locs = append(locs, loc{sd, "deltaHash"}, loc{sd, "recoveryCommitment"}, loc{req["delta"].(map[string]interface{}), "updateCommitment"})
		} else {
			locs = append(locs, loc{req, "revealValue"})
			if d, ok := req["delta"].(map[string]interface{}); ok {
				locs = append(locs, loc{d, "updateCommitment"})
			}
		}
		l := locs[rapid.IntRange(0, len(locs)-1).Draw(t, "hashField")]
		old, _ := l.m[l.k].(string)
		l.m[l.k] = newVal(old)
	}
	resign := func(req map[string]interface{}, sg *asm.Signed, f func(signed map[string]interface{}, hdr map[string]interface{})) {
		signed := sg.SignedData()
		hdr := sg.HeaderMap()
		f(signed, hdr)
		payload := refjcs.MustCanonicalGo(signed)
		req["signedData"] = asm.Compact(hdr, payload, sg.RevealKey.Sign(asm.SigningInput(hdr, payload)))
	}
	keyName := func(sg *asm.Signed) string {
		if sg.Type == "update" {
			return "updateKey"
		}
		return "recoveryKey"
	}
	return buildReq(s, func(req map[string]interface{}, sg *asm.Signed, c *asm.Create) {
		switch mut {
		case "hash-other-alg":
			// the protocol enables only the request's own algorithm; one hash field uses the other one
			p.Hashes = []uint{uint(s.code)}
			other := asm.SHA256 + asm.SHA512 - s.code
			pickHashField(req, sg, c, func(string) string { return asm.Multihash(other, []byte("x")) })
		case "hash-malformed":
			pickHashField(req, sg, c, func(old string) string {
				return rapid.SampledFrom([]string{"", "AAAA", "!!!", old[:len(old)-3], old + "A", "EiA"}).Draw(t, "badHash")
			})
		case "hash-respelled":
			// the right hash in another base64url spelling: non-zero unused bits in the last character, a line break
			// somewhere, padding
			pickHashField(req, sg, c, func(old string) string {
				if len(old) < 3 {
					return old
				}
				const alphabet = "ABCDEFGHIJKLMNOPQRSTUVWXYZabcdefghijklmnopqrstuvwxyz0123456789-_"
				switch rapid.IntRange(0, 2).Draw(t, "hashRespelling") {
				case 0:
					i := strings.IndexByte(alphabet, old[len(old)-1])
					return old[:len(old)-1] + string(alphabet[i^1])
				case 1:
					at := rapid.IntRange(0, len(old)).Draw(t, "hashBreakAt")
					return old[:at] + rapid.SampledFrom([]string{"\n", "\r", "\r\n"}).Draw(t, "hashLineBreak") + old[at:]
				default:
					return old + "="
				}
			})
		case "hash-too-long":
			p.HashLength = uint(rapid.SampledFrom([]int{10, 45, 46, 89, 90}).Draw(t, "hashLimit"))
		case "hash-unknown-code":
			pickHashField(req, sg, c, func(string) string { return asm.B64(asm.FrameMultihash(0x16, asm.Digest(asm.SHA256, []byte("x")))) })
		case "short-digest":
			pickHashField(req, sg, c, func(string) string { return asm.B64(asm.FrameMultihash(s.code, []byte{1, 2, 3})) })
		case "alg-of-another-key-type":
			// the header names an enabled algorithm, the key (and with it the signature) is of another one that may
			// not even be enabled: the algorithm that actually signs is the key's
			if sg != nil {
				other := rapid.SampledFrom(without([]string{"ES256", "ES384", "ES512", "ES256K", "EdDSA"}, s.kt.Alg())).Draw(t, "otherAlg")
				if rapid.Bool().Draw(t, "onlyTheNamedAlgorithmEnabled") {
					p.SigAlgs = []string{other}
				}
				resign(req, sg, func(_ map[string]interface{}, hdr map[string]interface{}) { hdr["alg"] = other })
			}
		case "digest-length":
			// well-formed framing around a digest of another length than the algorithm produces (0, 1, 31, 33, 63, 65 bytes)
			// (one time in four under sha3-256, enabled for the occasion: an algorithm the protocol may allow although the
			// library does not compute it itself)
			code := s.code
			if rapid.IntRange(0, 3).Draw(t, "digestUnderSha3") == 0 {
				code = 0x16
				p.Hashes = append(append([]uint{}, p.Hashes...), 0x16)
			}
			pickHashField(req, sg, c, func(string) string {
				n := rapid.SampledFrom([]int{0, 1, 31, 33, 63, 65}).Draw(t, "digestLen")
				if digestLengths[code] == n {
					n++
				}
				return asm.B64(asm.FrameMultihash(code, make([]byte, n)))
			})
		case "alg-disabled":
			p.SigAlgs = without(p.SigAlgs, s.kt.Alg())
		case "crv-disabled":
			p.KeyAlgs = without(p.KeyAlgs, s.kt.Crv())
		case "alg-case-variant":
			if sg != nil {
				p.SigAlgs = []string{s.kt.Alg()}
				resign(req, sg, func(_ map[string]interface{}, hdr map[string]interface{}) { hdr["alg"] = swapCase(s.kt.Alg()) })
			}
		case "crv-case-variant":
			if sg != nil {
				resign(req, sg, func(signed map[string]interface{}, _ map[string]interface{}) {
					k := signed[keyName(sg)].(map[string]interface{})
					k["crv"] = swapCase(s.kt.Crv())
				})
			}
		case "nonce-wrong-size":
			p.NonceSize = uint64(rapid.SampledFrom([]int{15, 17, 0, 16}).Draw(t, "nonceSize"))
		case "patch-disabled":
			if d, ok := req["delta"].(map[string]interface{}); ok {
				ps := d["patches"].([]interface{})
				a := ps[rapid.IntRange(0, len(ps)-1).Draw(t, "whichPatch")].(map[string]interface{})["action"].(string)
				p.Patches = without(p.Patches, a)
			}
		case "patch-unknown-action":
			if d, ok := req["delta"].(map[string]interface{}); ok {
				d["patches"] = append(d["patches"].([]interface{}), map[string]interface{}{"action": "custom-action", "x": 1})
			}
		case "reveal-mismatch":
			if sg != nil {
				req["revealValue"] = asm.Multihash(s.code, []byte("not the key"))
			}
		case "reveal-of-other-key":
			if sg != nil {
				req["revealValue"] = asm.Reveal(keys.Get(s.kt, "c10", 9), s.code)
			}
		case "reveal-of-other-key-signed-own":
			// the request names another key's hash while the signed data repeats, in a revealValue member of its
			// own, the hash of the key that signs
			if sg != nil {
				req["revealValue"] = asm.Reveal(keys.Get(s.kt, "c10", 9), s.code)
				own := asm.Reveal(sg.RevealKey, s.code)
				resign(req, sg, func(signed map[string]interface{}, _ map[string]interface{}) { signed["revealValue"] = own })
			}
		case "signing-key-in-another-form":
			// the same key written differently in the signed data - an Ed25519 key without its (empty) y member, any key
			// with a member the key model does not know - while the reveal value stays the hash of the first form
			if sg != nil {
				member := "recoveryKey"
				if sg.Type == "update" {
					member = "updateKey"
				}
				resign(req, sg, func(signed map[string]interface{}, _ map[string]interface{}) {
					km, _ := signed[member].(map[string]interface{})
					other := map[string]interface{}{}
					for k, v := range km {
						other[k] = v
					}
					if y, _ := other["y"].(string); y == "" && rapid.Bool().Draw(t, "dropEmptyY") {
						delete(other, "y")
					} else {
						other["kid"] = "key-1"
					}
					signed[member] = other
				})
			}
		case "did-suffix-not-a-multihash":
			// within the length limit, but not a hash: text, base64url of something else, a multihash without digest or
			// with a digest of another length, another spelling of the genuine suffix
			if ds, ok := req["didSuffix"].(string); ok {
				odd := rapid.SampledFrom([]string{"!!! this is no hash !!!", "abc", "EgA", "EiA", asm.B64(asm.FrameMultihash(asm.SHA256, make([]byte, 31))), asm.B64(asm.FrameMultihash(asm.SHA512, make([]byte, 32))), ds + "\n", "did-suffix"}).Draw(t, "oddSuffix")
				req["didSuffix"] = odd
				if sg != nil && sg.Type == "deactivate" {
					resign(req, sg, func(signed map[string]interface{}, _ map[string]interface{}) { signed["didSuffix"] = odd })
				}
			}
		case "did-suffix-over-long":
			// the DID suffix of an update / recover / deactivate is a hash field too: longer than the maximum hash length
			// (a deactivate signs its suffix, the others do not)
			if _, ok := req["didSuffix"].(string); ok {
				long := strings.Repeat("E", int(p.HashLength)+rapid.IntRange(1, 40).Draw(t, "suffixExcess"))
				req["didSuffix"] = long
				if sg != nil && sg.Type == "deactivate" {
					resign(req, sg, func(signed map[string]interface{}, _ map[string]interface{}) { signed["didSuffix"] = long })
				}
			}
		case "reveal-respelled":
			// another base64url spelling of the right hash: unused trailing bits of the last character, or a line break
			if rv, ok := req["revealValue"].(string); ok && sg != nil && len(rv) > 2 {
				const alphabet = "ABCDEFGHIJKLMNOPQRSTUVWXYZabcdefghijklmnopqrstuvwxyz0123456789-_"
				switch rapid.IntRange(0, 2).Draw(t, "respelling") {
				case 0:
					i := strings.IndexByte(alphabet, rv[len(rv)-1])
					req["revealValue"] = rv[:len(rv)-1] + string(alphabet[i^1])
				case 1:
					at := rapid.IntRange(0, len(rv)).Draw(t, "breakAt")
					req["revealValue"] = rv[:at] + rapid.SampledFrom([]string{"\n", "\r", "\r\n"}).Draw(t, "lineBreak") + rv[at:]
				default:
					req["revealValue"] = rv + "="
				}
			}
		case "delta-missing":
			delete(req, "delta")
		case "signed-data-missing":
			delete(req, "signedData")
		}
	})
}

func without(l []string, s string) []string {
	var out []string
	for _, x := range l {
		if x != s {
			out = append(out, x)
		}
	}
	return out
}

func swapCase(s string) string {
	b := []byte(s)
	for i, c := range b {
		switch {
		case c >= 'a' && c <= 'z':
			b[i] = c - 32
		case c >= 'A' && c <= 'Z':
			b[i] = c + 32
		}
	}
	return string(b)
}

func TestAcceptedImpliesRules(t *testing.T) {
	ev.Rule(chkImplies, "rapid: valid requests of the four types (5 key types, both hash algorithms, optional nonce of right/wrong size, kid, window, 1-3 valid patches over all eight actions) with one drawn field mutation (hash field: other algorithm, malformed, too long, unknown code, short digest; signature algorithm / key curve disabled or case-variant; nonce size; patch action disabled / unknown; reveal value not the hash of the key (also with a revealValue member inside the signed data that does match) or another base64url spelling of it; members removed) under a configuration adjusted by the mutation; oracle: Parse accepts => the independent predicate finds no violated rule (request size, canonical delta size, every hash field well-formed / allowed / within length, algorithm, curve, nonce size, patch actions, reveal == hash of key); accept rate is reported; non-trivial = a mutated request")
	ev.Rapid(t, chkImplies, 1500, 15000, func(t *rapid.T) {
		s := drawSpec(t)
		p := baseParams()
		mut := rapid.SampledFrom(mutations()).Draw(t, "mutation")
		req := mutate(t, s, mut, &p)
		c := &Case{Request: req, P: p, Note: "mutation " + mut}
		kind, msg, ok := evalCase(c)
		ev.Record(chkImplies, mut != "none", ev.Hash(req, p), "mutation:"+mut, fmt.Sprintf("accepted:%v", ok), "type:"+s.typ)
		ev.SampleFn(chkImplies, func() interface{} {
			return map[string]interface{}{"request": ev.Trunc(string(req), 300), "mutation": mut, "accepted": ok}
		})
		if kind != "" {
			ev.Fail(t, chkImplies, kind, sigOf(kind, msg, kind+"/"+mut), c, "%s", msg)
		}
	})
}

// ---- limits: inclusive, exact, own parameter only -------------------------------------------------------------

func canonicalDeltaSize(req []byte) int {
	var m map[string]interface{}
	_ = json.Unmarshal(req, &m)
	d, _ := m["delta"].(map[string]interface{})
	return len(refjcs.MustCanonicalGo(d))
}

func maxHashLen(req []byte, typ string) int {
	var m map[string]interface{}
	_ = json.Unmarshal(req, &m)
	max := 0
	upd := func(s interface{}) {
		if v, ok := s.(string); ok && len(v) > max {
			max = len(v)
		}
	}
	if sd, ok := m["suffixData"].(map[string]interface{}); ok {
		upd(sd["deltaHash"])
		upd(sd["recoveryCommitment"])
	}
	if d, ok := m["delta"].(map[string]interface{}); ok {
		upd(d["updateCommitment"])
	}
	upd(m["revealValue"])
	if sdat, ok := m["signedData"].(string); ok {
		parts := strings.Split(sdat, ".")
		if pb, err := asm.UnB64(parts[1]); err == nil {
			var signed map[string]interface{}
			_ = json.Unmarshal(pb, &signed)
			upd(signed["deltaHash"])
			upd(signed["recoveryCommitment"])
		}
	}
	return max
}

func unrelatedAlt(t *rapid.T, p Params) Params {
	a := p
	switch rapid.IntRange(0, 3).Draw(t, "unrelated") {
	case 0:
		a.TimeDelta += 1009
	case 1:
		a.OpCount += 17
	case 2:
		a.CasURI += 29
	default:
		a.ChunkSize += 4099
	}
	return a
}

func TestLimitsExactAndIndependent(t *testing.T) {
	ev.Rule(chkLimits, "rapid: an otherwise valid request (drawn type, key type, hash algorithm, patches, optional padding of the request with insignificant whitespace or of the delta with a long alsoKnownAs URI / json-patch value; for the delta limit one request in three carries 40-160 numbers written 1e20, so that its canonical delta is longer than the request as submitted) measured independently (request bytes, canonical delta bytes, longest hash string, nonce bytes); one limit L in {maxOperationSize, maxDeltaSize, maxOperationHashLength, nonceSize} is set to exactly the measured value (must accept), to one less (must reject) and - nonce - one more (must reject), all other limits far away and pairwise distinct, plus a twin configuration differing only in an unrelated parameter (verdict must not move); non-trivial = every case (all are within 1 of a limit)")
	ev.Rapid(t, chkLimits, 800, 8000, func(t *rapid.T) {
		s := drawSpec(t)
		if s.nonce != 0 {
			s.nonce = 16
		}
		limit := rapid.SampledFrom([]string{"operation-size", "delta-size", "hash-length", "nonce-size"}).Draw(t, "limit")
		if limit == "delta-size" && s.typ == "deactivate" {
			s.typ = "update"
		}
		if limit == "nonce-size" {
			if s.typ == "create" {
				s.typ = "recover"
			}
			s.nonce = rapid.SampledFrom([]int{1, 8, 16, 17, 32}).Draw(t, "nonceLen")
		}
		// optional growth of the delta / request
		if rapid.Bool().Draw(t, "growDelta") && s.typ != "deactivate" {
			// the padding also carries characters whose encoding/json spelling is longer than their canonical one
			// (&, <, >, U+2028, small exponents), so that "canonical size" and "some other serialized size" differ
			pad := strings.Repeat("p", rapid.IntRange(1, 3000).Draw(t, "padLen"))
			if rapid.Bool().Draw(t, "htmlChars") {
				pad += strings.Repeat("&a=<b>", rapid.IntRange(1, 6).Draw(t, "htmlRepeat"))
			}
			s.patchs = append(s.patchs, map[string]interface{}{"action": "add-also-known-as", "uris": []interface{}{"https://pad.example/?q=" + pad}})
			if rapid.Bool().Draw(t, "oddValues") {
				s.patchs = append(s.patchs, map[string]interface{}{"action": "ietf-json-patch", "patches": []interface{}{
					map[string]interface{}{"op": "add", "path": "/odd", "value": []interface{}{"line\u2028sep", 1e-7, "R&D <team>"}}}})
			}
		}
		compact := limit == "delta-size" && rapid.IntRange(0, 2).Draw(t, "compactNumbers") == 0
		if compact {
			// numbers that are written much shorter in the request than in the canonical form (1e20 against 21 digits): the
			// canonical delta can be longer than the whole request as it is submitted
			n := rapid.IntRange(40, 160).Draw(t, "compactCount")
			vals := make([]interface{}, n)
			for i := range vals {
				vals[i] = 1e20
			}
			s.patchs = append(s.patchs, map[string]interface{}{"action": "ietf-json-patch", "patches": []interface{}{map[string]interface{}{"op": "add", "path": "/big", "value": vals}}})
		}
		req := buildReq(s, nil)
		if compact {
			req = bytes.ReplaceAll(req, []byte("100000000000000000000"), []byte("1e20"))
		}
		if rapid.Bool().Draw(t, "padRequest") {
			// insignificant whitespace before the closing brace grows the request, not the delta
			req = append(append(append([]byte{}, req[:len(req)-1]...), bytes.Repeat([]byte(" "), rapid.IntRange(1, 500).Draw(t, "wsPad"))...), '}')
		}
		p := baseParams()
		p.NonceSize = uint64(s.nonce)
		if s.nonce == 0 {
			p.NonceSize = 16
		}
		var exact int
		set := func(q *Params, v int) {
			switch limit {
			case "operation-size":
				q.OperationSize = uint(v)
			case "delta-size":
				q.DeltaSize = uint(v)
			case "hash-length":
				q.HashLength = uint(v)
			case "nonce-size":
				q.NonceSize = uint64(v)
			}
		}
		switch limit {
		case "operation-size":
			exact = len(req)
			// keep maxDeltaSize different from the request size (a swapped parameter must be visible)
			p.DeltaSize = uint(canonicalDeltaSizeOr(req, 5000) + 1013)
		case "delta-size":
			exact = canonicalDeltaSize(req)
		case "hash-length":
			exact = maxHashLen(req, s.typ)
		case "nonce-size":
			exact = s.nonce
		}
		run := func(v int, want, note string) {
			q := p
			set(&q, v)
			alt := unrelatedAlt(t, q)
			c := &Case{Request: req, P: q, Note: fmt.Sprintf("%s limit=%d measured=%d (%s)", limit, v, exact, note), Want: want, Alt: &alt}
			kind, msg, ok := evalCase(c)
			ev.Record(chkLimits, true, ev.Hash(req, q), "limit:"+limit, "want:"+want, fmt.Sprintf("accepted:%v", ok), "type:"+s.typ)
			ev.SampleFn(chkLimits, func() interface{} {
				return map[string]interface{}{"limit": limit, "value": v, "measured": exact, "want": want, "type": s.typ, "requestBytes": len(req)}
			})
			if kind != "" {
				ev.Fail(t, chkLimits, kind, sigOf(kind, msg, kind+"/"+limit), c, "%s", msg)
			}
		}
		run(exact, "accept", "at the limit")
		if exact > 0 {
			run(exact-1, "reject", "one below the measured value")
		}
		if limit == "nonce-size" {
			run(exact+1, "reject", "nonce one byte shorter than configured")
		} else {
			run(exact+1, "accept", "one above the measured value")
		}
	})
}

func canonicalDeltaSizeOr(req []byte, def int) int {
	var m map[string]interface{}
	_ = json.Unmarshal(req, &m)
	if _, ok := m["delta"].(map[string]interface{}); !ok {
		return def
	}
	return canonicalDeltaSize(req)
}

// ---- entry points never panic ------------------------------------------------------------------------------------

// poke calls every entry point of the operation parser on the bytes; a panic is a violation.
func poke(b []byte, p Params) string {
	v := wire.Build(p.protocol(), wire.Deps{})
	calls := map[string]func(){
		"Parse":                   func() { _, _ = v.Parser.Parse(ns, b) },
		"ParseOperation(batch)":   func() { _, _ = v.RealParser.ParseOperation(ns, b, true) },
		"ParseOperation(intake)":  func() { _, _ = v.RealParser.ParseOperation(ns, b, false) },
		"GetRevealValue":          func() { _, _ = v.Parser.GetRevealValue(b) },
		"GetCommitment":           func() { _, _ = v.Parser.GetCommitment(b) },
		"ParseDID":                func() { _, _, _ = v.Parser.ParseDID(ns, string(b)) },
		"ParseDID(long form)":     func() { _, _, _ = v.Parser.ParseDID(ns, ns+":EiAsuffix:"+asm.B64(b)) },
		"ParseDID(raw long form)": func() { _, _, _ = v.Parser.ParseDID(ns, ns+":EiAsuffix:"+string(b)) },
		"ParseSignedDataForUpdate": func() {
			_, _ = v.RealParser.ParseSignedDataForUpdate(string(b))
		},
		"ParseSignedDataForRecover":    func() { _, _ = v.RealParser.ParseSignedDataForRecover(string(b)) },
		"ParseSignedDataForDeactivate": func() { _, _ = v.RealParser.ParseSignedDataForDeactivate(string(b)) },
	}
	for name, f := range calls {
		if pn := ev.Catch(f); pn != "" {
			return name + " panicked: " + pn
		}
	}
	return ""
}

var confusions = []interface{}{nil, float64(7), "str", true, []interface{}{}, []interface{}{"a", float64(1)}, map[string]interface{}{}, map[string]interface{}{"x": nil}}

// confuse replaces / removes one member at a drawn path of a JSON object (also inside the JWS payload).
func confuse(t *rapid.T, v interface{}) interface{} {
	switch x := v.(type) {
	case map[string]interface{}:
		if len(x) == 0 || rapid.IntRange(0, 3).Draw(t, "here") == 0 {
			return rapid.SampledFrom(confusions).Draw(t, "confusion")
		}
		ks := make([]string, 0, len(x))
		for k := range x {
			ks = append(ks, k)
		}
		sortStrings(ks)
		k := ks[rapid.IntRange(0, len(ks)-1).Draw(t, "member")]
		if rapid.IntRange(0, 5).Draw(t, "remove") == 0 {
			delete(x, k)
			return x
		}
		x[k] = confuse(t, x[k])
		return x
	case []interface{}:
		if len(x) == 0 || rapid.IntRange(0, 2).Draw(t, "here") == 0 {
			return rapid.SampledFrom(confusions).Draw(t, "confusion")
		}
		i := rapid.IntRange(0, len(x)-1).Draw(t, "index")
		x[i] = confuse(t, x[i])
		return x
	default:
		return rapid.SampledFrom(confusions).Draw(t, "confusion")
	}
}

func sortStrings(s []string) {
	for i := 1; i < len(s); i++ {
		for j := i; j > 0 && s[j] < s[j-1]; j-- {
			s[j], s[j-1] = s[j-1], s[j]
		}
	}
}

func TestEntryPointsNeverPanic(t *testing.T) {
	ev.Rule(chkPanic, "rapid: (a) valid requests with one member at a drawn depth replaced by null / number / string / bool / array / object or removed - in the request object and, re-encoded, inside the JWS protected header and signed payload; (b) byte-mutated valid requests (bit flips, deletions, insertions, truncation); (c) arbitrary bytes; each handed to Parse, ParseOperation (batch on/off), GetRevealValue, GetCommitment, ParseDID (short, long form, raw), ParseSignedDataFor{Update,Recover,Deactivate}; oracle: no panic (and, through the accepted-implies-rules predicate, nothing accepted that breaks a rule); non-trivial = every case")
	ev.Rapid(t, chkPanic, 2500, 25000, func(t *rapid.T) {
		s := drawSpec(t)
		p := baseParams()
		var b []byte
		kind := rapid.SampledFrom([]string{"type-confused", "type-confused", "signed-data-confused", "byte-mutated", "arbitrary", "jws-junk"}).Draw(t, "inputKind")
		switch kind {
		case "type-confused":
			b = buildReq(s, func(req map[string]interface{}, _ *asm.Signed, _ *asm.Create) {
				out := confuse(t, map[string]interface{}(req))
				if m, ok := out.(map[string]interface{}); ok {
					for k := range req {
						delete(req, k)
					}
					for k, v := range m {
						req[k] = v
					}
				} else {
					req["__replaced__"] = out
				}
			})
		case "signed-data-confused":
			if s.typ == "create" {
				s.typ = "update"
			}
			b = buildReq(s, func(req map[string]interface{}, sg *asm.Signed, _ *asm.Create) {
				signed, hdr := interface{}(sg.SignedData()), interface{}(sg.HeaderMap())
				if rapid.Bool().Draw(t, "confuseHeader") {
					hdr = confuse(t, hdr)
				} else {
					signed = confuse(t, signed)
				}
				req["signedData"] = asm.B64(refjcs.MustCanonicalGo(hdr)) + "." + asm.B64(refjcs.MustCanonicalGo(signed)) + "." + asm.B64([]byte("sig"))
			})
		case "byte-mutated":
			b = buildReq(s, nil)
			n := rapid.IntRange(1, 4).Draw(t, "edits")
			for i := 0; i < n && len(b) > 0; i++ {
				pos := rapid.IntRange(0, len(b)-1).Draw(t, "pos")
				switch rapid.IntRange(0, 3).Draw(t, "edit") {
				case 0:
					b[pos] ^= 1 << rapid.IntRange(0, 7).Draw(t, "bit")
				case 1:
					b = append(b[:pos], b[pos+1:]...)
				case 2:
					b = append(b[:pos], append([]byte{rapid.Byte().Draw(t, "ins")}, b[pos:]...)...)
				default:
					b = b[:pos]
				}
			}
		case "jws-junk":
			b = []byte(rapid.SampledFrom([]string{"", ".", "..", "a.b.c", "e30.e30.e30", "bnVsbA.bnVsbA.AA", "W10.W10.AA", "eyJhbGciOjF9.e30.AA", "eyJhbGciOiJFUzI1NiJ9.bnVsbA.AA", "eyJhbGciOiJFUzI1NiJ9.eyJ1cGRhdGVLZXkiOm51bGx9.AA"}).Draw(t, "junk"))
		default:
			b = rapid.SliceOfN(rapid.Byte(), 0, 200).Draw(t, "bytes")
		}
		pk := poke(b, p)
		c := &Case{Request: b, P: p, Note: kind}
		k2, msg, ok := evalCase(c)
		ev.Record(chkPanic, true, ev.Hash(b), "input:"+kind, fmt.Sprintf("accepted:%v", ok))
		ev.SampleFn(chkPanic, func() interface{} { return map[string]interface{}{"input": ev.Trunc(string(b), 200), "kind": kind} })
		if pk != "" {
			ev.Fail(t, chkPanic, "C10/panic", "C10/panic/"+strings.SplitN(pk, " ", 2)[0], c, "%s on %q", pk, ev.Trunc(string(b), 400))
		}
		if k2 != "" {
			ev.Fail(t, chkPanic, k2, sigOf(k2, msg, k2), c, "%s", msg)
		}
	})
}

// ---- intake through the document handler agrees with the parser ------------------------------------------------

type noWriter struct{}

func (noWriter) Add(*operation.QueuedOperation, uint64) error { return nil }

func TestHandlerAgreesWithParser(t *testing.T) {
	const chk = chkImplies
	ev.Rapid(t, "handler-agrees", 300, 3000, func(t *rapid.T) {
		s := drawSpec(t)
		s.typ = "create"
		p := baseParams()
		mut := rapid.SampledFrom([]string{"none", "hash-other-alg", "hash-malformed", "hash-too-long", "patch-disabled", "short-digest", "delta-missing"}).Draw(t, "mutation")
		req := mutate(t, s, mut, &p)
		ok, _, pn := accepts(req, p)
		if pn != "" {
			return
		}
		pc := wire.NewClient(wire.Build(p.protocol(), wire.Deps{}))
		h := dochandler.New(ns, nil, pc, noWriter{}, processor.New("verif", wire.NewOpStore(), pc), wire.DocMetrics{})
		var err error
		if hp := ev.Catch(func() { _, err = h.ProcessOperation(req, 0) }); hp != "" {
			ev.Fail(t, chk, "C10/panic", "C10/panic/ProcessOperation", &Case{Request: req, P: p, Note: "handler " + mut}, "ProcessOperation panicked: %s", hp)
		}
		ev.Record(chk, mut != "none", ev.Hash(req, p, "handler"), "handler:"+mut, fmt.Sprintf("handler-accepted:%v", err == nil))
		if err == nil && !ok {
			ev.Fail(t, chk, "C10/handler-accepts-what-parser-rejects", "C10/handler/"+mut, &Case{Request: req, P: p, Note: "handler " + mut}, "DocumentHandler.ProcessOperation accepted a create request that Parse rejects (%s)", mut)
		}
		if err == nil {
			if r := broken(req, p); r != "" {
				ev.Fail(t, chk, "C10/accepted-violating-rule", sigOf("C10/accepted-violating-rule", r, "C10/handler-rule/"+mut), &Case{Request: req, P: p, Note: "handler " + mut}, "ProcessOperation accepted a request violating a rule: %s", r)
			}
		}
	})
}

// ---- native fuzz target (thorough) -------------------------------------------------------------------------------

func FuzzParser(f *testing.F) {
	for _, typ := range []string{"create", "update", "recover", "deactivate"} {
		for _, kt := range []keys.Type{keys.Ed25519, keys.P256} {
			f.Add(buildReq(reqSpec{typ: typ, code: asm.SHA256, kt: kt, nonce: 16}, nil))
		}
	}
	f.Add([]byte(`{"type":"update","didSuffix":"a","revealValue":"EiA","signedData":"a.b.c"}`))
	f.Add([]byte(`{"type":"update"}`))
	p := baseParams()
	f.Fuzz(func(t *testing.T, b []byte) {
		if len(b) > 1<<15 {
			return
		}
		c := &Case{Request: b, P: p, Note: "native fuzz"}
		if pk := poke(b, p); pk != "" {
			ev.Fail(t, chkFuzz, "C10/panic", "C10/panic/fuzz", c, "%s", pk)
		}
		if kind, msg, _ := evalCase(c); kind != "" {
			ev.Fail(t, chkFuzz, kind, sigOf(kind, msg, kind+"/fuzz"), c, "%s", msg)
		}
	})
}
