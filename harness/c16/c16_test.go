// Package c16 decides property C16: under every interleaving of submissions, timer ticks and CAS / anchor
// failures every operation accepted by the batch writer ends up in exactly one successfully anchored batch
// (unless discarded as expired); FIFO order, failed batches return to the head in order, no batch exceeds the
// maximum or mixes protocol versions, and a smaller batch is cut only on timeout or at a version boundary.
package c16

import (
	"encoding/json"
	"errors"
	"fmt"
	"os"
	"sort"
	"strings"
	"sync"
	"testing"
	"time"

	"github.com/trustbloc/sidetree-core-go/pkg/api/operation"
	"github.com/trustbloc/sidetree-core-go/pkg/api/protocol"
	"github.com/trustbloc/sidetree-core-go/pkg/api/txn"
	"github.com/trustbloc/sidetree-core-go/pkg/batch"
	"github.com/trustbloc/sidetree-core-go/pkg/batch/cutter"
	"github.com/trustbloc/sidetree-core-go/pkg/batch/opqueue"
	"github.com/trustbloc/sidetree-core-go/pkg/dochandler"
	"github.com/trustbloc/sidetree-core-go/pkg/document"
	"github.com/trustbloc/sidetree-core-go/pkg/versions/1_0/operationparser"
	"pgregory.net/rapid"

	"verifharness/kit/asm"
	"verifharness/kit/ev"
	"verifharness/kit/gen"
	"verifharness/kit/hist"
	"verifharness/kit/keys"
	"verifharness/kit/wire"
)

func TestMain(m *testing.M) { ev.Main(m, "C16") }

const (
	chkSM   = "writer-state-machine"
	chkRace = "real-time-concurrent"
)

const ns = "did:sidetree"

// Step is one action of a schedule.
type Step struct {
	Action  string `json:"action"` // add | monitor-tick | timeout-tick | upgrade (the current protocol version advances)
	Suffix  string `json:"suffix,omitempty"`
	Version uint64 `json:"version,omitempty"`
	Expired bool   `json:"expired,omitempty"`
	// Deactivate (real handler only): the submission for an already created suffix is a deactivate request instead of
	// an update; operations for the suffix keep arriving behind it - the batching layer treats all types alike
	Deactivate bool `json:"deactivate,omitempty"`
	// TimeOffset: with ViaHandler the submission reaches the document handler with version time Version + TimeOffset
	// (a time inside that protocol version, not its genesis time)
	TimeOffset uint64 `json:"timeOffset,omitempty"`
	// plan for the batches cut during a tick (one entry per batch, in order; missing = success)
	Plans []Plan `json:"plans,omitempty"`
}

// Plan says what happens to one batch.
type Plan struct {
	FailHandler  bool   `json:"failHandler,omitempty"`  // stub handler fails (a CAS write failed)
	FailCASWrite int    `json:"failCasWrite,omitempty"` // real handler: the k-th CAS write of the batch fails
	FailAnchor   bool   `json:"failAnchor,omitempty"`
	AddDuring    []Step `json:"addDuring,omitempty"` // submissions arriving while the batch is in flight
	// StopDuring: the node shuts the writer down (Stop) while the anchor of this batch is being written; a new writer
	// over the same queue takes over after the step (restart). What the old writer had accepted must not be lost.
	StopDuring bool `json:"stopDuring,omitempty"`
}

// Case is a schedule.
type Case struct {
	Max     uint   `json:"maxOperationCount"`
	Handler string `json:"handler"` // stub | real
	Steps   []Step `json:"steps"`
	// Maxes: maximum operation count per protocol version (empty = Max for all); Current: index of the version that
	// is current at the start (-1 or absent with empty Maxes = the latest, as before)
	Maxes   []uint `json:"maxOperationCounts,omitempty"`
	Current int    `json:"current,omitempty"`
	// ViaHandler (real handler only): submissions enter through a real DocumentHandler in front of the writer, as on
	// a node, instead of calling Writer.Add directly
	ViaHandler bool `json:"viaHandler,omitempty"`
}

// expiring is the node's anchor-time validator: it reports the magic window as expired.
type expiring struct{}

func (expiring) Validate(_, until int64) error {
	if until == gen.ExpiredUntil {
		return operationparser.ErrOperationExpired
	}
	return nil
}

// passDecorator leaves operations as they are (the default decorator would resolve the DID first).
type passDecorator struct{}

func (passDecorator) Decorate(op *operation.Operation) (*operation.Operation, error) { return op, nil }

type noResolver struct{}

func (noResolver) Resolve(string, ...document.ResolutionOption) (*protocol.ResolutionModel, error) {
	return nil, errors.New("not used")
}

// maxFor is the maximum operation count of version index i.
func (c *Case) maxFor(i int) uint {
	if len(c.Maxes) == len(versions) {
		return c.Maxes[i]
	}
	return c.Max
}

func init() {
	ev.RegisterReplay(chkSM, replay)
	// real-time failures depend on the goroutine schedule: the stored file documents the outcome, it cannot be re-executed
	ev.RegisterReplay(chkRace, func(json.RawMessage) (string, string) { return "", "" })
	ev.Assume("the harness owns the schedule at the granularity of library calls (Add, one processing step through the verif hook, additions inside the in-flight window); memory-level interleavings inside the queue are only sampled by the -race stress run")
	ev.Assume("'anchored' means WriteAnchor returned nil; an operation the handler reports as expired is allowed to be dropped")
}

// TestReplay runs first.
func TestReplay(t *testing.T) { ev.ReplayMain(t) }

func replay(raw json.RawMessage) (string, string) {
	var c Case
	if err := json.Unmarshal(raw, &c); err != nil {
		return "bad-replay", err.Error()
	}
	k, m, _ := evalCase(&c)
	return k, m
}

// mop is the model's view of one accepted operation.
type mop struct {
	id      string
	suffix  string
	version uint64
	expired bool
	req     []byte
}

// world wires a real writer over real cutter + MemQueue with an observing handler / anchor writer.
type world struct {
	restart bool // the writer was stopped during the current step; a new one takes over afterwards
	c       *Case
	w       *batch.Writer
	q       *opqueue.MemQueue
	pc      *switchClient
	dh      *dochandler.DocumentHandler
	cur     int // index of the current protocol version
	cas     *wire.MemCAS
	queue   []*mop          // model of the pending queue
	byReq   map[string]*mop // request bytes -> op
	all     []*mop
	anchor  map[string]int // id -> number of successfully anchored batches containing it
	dropped map[string]bool
	nextID  int

	// per tick
	force       bool
	plans       []Plan
	inflight    []*mop
	curInfo     *protocol.AnchoringInfo
	curVersion  uint64
	viol        string
	features    map[string]bool
	realHandler map[uint64]protocol.OperationHandler
	pool        map[string]*suffixKeys
	batchWrites int64
}

type suffixKeys struct {
	suffix string
	rec    *keys.Key
	upd    *keys.Key
	n      int
}

func (w *world) fail(format string, args ...interface{}) {
	if w.viol == "" {
		w.viol = fmt.Sprintf(format, args...)
	}
}

// switchClient is a protocol client whose current version is set by the schedule (a protocol upgrade happening
// while the writer runs); Get(version) is unchanged.
type switchClient struct {
	*wire.Client
	w *world
}

func (c *switchClient) Current() (protocol.Version, error) { return c.Client.Versions[c.w.cur], nil }

type ctx struct{ w *world }

func (c ctx) Protocol() protocol.Client             { return c.w.pc }
func (c ctx) Anchor() batch.AnchorWriter            { return anchorWriter{c.w} }
func (c ctx) OperationQueue() cutter.OperationQueue { return c.w.q }

type anchorWriter struct{ w *world }

func (a anchorWriter) Read(int) (bool, *txn.SidetreeTxn) { return false, nil }

func (a anchorWriter) WriteAnchor(anchor string, _ []*protocol.AnchorDocument, refs []*operation.Reference, version uint64) error {
	w := a.w
	if version != w.curVersion {
		w.fail("anchor written under protocol version %d for a batch of operations queued under version %d", version, w.curVersion)
	}
	plan := w.plan()
	w.popPlan()
	if plan.FailAnchor {
		// the writer will nack: the batch returns to the head of the queue in its original order
		w.queue = append(append([]*mop{}, w.inflight...), w.queue...)
		w.inflight = nil
		w.features["failed-batch"] = true
		return errors.New("injected anchor failure")
	}
	// success: included operations are anchored, expired dropped, additional re-queued at the tail
	info := w.curInfo
	add := map[string]bool{}
	for _, o := range info.AdditionalOperations {
		add[string(o.OperationRequest)] = true
	}
	exp := map[string]bool{}
	for _, o := range info.ExpiredOperations {
		exp[string(o.OperationRequest)] = true
	}
	referenced := map[string]bool{}
	for _, r := range refs {
		referenced[r.UniqueSuffix] = true
	}
	var tail []*mop
	anchoredSuffix := map[string]bool{}
	for _, m := range w.inflight {
		switch {
		case exp[string(m.req)]:
			w.dropped[m.id] = true
			w.features["expired"] = true
			if !m.expired {
				w.fail("operation %s was discarded as expired although its anchoring window has not expired", name(m))
			}
		case add[string(m.req)]:
			tail = append(tail, m)
			w.features["deferred"] = true
		case !referenced[m.suffix]:
			// neither anchored (no operation reference for its suffix) nor deferred nor expired: it left the queue for good
			w.fail("operation %s of the cut batch is neither among the anchored operation references nor deferred nor reported as expired: it is lost (anchored in 0 batches)", name(m))
		case anchoredSuffix[m.suffix]:
			// the one operation reference of the suffix stands for the first operation of the cut batch; a further one
			// that is neither deferred nor reported as expired has left the queue without being anchored
			w.fail("operation %s of the cut batch shares its suffix with an earlier operation of the batch and is neither deferred nor reported as expired: it is lost (anchored in 0 batches)", name(m))
		default:
			anchoredSuffix[m.suffix] = true
			w.anchor[m.id]++
		}
	}
	if w.features["failed-batch"] {
		w.features["success-after-failure"] = true
	}
	w.queue = append(w.queue, tail...)
	w.inflight = nil
	if plan.StopDuring && w.dh == nil {
		w.w.Stop()
		w.restart = true
		w.features["stopped-during-batch"] = true
		if len(tail) > 0 {
			w.features["stopped-with-deferred-operation"] = true
		}
	}
	return nil
}

func (w *world) plan() Plan {
	if len(w.plans) > 0 {
		return w.plans[0]
	}
	return Plan{}
}

func (w *world) popPlan() {
	if len(w.plans) > 0 {
		w.plans = w.plans[1:]
	}
}

// handler observes every batch the writer cuts.
type handler struct {
	w       *world
	version uint64
}

func (h handler) PrepareTxnFiles(ops []*operation.QueuedOperation) (*protocol.AnchoringInfo, error) {
	w := h.w
	// the maximum operation count is that of the protocol version the batch is written (and read) under - the version
	// its operations have been queued under -, whatever version is current by the time the batch is cut
	max := int(w.c.maxFor(w.cur))
	for i, v := range versions {
		if v == h.version {
			max = int(w.c.maxFor(i))
		}
	}
	if len(ops) == 0 {
		w.fail("operation handler called with an empty batch")
		return nil, errors.New("empty batch")
	}
	if len(ops) > max {
		w.fail("batch of %d operations exceeds the maximum operation count %d", len(ops), max)
	}
	if len(ops) > len(w.queue) {
		w.fail("batch of %d operations cut from a queue that (per model) holds %d", len(ops), len(w.queue))
		return nil, errors.New("model mismatch")
	}
	for i, o := range ops {
		m := w.byReq[string(o.OperationRequest)]
		if m == nil || w.queue[i] != m {
			w.fail("batch is not a prefix of the queue: position %d holds %s, queue has %s (operations must leave the queue in FIFO order)", i, name(m), name(w.queue[i]))
			return nil, errors.New("model mismatch")
		}
		if m.version != h.version {
			w.fail("operation %s queued under protocol version %d is processed in a batch of version %d (batch versions: %s)", m.id, m.version, h.version, versionsOf(w, ops))
		}
		if o.UniqueSuffix != m.suffix || string(o.Type) != "update" && string(o.Type) != "create" && string(o.Type) != "deactivate" {
			w.fail("queued operation %s lost its suffix/type in the batch: %s %s", m.id, o.Type, o.UniqueSuffix)
		}
	}
	if len(ops) < max {
		boundary := len(w.queue) > len(ops) && w.queue[len(ops)].version != w.queue[0].version
		if !w.force && !boundary {
			w.fail("a batch of %d < %d operations was cut on a monitor tick without a protocol-version boundary behind it", len(ops), max)
		}
		if boundary {
			w.features["version-boundary"] = true
		}
	}
	w.inflight = append([]*mop{}, w.queue[:len(ops)]...)
	w.queue = append([]*mop{}, w.queue[len(ops):]...)
	w.curVersion = h.version
	plan := w.plan()
	// submissions arriving while the batch is in flight
	for _, s := range plan.AddDuring {
		w.add(s)
		w.features["add-in-flight"] = true
	}
	if plan.FailHandler {
		w.popPlan()
		w.queue = append(append([]*mop{}, w.inflight...), w.queue...)
		w.inflight = nil
		w.features["failed-batch"] = true
		return nil, errors.New("injected CAS failure")
	}
	var info *protocol.AnchoringInfo
	if w.c.Handler == "real" {
		start := w.cas.Writes
		if plan.FailCASWrite > 0 {
			k := start + int64(plan.FailCASWrite)
			w.cas.FailWrite = func(n int64, _ []byte) error {
				if n == k {
					return errors.New("injected CAS write failure")
				}
				return nil
			}
		} else {
			w.cas.FailWrite = nil
		}
		var err error
		info, err = w.realHandler[h.version].PrepareTxnFiles(ops)
		w.cas.FailWrite = nil
		if err != nil {
			w.popPlan()
			w.queue = append(append([]*mop{}, w.inflight...), w.queue...)
			w.inflight = nil
			w.features["failed-batch"] = true
			return nil, err
		}
	} else {
		info = &protocol.AnchoringInfo{AnchorString: fmt.Sprintf("%d.stub", len(ops))}
		seen := map[string]bool{}
		for _, o := range ops {
			m := w.byReq[string(o.OperationRequest)]
			switch {
			case m.expired:
				info.ExpiredOperations = append(info.ExpiredOperations, o)
			case seen[m.suffix]:
				info.AdditionalOperations = append(info.AdditionalOperations, o)
			default:
				seen[m.suffix] = true
				info.OperationReferences = append(info.OperationReferences, &operation.Reference{UniqueSuffix: m.suffix, Type: o.Type})
			}
		}
	}
	w.curInfo = info
	return info, nil
}

func name(m *mop) string {
	if m == nil {
		return "<unknown operation>"
	}
	return fmt.Sprintf("%s(suffix %s, version %d)", m.id, m.suffix, m.version)
}

func versionsOf(w *world, ops []*operation.QueuedOperation) string {
	var l []string
	for _, o := range ops {
		if m := w.byReq[string(o.OperationRequest)]; m != nil {
			l = append(l, fmt.Sprint(m.version))
		}
	}
	return strings.Join(l, ",")
}

var versions = []uint64{0, 10, 20}

func newWorld(c *Case) *world {
	w := &world{c: c, q: &opqueue.MemQueue{}, byReq: map[string]*mop{}, anchor: map[string]int{}, dropped: map[string]bool{}, features: map[string]bool{},
		realHandler: map[uint64]protocol.OperationHandler{}, pool: map[string]*suffixKeys{}, cas: wire.NewMemCAS()}
	var vs []protocol.Version
	w.cur = len(versions) - 1
	if len(c.Maxes) == len(versions) && c.Current >= 0 && c.Current < len(versions) {
		w.cur = c.Current
	}
	for i, g := range versions {
		p := wire.BaseProtocol()
		p.GenesisTime = g
		p.MaxOperationCount = c.maxFor(i)
		v := wire.Build(p, wire.Deps{CAS: w.cas, ParserOpts: []operationparser.Option{operationparser.WithAnchorTimeValidator(expiring{})}})
		w.realHandler[g] = v.Handler
		v.Handler = handler{w: w, version: g}
		vs = append(vs, v)
	}
	w.pc = &switchClient{Client: wire.NewClient(vs...), w: w}
	bw, err := batch.New(ns, ctx{w}, batch.WithBatchTimeout(time.Hour), batch.WithMonitorInterval(time.Hour))
	if err != nil {
		panic(err)
	}
	w.w = bw
	if c.ViaHandler && c.Handler == "real" {
		w.dh = dochandler.New(ns, nil, w.pc, bw, noResolver{}, wire.DocMetrics{}, dochandler.WithOperationDecorator(passDecorator{}))
	}
	return w
}

// request builds the operation request for a submission: an opaque unique JSON for the stub handler, a real
// valid update / create request for the real handler.
func (w *world) request(s Step, id string) (operation.Type, []byte, string) {
	if w.c.Handler != "real" {
		return operation.TypeUpdate, []byte(fmt.Sprintf(`{"id":%q,"suffix":%q}`, id, s.Suffix)), s.Suffix
	}
	sk, ok := w.pool[s.Suffix]
	if !ok {
		rec, upd := keys.Get(keys.Ed25519, "c16-"+s.Suffix, 0), keys.Get(keys.Ed25519, "c16-"+s.Suffix, 1)
		cr := hist.NewCreate(hist.CreateSpec{Name: "create", Code: asm.SHA256, Recovery: rec, Update: upd, Markers: map[string]interface{}{"s": s.Suffix}})
		w.pool[s.Suffix] = &suffixKeys{suffix: cr.Suffix, rec: rec, upd: upd}
		return operation.TypeCreate, cr.Request, cr.Suffix
	}
	if s.Deactivate && !s.Expired {
		// every request is told apart by its bytes: a signed window (open at every time used here) that differs per request
		sk.n++
		d := hist.NewSigned(hist.SignedSpec{Name: "deactivate", Type: "deactivate", Suffix: sk.suffix, Code: asm.SHA256, Reveal: sk.rec, Opt: hist.Opt{From: 1, Until: 1<<41 + int64(sk.n)}})
		return operation.TypeDeactivate, d.Request, sk.suffix
	}
	sk.n++
	next := keys.Get(keys.Ed25519, "c16-"+s.Suffix, 1+sk.n)
	opt := hist.Opt{}
	if s.Expired {
		// a signed anchoring window that the node's time validator reports as expired when the batch is cut
		opt.From, opt.Until = 1, gen.ExpiredUntil
	}
	u := hist.NewSigned(hist.SignedSpec{Name: "update", Type: "update", Suffix: sk.suffix, Code: asm.SHA256, Reveal: sk.upd, NextUpd: next, Markers: map[string]interface{}{id: "v"}, Opt: opt})
	sk.upd = next
	return operation.TypeUpdate, u.Request, sk.suffix
}

func (w *world) add(s Step) {
	w.nextID++
	id := fmt.Sprintf("op%d", w.nextID)
	typ, req, suffix := w.request(s, id)
	m := &mop{id: id, suffix: suffix, version: s.Version, expired: s.Expired && (w.c.Handler != "real" || typ == operation.TypeUpdate), req: req}
	var err error
	if w.dh != nil {
		// the node's front door: the handler looks the version up for the given time and queues under its genesis time
		if pn := ev.Catch(func() { _, err = w.dh.ProcessOperation(req, s.Version+s.TimeOffset) }); pn != "" {
			w.fail("document handler panicked: %s", pn)
			return
		}
		w.features["via-handler"] = true
	} else {
		err = w.w.Add(&operation.QueuedOperation{Type: typ, OperationRequest: req, UniqueSuffix: suffix, Namespace: ns}, s.Version)
	}
	if err != nil {
		return // not accepted
	}
	w.byReq[string(req)] = m
	w.queue = append(w.queue, m)
	w.all = append(w.all, m)
}

func (w *world) tick(force bool, plans []Plan) {
	w.force, w.plans = force, append([]Plan{}, plans...)
	if pn := ev.Catch(func() { w.w.VerifProcessAvailable(force) }); pn != "" {
		w.fail("batch writer panicked: %s", pn)
	}
	w.cas.FailWrite = nil
	if w.restart {
		// the node comes up again: a new writer over the same operation queue
		bw, err := batch.New(ns, ctx{w}, batch.WithBatchTimeout(time.Hour), batch.WithMonitorInterval(time.Hour))
		if err != nil {
			panic(err)
		}
		w.w, w.restart = bw, false
	}
}

// check compares the model queue with the real queue and the conservation law.
func (w *world) check(step int) {
	if w.viol != "" {
		return
	}
	real, _ := w.q.Peek(w.q.Len())
	if len(real) != len(w.queue) {
		w.fail("after step %d the queue holds %d operations, the model %d (model: %s)", step, len(real), len(w.queue), ids(w.queue))
		return
	}
	for i, r := range real {
		m := w.byReq[string(r.OperationRequest)]
		if m != w.queue[i] || r.ProtocolVersion != w.queue[i].version {
			w.fail("after step %d queue position %d holds %s (version %d), the model %s (a failed batch must return to the head in its original order, deferred operations go to the tail)", step, i, name(m), r.ProtocolVersion, name(w.queue[i]))
			return
		}
	}
	inQ := map[string]bool{}
	for _, m := range w.queue {
		inQ[m.id] = true
	}
	for _, m := range w.all {
		n := w.anchor[m.id]
		places := n
		if inQ[m.id] {
			places++
		}
		if w.dropped[m.id] {
			places++
		}
		if n > 1 {
			w.fail("operation %s was anchored in %d batches", m.id, n)
			return
		}
		if places != 1 {
			w.fail("after step %d operation %s is in %d places (queue %v, anchored %d, expired %v): accepted operations must be conserved", step, m.id, places, inQ[m.id], n, w.dropped[m.id])
			return
		}
	}
}

func ids(l []*mop) string {
	var out []string
	for _, m := range l {
		out = append(out, fmt.Sprintf("%s/%s/v%d", m.id, m.suffix, m.version))
	}
	return strings.Join(out, " ")
}

// evalCase runs a schedule; it returns (kind, message, features).
func evalCase(c *Case) (string, string, map[string]bool) {
	w := newWorld(c)
	for i, s := range c.Steps {
		switch s.Action {
		case "add":
			w.add(s)
		case "monitor-tick":
			w.tick(false, s.Plans)
		case "timeout-tick":
			w.tick(true, s.Plans)
		case "upgrade":
			if w.cur < len(versions)-1 {
				w.cur++
				w.features["upgrade-while-running"] = true
			}
		}
		w.check(i)
		if w.viol != "" {
			return kindOf(w.viol), fmt.Sprintf("step %d (%s): %s", i, s.Action, w.viol), w.features
		}
	}
	// quiescence: faults off, timeout ticks until the queue is empty
	for i := 0; i < 4*len(w.all)+10 && len(w.queue) > 0; i++ {
		w.tick(true, nil)
		w.check(len(c.Steps) + i)
		if w.viol != "" {
			return kindOf(w.viol), "while draining: " + w.viol, w.features
		}
	}
	if len(w.queue) > 0 {
		return "C16/not-drained", fmt.Sprintf("with faults off and repeated timeout ticks %d operations stay queued: %s", len(w.queue), ids(w.queue)), w.features
	}
	for _, m := range w.all {
		if w.anchor[m.id] != 1 && !w.dropped[m.id] {
			return "C16/lost-or-duplicated", fmt.Sprintf("operation %s ended in %d anchored batches", m.id, w.anchor[m.id]), w.features
		}
	}
	return "", "", w.features
}

func kindOf(msg string) string {
	switch {
	case strings.Contains(msg, "protocol version"):
		return "C16/mixed-versions"
	case strings.Contains(msg, "exceeds the maximum"):
		return "C16/oversize-batch"
	case strings.Contains(msg, "prefix of the queue"):
		return "C16/not-fifo"
	case strings.Contains(msg, "monitor tick"):
		return "C16/early-cut"
	case strings.Contains(msg, "panicked"):
		return "C16/panic"
	case strings.Contains(msg, "conserved"), strings.Contains(msg, "anchored in"):
		return "C16/lost-or-duplicated"
	default:
		return "C16/queue-state"
	}
}

// viaHandlerGen is set by the generator while it draws a schedule whose submissions go through the document handler.
var viaHandlerGen bool

func drawAdd(t *rapid.T, curVersion *int) Step {
	if rapid.IntRange(0, 6).Draw(t, "advanceVersion") == 0 && *curVersion < len(versions)-1 {
		*curVersion++
	}
	v := versions[*curVersion]
	if rapid.IntRange(0, 9).Draw(t, "oldVersion") == 0 {
		v = versions[rapid.IntRange(0, len(versions)-1).Draw(t, "anyVersion")]
	}
	st := Step{Action: "add", Suffix: rapid.SampledFrom([]string{"a", "b", "c", "d", "e"}).Draw(t, "suffix"), Version: v, Expired: rapid.IntRange(0, 9).Draw(t, "expired") == 0}
	if viaHandlerGen {
		st.TimeOffset = uint64(rapid.IntRange(0, 9).Draw(t, "timeOffset"))
	} else if rapid.IntRange(0, 4).Draw(t, "deactivate") == 0 {
		st.Deactivate = true
	}
	return st
}

func TestWriterStateMachine(t *testing.T) {
	ev.Rule(chkSM, "rapid schedules of 5-40 steps over a real batch.Writer (never started; one processing step at a time through the verif hook; fault plans may stop it while a batch is in flight, after which a new writer over the same queue takes over), real BatchCutter and MemQueue, maxOperationCount 1-4 (in half of the schedules a different one per version, with the current version advancing while the writer runs: 'upgrade' steps), protocol versions {0, 10, 20}: Add(operation for suffix a..e under a version, optionally flagged expired; with the real handler the first one per suffix is a create, later ones updates or - one in five - a deactivate, behind which further operations for the suffix keep arriving), monitor tick, timeout tick, each tick with a fault plan per cut batch (handler/CAS failure - for the real OperationHandler the k-th CAS write -, anchor-write failure) and submissions arriving while the batch is in flight; handler = deterministic stub of the first-per-suffix / deferred / expired contract, or the real txnprovider.OperationHandler over a fault-injecting CAS (then, in half of the schedules, submissions enter through a real DocumentHandler with a version time inside the protocol version rather than its genesis time); oracle (driven by observations - every PrepareTxnFiles call reveals the cut batch): prefix of the model queue, one version, size <= the maximum operation count of the batch's own protocol version (the version its operations were queued under, which need not be the current one), smaller only on a timeout tick or at a version boundary; after every step the real queue equals the model (failed batch back at the head in order, in-flight additions behind it, deferred operations at the tail) and accepted = queue + anchored + expired with no operation anchored twice; at quiescence every accepted non-expired operation is in exactly one anchored batch; non-trivial = a failed batch followed by a successful one, or a deferred operation, or a version boundary inside the queue")
	ev.Rapid(t, chkSM, 400, 8000, func(t *rapid.T) {
		c := &Case{Max: uint(rapid.IntRange(1, 4).Draw(t, "max")), Handler: rapid.SampledFrom([]string{"stub", "stub", "real"}).Draw(t, "handler")}
		cur := 0
		c.ViaHandler = c.Handler == "real" && rapid.Bool().Draw(t, "viaHandler")
		viaHandlerGen = c.ViaHandler
		upgrades := rapid.Bool().Draw(t, "versionsDiffer")
		if upgrades {
			// each version has its own maximum and the current version advances while the writer runs
			c.Maxes = []uint{uint(rapid.IntRange(1, 4).Draw(t, "max0")), uint(rapid.IntRange(1, 4).Draw(t, "max1")), uint(rapid.IntRange(1, 4).Draw(t, "max2"))}
			c.Current = rapid.IntRange(0, 1).Draw(t, "current")
		}
		n := rapid.IntRange(5, 40).Draw(t, "steps")
		for i := 0; i < n; i++ {
			switch rapid.IntRange(0, 9).Draw(t, "action") {
			case 0, 1, 2, 3, 4, 5:
				before := cur
				c.Steps = append(c.Steps, drawAdd(t, &cur))
				if upgrades && (cur != before || rapid.IntRange(0, 11).Draw(t, "upgrade") == 0) {
					c.Steps = append(c.Steps, Step{Action: "upgrade"})
				}
			default:
				s := Step{Action: "monitor-tick"}
				if rapid.Bool().Draw(t, "force") {
					s.Action = "timeout-tick"
				}
				np := rapid.IntRange(0, 3).Draw(t, "plans")
				for j := 0; j < np; j++ {
					p := Plan{}
					switch rapid.IntRange(0, 4).Draw(t, "fault") {
					case 0:
						if c.Handler == "real" {
							p.FailCASWrite = rapid.IntRange(1, 5).Draw(t, "casWrite")
						} else {
							p.FailHandler = true
						}
					case 1:
						p.FailAnchor = true
					case 2:
						// the node is shut down while this batch's anchor is written and restarted after the step
						p.StopDuring = !c.ViaHandler && rapid.Bool().Draw(t, "stopDuring")
					}
					for k := 0; k < rapid.IntRange(0, 2).Draw(t, "addDuring"); k++ {
						p.AddDuring = append(p.AddDuring, drawAdd(t, &cur))
					}
					s.Plans = append(s.Plans, p)
				}
				c.Steps = append(c.Steps, s)
			}
		}
		kind, msg, feat := evalCase(c)
		var cl []string
		for f := range feat {
			cl = append(cl, "feature:"+f)
		}
		sort.Strings(cl)
		nt := feat["success-after-failure"] || feat["deferred"] || feat["version-boundary"]
		ev.Record(chkSM, nt, ev.Hash(c), append(cl, "handler:"+c.Handler)...)
		ev.SampleFn(chkSM, func() interface{} { return c })
		if kind != "" {
			ev.Fail(t, chkSM, kind, kind, c, "%s", msg)
		}
	})
}

// ---- real-time concurrent run (thorough tier, under -race) ------------------------------------------------------

type rtAnchor struct {
	mu       sync.Mutex
	anchored map[string]int
	failEach int
	calls    int
	byReq    func(string) string
	info     *sync.Map
}

func (a *rtAnchor) Read(int) (bool, *txn.SidetreeTxn) { return false, nil }

func (a *rtAnchor) WriteAnchor(anchor string, _ []*protocol.AnchorDocument, _ []*operation.Reference, _ uint64) error {
	a.mu.Lock()
	defer a.mu.Unlock()
	a.calls++
	if a.failEach > 0 && a.calls%a.failEach == 0 {
		return errors.New("injected anchor failure")
	}
	if v, ok := a.info.Load(anchor); ok {
		for _, id := range v.([]string) {
			a.anchored[id]++
		}
	}
	return nil
}

type rtHandler struct {
	mu       sync.Mutex
	n        int
	calls    int
	failEach int
	info     *sync.Map
	max      int
	viol     *string
}

func (h *rtHandler) PrepareTxnFiles(ops []*operation.QueuedOperation) (*protocol.AnchoringInfo, error) {
	h.mu.Lock()
	defer h.mu.Unlock()
	h.calls++
	if len(ops) > h.max && *h.viol == "" {
		*h.viol = fmt.Sprintf("batch of %d operations exceeds the maximum %d", len(ops), h.max)
	}
	if h.failEach > 0 && h.calls%h.failEach == 0 {
		return nil, errors.New("injected CAS failure")
	}
	h.n++
	anchor := fmt.Sprintf("%d.rt%d", len(ops), h.n)
	info := &protocol.AnchoringInfo{AnchorString: anchor}
	seen := map[string]bool{}
	var included []string
	for _, o := range ops {
		if seen[o.UniqueSuffix] {
			info.AdditionalOperations = append(info.AdditionalOperations, o)
			continue
		}
		seen[o.UniqueSuffix] = true
		included = append(included, string(o.OperationRequest))
	}
	h.info.Store(anchor, included)
	return info, nil
}

type rtCtx struct {
	pc protocol.Client
	a  *rtAnchor
	q  *opqueue.MemQueue
}

func (c rtCtx) Protocol() protocol.Client             { return c.pc }
func (c rtCtx) Anchor() batch.AnchorWriter            { return c.a }
func (c rtCtx) OperationQueue() cutter.OperationQueue { return c.q }

// TestRealTimeConcurrent: started writer with millisecond tickers, 8 adder goroutines, periodic failures. A data
// race report is a violation (the driver greps the log); failure to drain is inconclusive.
func TestRealTimeConcurrent(t *testing.T) {
	if os.Getenv("VERIF_RACE") == "" && !ev.Thorough() {
		t.Skip("real-time run only in the thorough tier")
	}
	if sh, _ := ev.Shard(); sh != 0 {
		t.Skip("real-time run on shard 0 only (it needs the cores)")
	}
	ev.Rule(chkRace, "thorough only: a started batch.Writer (1 ms monitor, 3 ms timeout tickers), 8 goroutines adding 150 operations each over 12 suffixes, every 5th handler call and every 7th anchor write failing, run under the race detector; oracle: at the end (failures off, bounded wait) every accepted operation is in exactly one anchored batch, no batch exceeds the maximum; a race report is a violation; not draining within the bound is inconclusive")
	rounds := ev.N(1, 6)
	for r := 0; r < rounds; r++ {
		var viol string
		info := &sync.Map{}
		h := &rtHandler{failEach: 5, info: info, max: 3, viol: &viol}
		p := wire.BaseProtocol()
		p.MaxOperationCount = 3
		v := wire.Build(p, wire.Deps{})
		v.Handler = h
		a := &rtAnchor{anchored: map[string]int{}, failEach: 7, info: info}
		q := &opqueue.MemQueue{}
		bw, err := batch.New(ns, rtCtx{pc: wire.NewClient(v), a: a, q: q}, batch.WithBatchTimeout(3*time.Millisecond), batch.WithMonitorInterval(time.Millisecond))
		if err != nil {
			t.Fatal(err)
		}
		bw.Start()
		var wg sync.WaitGroup
		var accMu sync.Mutex
		accepted := map[string]bool{}
		for g := 0; g < 8; g++ {
			wg.Add(1)
			go func(g int) {
				defer wg.Done()
				for i := 0; i < 150; i++ {
					id := fmt.Sprintf("r%d-g%d-%d", r, g, i)
					req := []byte(id)
					if err := bw.Add(&operation.QueuedOperation{Type: operation.TypeUpdate, OperationRequest: req, UniqueSuffix: fmt.Sprintf("s%d", (g*7+i)%12), Namespace: ns}, 0); err == nil {
						accMu.Lock()
						accepted[id] = true
						accMu.Unlock()
					}
					if i%10 == 0 {
						time.Sleep(200 * time.Microsecond)
					}
				}
			}(g)
		}
		wg.Wait()
		h.mu.Lock()
		h.failEach = 0
		h.mu.Unlock()
		a.mu.Lock()
		a.failEach = 0
		a.mu.Unlock()
		deadline := time.Now().Add(60 * time.Second)
		for q.Len() > 0 && time.Now().Before(deadline) {
			time.Sleep(5 * time.Millisecond)
		}
		time.Sleep(30 * time.Millisecond)
		bw.Stop()
		if q.Len() > 0 {
			t.Skipf("inconclusive: queue not drained within the bound (%d left)", q.Len())
		}
		a.mu.Lock()
		lost, dup := 0, 0
		for id := range accepted {
			switch n := a.anchored[id]; {
			case n == 0:
				lost++
			case n > 1:
				dup++
			}
		}
		a.mu.Unlock()
		ev.Record(chkRace, true, ev.Hash(r, len(accepted)), "round")
		ev.Sample(chkRace, map[string]interface{}{"round": r, "accepted": len(accepted), "batches": h.n})
		if viol != "" || lost > 0 || dup > 0 {
			ev.Fail(t, chkRace, "C16/lost-or-duplicated", "real-time", map[string]interface{}{"round": r, "lost": lost, "duplicated": dup, "violation": viol},
				"real-time run: %d accepted operations lost, %d anchored more than once; %s", lost, dup, viol)
		}
	}
	ev.Record(chkRace, true, ev.Hash("end"), "rounds")
}
