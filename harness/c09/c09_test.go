// Package c09 decides property C09: for every supported key type a compact JWS verifies under the matching
// public JWK and under nothing else; every change to the decoded header or payload, every corrupted,
// truncated, empty or wrongly sized signature, and every malformed string / header / JWK yields an error -
// never a panic, never acceptance.
package c09

import (
	"encoding/base64"
	"encoding/json"
	"fmt"
	"math/big"
	"sort"
	"strings"
	"testing"

	"github.com/trustbloc/sidetree-core-go/pkg/jws"
	"github.com/trustbloc/sidetree-core-go/pkg/util/ecsigner"
	"github.com/trustbloc/sidetree-core-go/pkg/util/edsigner"
	"github.com/trustbloc/sidetree-core-go/pkg/util/pubkey"
	"github.com/trustbloc/sidetree-core-go/pkg/verifhooks"
	"pgregory.net/rapid"

	"verifharness/kit/asm"
	"verifharness/kit/ev"
	"verifharness/kit/keys"
	"verifharness/kit/refjcs"
)

func TestMain(m *testing.M) { ev.Main(m, "C09") }

const (
	chkSweep = "tamper-sweep"
	chkRapid = "rapid-alterations"
	chkJWK   = "malformed-jwk"
	chkJunk  = "malformed-compact"
	chkFuzz  = "FuzzVerify"
)

// JWK is a struct-level public JWK as handed to the verifier.
type JWK struct {
	Kty string `json:"kty"`
	Crv string `json:"crv"`
	X   string `json:"x"`
	Y   string `json:"y"`
}

func (j JWK) lib() *jws.JWK { return &jws.JWK{Kty: j.Kty, Crv: j.Crv, X: j.X, Y: j.Y} }

func jwkOf(k *keys.Key) JWK {
	m := k.JWKMap()
	return JWK{Kty: m["kty"].(string), Crv: m["crv"].(string), X: m["x"].(string), Y: m["y"].(string)}
}

// Case is one verification attempt with the expected verdict.
type Case struct {
	Compact string `json:"compact"`
	Key     JWK    `json:"jwk"`
	Accept  bool   `json:"accept"`
	Note    string `json:"note"`
}

func init() {
	for _, c := range []string{chkSweep, chkRapid, chkJWK, chkJunk, chkFuzz} {
		ev.RegisterReplay(c, replay)
	}
	ev.Assume("alterations are made on decoded values and verified to change them; the ECDSA twin (r, n-s) of a genuine signature is exempt and never generated as an alteration")
	ev.Assume("the signature covers the protected header segment as transmitted (RFC 7515 section 5.2): any other text for the same header value is an altered header")
	ev.Assume("forgeries are structural; cryptanalytic attacks are out of reach of testing")
}

// TestReplay runs first.
func TestReplay(t *testing.T) { ev.ReplayMain(t) }

func replay(raw json.RawMessage) (string, string) {
	var c Case
	if err := json.Unmarshal(raw, &c); err != nil {
		return "bad-replay", err.Error()
	}
	return evalCase(&c)
}

func evalCase(c *Case) (string, string) {
	var err error
	var parsed *verifhooks.ParsedJWS
	if p := ev.Catch(func() { parsed, err = verifhooks.VerifyJWS(c.Compact, c.Key.lib()) }); p != "" {
		return "C09/panic", fmt.Sprintf("VerifyJWS panicked (%s): %s", c.Note, p)
	}
	if p := ev.Catch(func() { _, _ = verifhooks.ParseJWS(c.Compact) }); p != "" {
		return "C09/panic", fmt.Sprintf("ParseJWS panicked (%s): %s", c.Note, p)
	}
	if c.Accept && err != nil {
		return "C09/genuine-rejected", fmt.Sprintf("genuine JWS rejected under the matching key (%s): %v; jwk=%+v compact=%s", c.Note, err, c.Key, ev.Trunc(c.Compact, 300))
	}
	if !c.Accept && err == nil {
		return "C09/accepted", fmt.Sprintf("JWS accepted although %s; jwk=%+v compact=%s", c.Note, c.Key, ev.Trunc(c.Compact, 300))
	}
	if c.Accept && parsed == nil {
		return "C09/genuine-rejected", "VerifyJWS returned neither error nor result"
	}
	return "", ""
}

func judge(t ev.TB, chk string, c *Case, classes ...string) {
	kind, msg := evalCase(c)
	ev.Record(chk, !c.Accept, ev.Hash(c.Compact, c.Key), append(classes, fmt.Sprintf("expect-accept:%v", c.Accept))...)
	ev.SampleFn(chk, func() interface{} {
		return map[string]interface{}{"compact": ev.Trunc(c.Compact, 160), "jwk": c.Key, "accept": c.Accept, "note": c.Note}
	})
	if kind != "" {
		sig := kind + "/" + strings.SplitN(c.Note, ":", 2)[0]
		ev.Fail(t, chk, kind, sig, c, "%s", msg)
	}
}

// ---- genuine JWS construction ---------------------------------------------------------------------------

type genuine struct {
	key     *keys.Key
	header  map[string]interface{}
	payload []byte
	sig     []byte
	compact string
	builder string
}

// signers are long-lived: one signer object per (key, kid) for the whole process, reused for every request it signs,
// as a wallet or node does (state leaking from one signature into the next would show).
var signerCache = map[string]verifhooks.Signer{}

func libSigner(k *keys.Key, kid string) verifhooks.Signer {
	id := k.ID() + "|" + kid
	if s, ok := signerCache[id]; ok {
		return s
	}
	var s verifhooks.Signer
	if k.Type == keys.Ed25519 {
		s = edsigner.New(k.Ed25519Private(), k.Type.Alg(), kid)
	} else {
		s = ecsigner.New(k.ECDSAPrivate(), k.Type.Alg(), kid)
	}
	signerCache[id] = s
	return s
}

func signingInput(header map[string]interface{}, payload []byte) []byte {
	if b, ok := header["b64"].(bool); ok && !b {
		return append([]byte(asm.B64(refjcs.MustCanonicalGo(header))+"."), payload...)
	}
	return asm.SigningInput(header, payload)
}

// build makes a genuine JWS with the harness's own assembler ("asm") or with the library's signing
// utilities ("lib": signutil.SignPayload / NewJWS with ecsigner / edsigner).
func build(k *keys.Key, builder, kid string, extra map[string]interface{}, payload []byte) (*genuine, error) {
	g := &genuine{key: k, payload: payload, builder: builder}
	g.header = asm.Header(k, kid)
	for n, v := range extra {
		g.header[n] = v
	}
	if builder == "lib" {
		var compact string
		var err error
		if len(extra) == 0 {
			compact, err = verifhooks.SignPayload(payload, libSigner(k, kid))
		} else {
			h := jws.Headers{}
			for n, v := range extra {
				h[n] = v
			}
			compact, err = verifhooks.NewJWSCompact(h, payload, libSigner(k, kid))
		}
		if err != nil {
			return nil, err
		}
		parts := strings.Split(compact, ".")
		g.sig, _ = asm.UnB64(parts[2])
		g.compact = compact
		return g, nil
	}
	g.sig = k.Sign(signingInput(g.header, payload))
	g.compact = asm.Compact(g.header, payload, g.sig)
	return g, nil
}

func (g *genuine) with(header map[string]interface{}, payload, sig []byte) string {
	return asm.Compact(header, payload, sig)
}

func copyHeader(h map[string]interface{}) map[string]interface{} {
	o := map[string]interface{}{}
	for k, v := range h {
		o[k] = v
	}
	return o
}

// ---- deterministic tamper sweep -------------------------------------------------------------------------------

func TestTamperSweep(t *testing.T) {
	ev.Rule(chkSweep, "deterministic sweep: for each of the 5 key types x builder {harness assembler, library signutil+ecsigner/edsigner} x header set {alg; alg+kid; alg+kid+extra string+b64:true; alg+b64:false (assembler only)} x payload {JSON 40 B, binary 1 B, binary 200 B}: the genuine JWS must verify; then every byte of the decoded payload x masks {0x01, 0x80}, payload truncated/extended, every value-level header change (alg replaced, kid changed/added/removed, member added/removed, b64 toggled), the header text with each member name repeated (decoy value none / the same value / an object / null, in front of or behind the genuine member), every byte of the signature x masks {0x01, 0x80}, every truncation length, every single-byte deletion, one-byte extensions, empty signature, r/s halves swapped, and the signature paired with every foreign key (same type: 3 keys, other types: 4 keys); oracle: accept exactly the genuine pairing; non-trivial = every alteration")
	payloads := [][]byte{[]byte(`{"deltaHash":"EiAbc","updateKey":{"kty":"EC"}}`), {0x7f}, make([]byte, 200)}
	for i := range payloads[2] {
		payloads[2][i] = byte(i*7 + 3)
	}
	item := 0
	for _, kt := range keys.AllTypes {
		k := keys.Get(kt, "c09", 1)
		for _, builder := range []string{"asm", "lib"} {
			headerSets := []struct {
				kid   string
				extra map[string]interface{}
			}{
				{"", nil}, {"key-1", nil}, {"k.2", map[string]interface{}{"typ": "JWT-x", "b64": true}},
				// values whose text a JSON encoder may spell in more than one way: a large integer, characters that
				// HTML-safe encoders escape, a fraction, a nested value
				{"k<3>&", map[string]interface{}{"iat": float64(1600000000), "url": "https://a.example/?x=1&y=<2>", "ratio": 1.5, "nested": map[string]interface{}{"a": []interface{}{float64(1), "x"}}}},
			}
			if builder == "asm" {
				headerSets = append(headerSets, struct {
					kid   string
					extra map[string]interface{}
				}{"", map[string]interface{}{"b64": false}})
			}
			for hi, hs := range headerSets {
				for pi, payload := range payloads {
					item++
					if !ev.Mine(item) {
						continue
					}
					g, err := build(k, builder, hs.kid, hs.extra, payload)
					if err != nil {
						t.Fatalf("cannot build genuine JWS (%s %s): %v", kt, builder, err)
					}
					tag := fmt.Sprintf("%s/%s/h%d/p%d", kt, builder, hi, pi)
					judge(t, chkSweep, &Case{Compact: g.compact, Key: jwkOf(k), Accept: true, Note: "genuine " + tag}, "class:genuine", "keytype:"+kt.String())
					rej := func(compact, note string, cls string) {
						if compact == g.compact {
							return
						}
						judge(t, chkSweep, &Case{Compact: compact, Key: jwkOf(k), Accept: false, Note: note + ": " + tag}, "class:"+cls, "keytype:"+kt.String())
					}
					// payload
					for i := range payload {
						for _, m := range []byte{0x01, 0x80} {
							p := append([]byte{}, payload...)
							p[i] ^= m
							rej(g.with(g.header, p, g.sig), fmt.Sprintf("payload byte %d altered", i), "payload-byte")
						}
					}
					rej(g.with(g.header, append(append([]byte{}, payload...), 0), g.sig), "payload extended", "payload-length")
					if len(payload) > 1 {
						rej(g.with(g.header, payload[:len(payload)-1], g.sig), "payload truncated", "payload-length")
					}
					// header
					for _, alt := range headerAlterations(g.header, kt) {
						rej(g.with(alt.h, payload, g.sig), "header altered ("+alt.note+")", "header")
					}
					// header text with a repeated member name (decoy before or after the genuine member)
					for _, d := range duplicateMemberHeaders(g.compact) {
						rej(d.compact, "header altered ("+d.note+")", "header-duplicate-member")
					}
					// header text respelled without changing the value it denotes: the decoded header is changed all the same
					for _, d := range respelledHeaders(g.compact) {
						rej(d.compact, "header altered ("+d.note+")", "header-respelled")
					}
					// signature
					for i := range g.sig {
						for _, m := range []byte{0x01, 0x80} {
							s := append([]byte{}, g.sig...)
							s[i] ^= m
							rej(g.with(g.header, payload, s), fmt.Sprintf("signature byte %d altered", i), "signature-byte")
						}
					}
					for n := 0; n < len(g.sig); n++ {
						cls := "signature-truncated"
						if n == 0 {
							cls = "signature-empty"
						}
						rej(g.with(g.header, payload, g.sig[:n]), fmt.Sprintf("signature truncated to %d bytes", n), cls)
					}
					for i := range g.sig {
						d := append(append([]byte{}, g.sig[:i]...), g.sig[i+1:]...)
						rej(g.with(g.header, payload, d), fmt.Sprintf("signature byte %d deleted", i), "signature-byte-deleted")
					}
					rej(g.with(g.header, payload, append(append([]byte{}, g.sig...), 0)), "signature extended by a zero byte", "signature-extended")
					rej(g.with(g.header, payload, append([]byte{0}, g.sig...)), "signature prefixed by a zero byte", "signature-extended")
					half := len(g.sig) / 2
					rej(g.with(g.header, payload, append(append([]byte{}, g.sig[half:]...), g.sig[:half]...)), "signature halves swapped", "signature-swapped")
					// foreign keys
					for j := 2; j <= 4; j++ {
						judge(t, chkSweep, &Case{Compact: g.compact, Key: jwkOf(keys.Get(kt, "c09", j)), Accept: false, Note: "foreign key of the same type: " + tag}, "class:foreign-key-same-type", "keytype:"+kt.String())
					}
					for _, ot := range keys.AllTypes {
						if ot != kt {
							judge(t, chkSweep, &Case{Compact: g.compact, Key: jwkOf(keys.Get(ot, "c09", 1)), Accept: false, Note: "foreign key of type " + ot.String() + ": " + tag}, "class:foreign-key-other-type", "keytype:"+kt.String())
						}
					}
				}
			}
		}
	}
	ev.Exhaustive(chkSweep)
}

type rawAlt struct{ compact, note string }

// duplicateMemberHeaders re-writes the decoded protected header of a genuine compact JWS so that one member name
// occurs twice: a decoy (another value, the same value, or an object) in front of the genuine member or behind it.
// Payload and signature segments stay as they are.
func duplicateMemberHeaders(compact string) []rawAlt {
	parts := strings.Split(compact, ".")
	raw, err := base64.RawURLEncoding.DecodeString(parts[0])
	if err != nil || len(parts) != 3 || len(raw) < 2 || raw[0] != '{' {
		return nil
	}
	var names map[string]json.RawMessage
	if json.Unmarshal(raw, &names) != nil {
		return nil
	}
	var sorted []string
	for n := range names {
		sorted = append(sorted, n)
	}
	sort.Strings(sorted)
	var out []rawAlt
	body := string(raw[1 : len(raw)-1])
	for _, n := range sorted {
		for _, decoy := range []string{`"none"`, string(names[n]), `{"alg":"none"}`, `null`} {
			m := fmt.Sprintf("%q:%s", n, decoy)
			out = append(out,
				rawAlt{asm.B64([]byte("{"+m+","+body+"}")) + "." + parts[1] + "." + parts[2], fmt.Sprintf("member %s repeated with value %s in front of the genuine one", n, decoy)},
				rawAlt{asm.B64([]byte("{"+body+","+m+"}")) + "." + parts[1] + "." + parts[2], fmt.Sprintf("member %s repeated with value %s behind the genuine one", n, decoy)})
		}
	}
	return out
}

// respelledHeaders re-writes the decoded protected header of a genuine compact JWS into other texts for the same
// JSON value: white space inserted at several places, members in reverse order, the first character of a string
// value written as a \u escape, a trailing line feed. The signature covers the header as transmitted, so each of
// them is a changed header.
func respelledHeaders(compact string) []rawAlt {
	parts := strings.Split(compact, ".")
	raw, err := base64.RawURLEncoding.DecodeString(parts[0])
	if err != nil || len(parts) != 3 || len(raw) < 2 || raw[0] != '{' {
		return nil
	}
	txt := string(raw)
	mk := func(h, note string) rawAlt { return rawAlt{asm.B64([]byte(h)) + "." + parts[1] + "." + parts[2], note} }
	out := []rawAlt{mk("{ "+txt[1:], "space after the opening brace"), mk(txt[:len(txt)-1]+" }", "space before the closing brace"), mk(txt+"\n", "trailing line feed"),
		mk(strings.Replace(txt, ":", ": ", 1), "space after the first colon")}
	if i := strings.Index(txt, `:"`); i >= 0 && i+2 < len(txt) && txt[i+2] != '"' && txt[i+2] != '\\' && txt[i+2] < 0x80 {
		out = append(out, mk(txt[:i+2]+fmt.Sprintf("\\u%04x", txt[i+2])+txt[i+3:], "first character of a string value written as a \\u escape"))
	}
	var names map[string]json.RawMessage
	if json.Unmarshal(raw, &names) == nil && len(names) > 1 {
		var sorted []string
		for n := range names {
			sorted = append(sorted, n)
		}
		sort.Sort(sort.Reverse(sort.StringSlice(sorted)))
		var ms []string
		for _, n := range sorted {
			ms = append(ms, fmt.Sprintf("%q:%s", n, names[n]))
		}
		out = append(out, mk("{"+strings.Join(ms, ",")+"}", "members in reverse order"))
	}
	return out
}

type headerAlt struct {
	h    map[string]interface{}
	note string
}

func headerAlterations(h map[string]interface{}, kt keys.Type) []headerAlt {
	var out []headerAlt
	for _, a := range []string{"ES256", "ES384", "ES512", "ES256K", "EdDSA", "none", "HS256"} {
		if a != h["alg"] {
			c := copyHeader(h)
			c["alg"] = a
			out = append(out, headerAlt{c, "alg=" + a})
		}
	}
	c := copyHeader(h)
	if _, ok := c["kid"]; ok {
		c["kid"] = c["kid"].(string) + "x"
		out = append(out, headerAlt{c, "kid changed"})
		d := copyHeader(h)
		delete(d, "kid")
		out = append(out, headerAlt{d, "kid removed"})
	} else {
		c["kid"] = "added"
		out = append(out, headerAlt{c, "kid added"})
	}
	e := copyHeader(h)
	e["x-extra"] = "1"
	out = append(out, headerAlt{e, "member added"})
	if _, ok := h["typ"]; ok {
		f := copyHeader(h)
		delete(f, "typ")
		out = append(out, headerAlt{f, "member removed"})
	}
	g := copyHeader(h)
	if b, ok := g["b64"].(bool); ok {
		g["b64"] = !b
		out = append(out, headerAlt{g, "b64 toggled"})
		g2 := copyHeader(h)
		delete(g2, "b64")
		if !b {
			out = append(out, headerAlt{g2, "b64:false removed"})
		}
	} else {
		g["b64"] = false
		out = append(out, headerAlt{g, "b64:false added"})
	}
	return out
}

// ---- random alterations ---------------------------------------------------------------------------------

func TestRapidAlterations(t *testing.T) {
	ev.Rule(chkRapid, "rapid: genuine JWS over drawn payloads (1 B - 4 KiB, JSON or binary), drawn header sets, all key types, both builders, then one drawn alteration (payload bit, header value, signature bit / length, foreign key, segment re-encoding with padding, segments reordered); oracle as above; non-trivial = an alteration")
	ev.Rapid(t, chkRapid, 600, 6000, func(t *rapid.T) {
		kt := rapid.SampledFrom(keys.AllTypes).Draw(t, "keyType")
		k := keys.Get(kt, "c09r", rapid.IntRange(1, 12).Draw(t, "key"))
		builder := rapid.SampledFrom([]string{"asm", "lib"}).Draw(t, "builder")
		kid := rapid.SampledFrom([]string{"", "kid-1", "a.b_c-d"}).Draw(t, "kid")
		var extra map[string]interface{}
		if rapid.IntRange(0, 2).Draw(t, "extra") == 0 {
			extra = map[string]interface{}{rapid.SampledFrom([]string{"typ", "cty", "x5u", "zz"}).Draw(t, "extraName"): rapid.StringMatching(`[A-Za-z0-9._-]{0,12}`).Draw(t, "extraVal")}
		}
		n := rapid.SampledFrom([]int{1, 2, 17, 64, 300, 4096}).Draw(t, "payloadLen")
		payload := rapid.SliceOfN(rapid.Byte(), n, n).Draw(t, "payload")
		if rapid.Bool().Draw(t, "jsonPayload") {
			payload = []byte(fmt.Sprintf(`{"n":%d,"s":%q}`, n, strings.Repeat("x", n/2)))
		}
		g, err := build(k, builder, kid, extra, payload)
		if err != nil {
			t.Fatalf("cannot build genuine JWS: %v", err)
		}
		judge(t, chkRapid, &Case{Compact: g.compact, Key: jwkOf(k), Accept: true, Note: "genuine"}, "class:genuine")
		alt := rapid.SampledFrom([]string{"payload-bit", "header", "signature-bit", "signature-length", "foreign-key", "padded-segment", "segments-swapped", "signature-zeroed", "signature-of-other-payload"}).Draw(t, "alteration")
		c := &Case{Key: jwkOf(k), Accept: false}
		switch alt {
		case "payload-bit":
			p := append([]byte{}, payload...)
			i := rapid.IntRange(0, len(p)*8-1).Draw(t, "bit")
			p[i/8] ^= 1 << (i % 8)
			c.Compact, c.Note = g.with(g.header, p, g.sig), "payload bit flipped"
		case "header":
			alts := headerAlterations(g.header, kt)
			a := alts[rapid.IntRange(0, len(alts)-1).Draw(t, "headerAlt")]
			c.Compact, c.Note = g.with(a.h, payload, g.sig), "header altered ("+a.note+")"
		case "signature-bit":
			s := append([]byte{}, g.sig...)
			i := rapid.IntRange(0, len(s)*8-1).Draw(t, "bit")
			s[i/8] ^= 1 << (i % 8)
			c.Compact, c.Note = g.with(g.header, payload, s), "signature bit flipped"
		case "signature-length":
			nl := rapid.IntRange(0, len(g.sig)+8).Draw(t, "sigLen")
			if nl == len(g.sig) {
				nl++
			}
			s := make([]byte, nl)
			copy(s, g.sig)
			c.Compact, c.Note = g.with(g.header, payload, s), "signature of wrong size"
		case "signature-zeroed":
			c.Compact, c.Note = g.with(g.header, payload, make([]byte, len(g.sig))), "all-zero signature"
		case "signature-of-other-payload":
			other := append(append([]byte{}, payload...), 'x')
			c.Compact, c.Note = g.with(g.header, payload, k.Sign(signingInput(g.header, other))), "signature over another payload"
		case "foreign-key":
			ot := rapid.SampledFrom(keys.AllTypes).Draw(t, "otherType")
			ok := keys.Get(ot, "c09r/foreign", rapid.IntRange(1, 12).Draw(t, "otherKey"))
			c.Compact, c.Key, c.Note = g.compact, jwkOf(ok), "foreign key"
		case "padded-segment":
			parts := strings.Split(g.compact, ".")
			i := rapid.IntRange(0, 2).Draw(t, "segment")
			parts[i] += "="
			c.Compact, c.Note = strings.Join(parts, "."), "base64 padding appended to a segment"
		default:
			parts := strings.Split(g.compact, ".")
			c.Compact, c.Note = parts[1]+"."+parts[0]+"."+parts[2], "header and payload segments swapped"
		}
		if c.Compact == g.compact && c.Key == jwkOf(k) {
			t.Skip("alteration was the identity")
		}
		judge(t, chkRapid, c, "class:"+alt, "keytype:"+kt.String())
	})
}

// ---- signatures whose r or s starts with zero bytes -------------------------------------------------------------

// TestShortScalars looks for genuine ECDSA signatures whose r or s has a leading zero byte (every second P-521
// signature, one in 256 elsewhere) and requires that the fixed-width form verifies while every shortened
// spelling of the same scalars (leading zero bytes dropped) is rejected as wrongly sized.
func TestShortScalars(t *testing.T) {
	ev.Rule(chkSweep, "short scalars: for each EC key type, genuine signatures over payloads {\"n\":i} are searched (<= 4000) for r and for s starting with a zero byte; the fixed-width signature must verify; with the leading zero byte of r, of s, or of both dropped (signature 1-2 bytes short) it must be rejected; non-trivial = every alteration")
	item := 0
	for _, kt := range keys.AllTypes {
		if kt == keys.Ed25519 {
			continue
		}
		item++
		if !ev.Mine(item) {
			continue
		}
		k := keys.Get(kt, "c09", 1)
		n := kt.CoordSize()
		foundR, foundS := 0, 0
		for i := 0; i < 4000 && (foundR < 2 || foundS < 2); i++ {
			payload := []byte(fmt.Sprintf(`{"n":%d}`, i))
			g, err := build(k, "asm", "", nil, payload)
			if err != nil {
				t.Fatalf("cannot build genuine JWS: %v", err)
			}
			rz, sz := g.sig[0] == 0, g.sig[n] == 0
			if !(rz && foundR < 2) && !(sz && foundS < 2) {
				continue
			}
			tag := fmt.Sprintf("%s/n=%d", kt, i)
			judge(t, chkSweep, &Case{Compact: g.compact, Key: jwkOf(k), Accept: true, Note: "genuine with a leading-zero scalar " + tag}, "class:genuine-leading-zero-scalar", "keytype:"+kt.String())
			rej := func(sig []byte, note string) {
				judge(t, chkSweep, &Case{Compact: g.with(g.header, payload, sig), Key: jwkOf(k), Accept: false, Note: note + ": " + tag}, "class:short-scalar", "keytype:"+kt.String())
			}
			if rz {
				foundR++
				rej(g.sig[1:], "leading zero byte of r dropped")
			}
			if sz {
				foundS++
				rej(append(append([]byte{}, g.sig[:n]...), g.sig[n+1:]...), "leading zero byte of s dropped")
			}
			if rz && sz {
				rej(append(append([]byte{}, g.sig[1:n]...), g.sig[n+1:]...), "leading zero bytes of r and s dropped")
			}
		}
		if foundR == 0 || foundS == 0 {
			t.Fatalf("harness: no leading-zero r/s signature found for %s in 4000 payloads", kt)
		}
	}
}

// TestLibraryJWK: "the matching public JWK" is, for a caller, the one the library's own conversion hands out
// (pubkey.GetPublicKeyJWK); it must verify what the key signed - also for keys with a coordinate that starts with a
// zero byte (one in 128), which a conversion that drops the padding spells one byte short (seeding round m).
func TestLibraryJWK(t *testing.T) {
	ev.Rule(chkSweep, "library JWK: for each key type the first key of the pool and up to 3 keys (among 600) with a coordinate starting with a zero byte are converted with pubkey.GetPublicKeyJWK; oracle: a genuine JWS (independent assembler and library signer) verifies under that JWK, and the JWK equals the reference one member by member; non-trivial = a leading-zero key")
	item := 0
	for _, kt := range keys.AllTypes {
		item++
		if !ev.Mine(item) {
			continue
		}
		ks := []*keys.Key{keys.Get(kt, "c09-libjwk", 1)}
		lz := keys.LeadingZero(kt, "c09-libjwk", 600)
		if len(lz) > 3 {
			lz = lz[:3]
		}
		ks = append(ks, lz...)
		for i, k := range ks {
			var pub interface{}
			if kt == keys.Ed25519 {
				pub = k.Ed25519Public()
			} else {
				pub = k.ECDSAPublic()
			}
			j, err := pubkey.GetPublicKeyJWK(pub)
			if err != nil {
				ev.Fail(t, chkSweep, "C09/genuine-rejected", "C09/genuine-rejected/library-jwk", map[string]interface{}{"key": k.ID()}, "pubkey.GetPublicKeyJWK fails for a valid %s key %s: %v", kt, k.ID(), err)
				continue
			}
			lib := JWK{Kty: j.Kty, Crv: j.Crv, X: j.X, Y: j.Y}
			for _, builder := range []string{"asm", "lib"} {
				g, err := build(k, builder, "", nil, []byte(`{"libraryJwk":true}`))
				if err != nil {
					t.Fatalf("cannot build genuine JWS: %v", err)
				}
				c := &Case{Compact: g.compact, Key: lib, Accept: true, Note: fmt.Sprintf("genuine under the JWK handed out by pubkey.GetPublicKeyJWK: %s builder=%s", k.ID(), builder)}
				kind, msg := evalCase(c)
				ev.Record(chkSweep, i > 0, ev.Hash(c.Compact, c.Key), "class:library-jwk", "keytype:"+kt.String(), fmt.Sprintf("leading-zero-coordinate:%v", i > 0), "expect-accept:true")
				if kind != "" {
					ev.Fail(t, chkSweep, kind, kind+"/library-jwk", c, "%s", msg)
				}
			}
			if want := jwkOf(k); lib != want {
				ev.Fail(t, chkSweep, "C09/genuine-rejected", "C09/genuine-rejected/library-jwk-differs", map[string]interface{}{"key": k.ID(), "got": lib, "want": want}, "pubkey.GetPublicKeyJWK(%s) = %+v, reference JWK %+v", k.ID(), lib, want)
			}
		}
	}
}

// ---- library signers announcing every algorithm name ---------------------------------------------------------

// TestAlgNameMatrix: the verifier derives the digest from the key's curve and only demands that an alg header is
// present; a signer of the library constructed with any algorithm name must therefore produce a JWS that verifies
// under the matching key - also when the name is the registered one of another curve (seeding round k: a signer that
// picks its digest from the announced name instead of the curve).
func TestAlgNameMatrix(t *testing.T) {
	ev.Rule(chkSweep, "alg-name matrix: for each of the 5 key types x announced algorithm name {ES256, ES256K, ES384, ES512, EdDSA, alg} x kid {none, k1} x payload {JSON, binary 1 B, binary 200 B} a long-lived library signer (ecsigner / edsigner) constructed with that name signs through signutil.SignPayload; oracle: the JWS verifies under the matching JWK and is rejected under a foreign key of the same type; non-trivial = a name other than the key type's own")
	names := []string{"ES256", "ES256K", "ES384", "ES512", "EdDSA", "alg"}
	payloads := [][]byte{[]byte(`{"deltaHash":"EiD...","n":1}`), {0x00}, bytesOf(200)}
	item := 0
	for _, kt := range keys.AllTypes {
		item++
		if !ev.Mine(item) {
			continue
		}
		k := keys.Get(kt, "c09-alg", 1)
		foreign := keys.Get(kt, "c09-alg", 2)
		for _, name := range names {
			for _, kid := range []string{"", "k1"} {
				var s verifhooks.Signer
				if kt == keys.Ed25519 {
					s = edsigner.New(k.Ed25519Private(), name, kid)
				} else {
					s = ecsigner.New(k.ECDSAPrivate(), name, kid)
				}
				// the signer is used for all payloads, twice each (long-lived)
				for round := 0; round < 2; round++ {
					for pi, payload := range payloads {
						compact, err := verifhooks.SignPayload(payload, s)
						if err != nil {
							t.Fatalf("library signer %s/%s failed: %v", kt, name, err)
						}
						tag := fmt.Sprintf("%s announced as %s kid=%q payload=%d round=%d", kt, name, kid, pi, round)
						cls := "class:alg-name-own"
						if name != kt.Alg() {
							cls = "class:alg-name-other"
						}
						c := &Case{Compact: compact, Key: jwkOf(k), Accept: true, Note: "genuine, library signer: " + tag}
						kind, msg := evalCase(c)
						ev.Record(chkSweep, name != kt.Alg(), ev.Hash(c.Compact, c.Key), cls, "keytype:"+kt.String(), "expect-accept:true")
						if kind != "" {
							ev.Fail(t, chkSweep, kind, kind+"/alg-name-matrix", c, "%s", msg)
						}
						judge(t, chkSweep, &Case{Compact: compact, Key: jwkOf(foreign), Accept: false, Note: "foreign key of the same type: " + tag}, "class:alg-name-foreign-key", "keytype:"+kt.String())
					}
				}
			}
		}
	}
}

func bytesOf(n int) []byte {
	b := make([]byte, n)
	for i := range b {
		b[i] = byte(i*7 + 3)
	}
	return b
}

// ---- malformed JWKs with a genuine signature ---------------------------------------------------------------

func b64(b []byte) string { return base64.RawURLEncoding.EncodeToString(b) }

func TestMalformedJWK(t *testing.T) {
	ev.Rule(chkJWK, "deterministic sweep: for each key type a genuine JWS paired with JWKs derived from the right key: unknown / case-variant / empty kty and crv, crv of another curve, missing x, missing y, x or y shortened by its leading byte, left- or right-padded with a zero byte, doubled, off-curve (one bit of y or x flipped), x and y swapped, coordinates of n-y (the other point with the same x), all-zero coordinates, non-base64 coordinates; plus, among 1200 (quick) / 6000 (thorough) keys per type, every key with a leading or trailing zero byte in a coordinate re-encoded without it, also in spellings with a line break that are as long as the right text; oracle: every malformed JWK is rejected (never acceptance, never panic); the well-formed JWK is the control")
	for _, kt := range keys.AllTypes {
		for ki := 1; ki <= ev.N(1200, 6000); ki++ {
			k := keys.Get(kt, "c09j", ki)
			if ki > 3 {
				// beyond the first keys only those with a leading zero byte in a coordinate matter
				kx, ky := k.XY()
				if kx[0] != 0 && kx[len(kx)-1] != 0 && (len(ky) == 0 || (ky[0] != 0 && ky[len(ky)-1] != 0)) {
					continue
				}
			}
			g, err := build(k, "asm", "", nil, []byte(`{"p":1}`))
			if err != nil {
				t.Fatal(err)
			}
			good := jwkOf(k)
			x, y := k.XY()
			type mal struct {
				j    JWK
				note string
			}
			var ms []mal
			add := func(note string, f func(j *JWK)) {
				j := good
				f(&j)
				if j != good {
					ms = append(ms, mal{j, note})
				}
			}
			stripLeadingZero := func(b []byte) ([]byte, bool) {
				if len(b) > 0 && b[0] == 0 {
					return b[1:], true
				}
				return b, false
			}
			if sx, ok := stripLeadingZero(x); ok {
				add("x re-encoded without its leading zero byte", func(j *JWK) { j.X = b64(sx) })
			}
			if sy, ok := stripLeadingZero(y); ok {
				add("y re-encoded without its leading zero byte", func(j *JWK) { j.Y = b64(sy) })
			}
			// a coordinate that is one byte short - the zero byte at its front or end left out - also in spellings whose
			// text is as long as the right one (a line break, which base64 decoders skip, makes up for the missing
			// characters): a reader that pads or measures the text instead of the bytes takes it for the full coordinate
			withBreak := func(enc string) []string {
				mid := len(enc) / 2
				return []string{enc, enc[:mid] + "\n" + enc[mid:], enc + "\n", "\r" + enc, enc[:mid] + "\r\n" + enc[mid:]}
			}
			if sx, ok := stripLeadingZero(x); ok {
				for i, sp := range withBreak(b64(sx))[1:] {
					sp := sp
					add(fmt.Sprintf("x without its leading zero byte, spelled with a line break (%d)", i), func(j *JWK) { j.X = sp })
				}
			}
			if x[len(x)-1] == 0 {
				for i, sp := range withBreak(b64(x[:len(x)-1])) {
					sp := sp
					add(fmt.Sprintf("x without its trailing zero byte (spelling %d)", i), func(j *JWK) { j.X = sp })
				}
			}
			if len(y) > 0 && y[len(y)-1] == 0 {
				for i, sp := range withBreak(b64(y[:len(y)-1])) {
					sp := sp
					add(fmt.Sprintf("y without its trailing zero byte (spelling %d)", i), func(j *JWK) { j.Y = sp })
				}
			}
			if ki <= 3 {
				for _, v := range []string{"", "ec", "okp", "Ec", "RSA", "oct", "EC ", "OKP", "EC"} {
					v := v
					if v != good.Kty {
						add("kty="+fmt.Sprintf("%q", v), func(j *JWK) { j.Kty = v })
					}
				}
				for _, v := range []string{"", "p-256", "P-256", "P-384", "P-521", "secp256k1", "SECP256K1", "Ed25519", "ed25519", "ED25519", "X25519", "P-999", "P256"} {
					v := v
					if v != good.Crv {
						add("crv="+fmt.Sprintf("%q", v), func(j *JWK) { j.Crv = v })
					}
				}
				add("x missing", func(j *JWK) { j.X = "" })
				add("x shortened", func(j *JWK) { j.X = b64(x[1:]) })
				add("x shortened at the end", func(j *JWK) { j.X = b64(x[:len(x)-1]) })
				add("x left-padded with zero", func(j *JWK) { j.X = b64(append([]byte{0}, x...)) })
				add("x right-padded with zero", func(j *JWK) { j.X = b64(append(append([]byte{}, x...), 0)) })
				add("x doubled", func(j *JWK) { j.X = b64(append(append([]byte{}, x...), x...)) })
				add("x not base64", func(j *JWK) { j.X = good.X[:len(good.X)-1] + "!" })
				// (base64 padding on a coordinate decodes to the same bytes: the same key, not a malformed one)
				add("x all zero", func(j *JWK) { j.X = b64(make([]byte, len(x))) })
				for _, bit := range []int{0, 7, len(x)*8 - 1} {
					bit := bit
					add(fmt.Sprintf("x bit %d flipped", bit), func(j *JWK) {
						c := append([]byte{}, x...)
						c[bit/8] ^= 1 << (bit % 8)
						j.X = b64(c)
					})
				}
				if kt != keys.Ed25519 {
					add("y missing", func(j *JWK) { j.Y = "" })
					add("y shortened", func(j *JWK) { j.Y = b64(y[1:]) })
					add("y left-padded with zero", func(j *JWK) { j.Y = b64(append([]byte{0}, y...)) })
					add("y right-padded with zero", func(j *JWK) { j.Y = b64(append(append([]byte{}, y...), 0)) })
					add("y all zero", func(j *JWK) { j.Y = b64(make([]byte, len(y))) })
					add("x and y swapped", func(j *JWK) { j.X, j.Y = j.Y, j.X })
					for _, bit := range []int{0, 9, len(y)*8 - 1} {
						bit := bit
						add(fmt.Sprintf("y bit %d flipped (off curve)", bit), func(j *JWK) {
							c := append([]byte{}, y...)
							c[bit/8] ^= 1 << (bit % 8)
							j.Y = b64(c)
						})
					}
					// the mirrored point (x, p - y) is on the curve but is another key
					p := kt.Curve().Params().P
					ny := new(big.Int).Sub(p, new(big.Int).SetBytes(y))
					nyb := ny.Bytes()
					for len(nyb) < len(y) {
						nyb = append([]byte{0}, nyb...)
					}
					add("mirrored point (x, p-y)", func(j *JWK) { j.Y = b64(nyb) })
				} else {
					add("unexpected y member on OKP key", func(j *JWK) { j.Y = good.X })
				}
			}
			if ki <= 3 {
				judge(t, chkJWK, &Case{Compact: g.compact, Key: good, Accept: true, Note: "control: well-formed JWK " + k.ID()}, "class:control")
			}
			for _, m := range ms {
				c := &Case{Compact: g.compact, Key: m.j, Accept: false, Note: m.note + ": JWK derived from " + k.ID()}
				if m.note == "unexpected y member on OKP key" {
					// an ignored extra member does not make the key another key; only "no panic" is required
					kind, msg := evalCase(&Case{Compact: g.compact, Key: m.j, Accept: true, Note: c.Note})
					if strings.HasPrefix(kind, "C09/panic") {
						ev.Fail(t, chkJWK, kind, kind, c, "%s", msg)
					}
					continue
				}
				judge(t, chkJWK, c, "class:"+strings.SplitN(m.note, "=", 2)[0], "keytype:"+kt.String())
			}
		}
	}
	ev.Exhaustive(chkJWK)
}

// ---- malformed compact strings --------------------------------------------------------------------------

func TestMalformedCompact(t *testing.T) {
	ev.Rule(chkJunk, "rapid: arbitrary strings, 1/2/4-segment strings, bad base64 in each segment, header that is not a JSON object / lacks alg / has a non-string alg / a non-boolean b64 (the headers without alg and with a non-boolean b64 are re-signed by the genuine key over both candidate signing inputs, so only the header defect can be the reason for refusal; a non-string alg is not among the defects the statement names and keeps the stale signature), empty payload, empty signature, JSON serialization instead of compact, each paired with a well-formed JWK of a drawn type; oracle: error, never a panic, never acceptance; non-trivial = every case")
	ev.Rapid(t, chkJunk, 1500, 15000, func(t *rapid.T) {
		kt := rapid.SampledFrom(keys.AllTypes).Draw(t, "keyType")
		k := keys.Get(kt, "c09m", 1)
		g, _ := build(k, "asm", "", nil, []byte(`{"a":1}`))
		parts := strings.Split(g.compact, ".")
		payload := []byte(`{"a":1}`)
		// the malformed header is paired with a signature that is genuine for that very header (over the base64url
		// payload, or over the raw payload for the b64 cases), so that only the header defect can be the reason
		// for refusal; one time in four the stale signature of the original header is kept instead
		stale := rapid.IntRange(0, 3).Draw(t, "staleSignature") == 0
		rawInput := rapid.Bool().Draw(t, "rawPayloadInput")
		resignable := false // only the header defects the statement names are re-signed: missing alg, non-boolean b64
		hdr := func(s string) string {
			if stale || !resignable {
				return asm.B64([]byte(s)) + "." + parts[1] + "." + parts[2]
			}
			in := asm.B64([]byte(s)) + "." + parts[1]
			if rawInput {
				in = asm.B64([]byte(s)) + "." + string(payload)
			}
			return asm.B64([]byte(s)) + "." + parts[1] + "." + asm.B64(k.Sign([]byte(in)))
		}
		var compact, note string
		switch rapid.IntRange(0, 12).Draw(t, "junkKind") {
		case 0:
			compact, note = rapid.String().Draw(t, "arbitrary"), "arbitrary string"
		case 1:
			compact, note = rapid.StringMatching(`[A-Za-z0-9_.-]{0,80}`).Draw(t, "b64ish"), "arbitrary base64-ish string"
		case 2:
			compact, note = parts[0]+"."+parts[1], "two segments"
		case 3:
			compact, note = g.compact+"."+parts[2], "four segments"
		case 4:
			i := rapid.IntRange(0, 2).Draw(t, "segment")
			p := append([]string{}, parts...)
			p[i] = p[i][:len(p[i])/2] + rapid.SampledFrom([]string{"!", "+", "/", " ", "=", "%"}).Draw(t, "badChar") + p[i][len(p[i])/2:]
			compact, note = strings.Join(p, "."), "invalid base64 character in a segment"
		case 5:
			compact, note = hdr(rapid.SampledFrom([]string{`[]`, `"alg"`, `1`, `null`, `{`, ``, `{"alg":"ES256"`, `true`}).Draw(t, "nonObject")), "header is not a JSON object"
		case 6:
			resignable = true
			compact, note = hdr(`{"kid":"x"}`), "header without alg"
		case 7:
			compact, note = hdr(rapid.SampledFrom([]string{`{"alg":1}`, `{"alg":null}`, `{"alg":["ES256"]}`, `{"alg":{}}`, `{"alg":true}`}).Draw(t, "algType")), "non-string alg"
		case 8:
			resignable = true
			h := fmt.Sprintf(`{"alg":%q,"b64":%s}`, kt.Alg(), rapid.SampledFrom([]string{`"false"`, `0`, `null`, `[]`, `{}`, `"true"`, `1`, `""`, `0.0`, `[true]`, `{"b64":true}`}).Draw(t, "b64val"))
			compact, note = hdr(h), "non-boolean b64 header"
		case 9:
			compact, note = parts[0]+".."+parts[2], "empty payload segment"
		case 10:
			compact, note = parts[0]+"."+parts[1]+".", "empty signature segment"
		case 11:
			compact, note = fmt.Sprintf(`{"protected":%q,"payload":%q,"signature":%q}`, parts[0], parts[1], parts[2]), "JWS JSON serialization"
		default:
			compact, note = "."+parts[1]+"."+parts[2], "empty header segment"
		}
		if compact == g.compact {
			t.Skip("identity")
		}
		judge(t, chkJunk, &Case{Compact: compact, Key: jwkOf(k), Accept: false, Note: note}, "class:"+note)
	})
}

// ---- native fuzz target (thorough) ------------------------------------------------------------------------

// FuzzVerify feeds arbitrary (compact string, JWK members). Oracle: never a panic; acceptance only if the
// reference verification (own signing-input construction + stdlib verification through kit/keys material)
// cannot be refuted: here acceptance is checked against the set of genuine (compact, key) pairs seeded below.
func FuzzVerify(f *testing.F) {
	genuineSet := map[string]bool{}
	for _, kt := range keys.AllTypes {
		k := keys.Get(kt, "c09f", 1)
		g, _ := build(k, "asm", "", nil, []byte(`{"f":1}`))
		j := jwkOf(k)
		f.Add(g.compact, j.Kty, j.Crv, j.X, j.Y)
		genuineSet[g.compact+"|"+j.Kty+"|"+j.Crv+"|"+j.X+"|"+j.Y] = true
	}
	f.Add("a.b.c", "EC", "P-256", "", "")
	f.Add("", "OKP", "Ed25519", "AAAA", "")
	f.Fuzz(func(t *testing.T, compact, kty, crv, x, y string) {
		if len(compact) > 1<<14 {
			return
		}
		c := &Case{Compact: compact, Key: JWK{Kty: kty, Crv: crv, X: x, Y: y}, Note: "native fuzz"}
		var err error
		if p := ev.Catch(func() { _, err = verifhooks.VerifyJWS(compact, c.Key.lib()) }); p != "" {
			ev.Fail(t, chkFuzz, "C09/panic", "C09/panic/fuzz", c, "VerifyJWS panicked: %s", p)
		}
		if err == nil && !genuineSet[compact+"|"+kty+"|"+crv+"|"+x+"|"+y] && !sameGenuine(compact, c.Key, genuineSet) {
			ev.Fail(t, chkFuzz, "C09/accepted", "C09/accepted/fuzz", c, "fuzzed input accepted: %q under %+v", compact, c.Key)
		}
	})
}

// sameGenuine tolerates inputs that decode to exactly a genuine JWS and key (other base64 / JSON spelling of
// the same header value, y ignored for OKP, the ECDSA twin of the signature): the decoded header value, the
// decoded payload and the decoded key coordinates equal those of a seeded genuine pair.
func sameGenuine(compact string, k JWK, set map[string]bool) bool {
	parts := strings.Split(compact, ".")
	if len(parts) != 3 {
		return false
	}
	dec := func(s string) []byte {
		b, err := base64.RawURLEncoding.DecodeString(strings.TrimRight(s, "="))
		if err != nil {
			b, _ = base64.RawURLEncoding.WithPadding(base64.NoPadding).DecodeString(s)
		}
		return b
	}
	hv := func(b []byte) string {
		var m map[string]interface{}
		if json.Unmarshal(b, &m) != nil {
			return "!"
		}
		o, _ := json.Marshal(m)
		return string(o)
	}
	for g := range set {
		f := strings.Split(g, "|")
		gp := strings.Split(f[0], ".")
		if !strings.EqualFold(f[1], k.Kty) || !strings.EqualFold(f[2], k.Crv) || string(dec(f[3])) != string(dec(k.X)) {
			continue
		}
		if k.Kty != "OKP" && string(dec(f[4])) != string(dec(k.Y)) {
			continue
		}
		if hv(dec(parts[0])) == hv(dec(gp[0])) && string(dec(parts[1])) == string(dec(gp[1])) {
			return true
		}
	}
	return false
}
