// Package c19 decides property C19: the external DID document is a faithful projection of the resolved state
// (keys, relationships, services, alsoKnownAs, contexts) and the metadata reports the model unaltered.
package c19

import (
	"encoding/json"
	"fmt"
	"reflect"
	"sort"
	"testing"

	"github.com/trustbloc/sidetree-core-go/pkg/api/operation"
	"github.com/trustbloc/sidetree-core-go/pkg/api/protocol"
	"github.com/trustbloc/sidetree-core-go/pkg/dochandler"
	"github.com/trustbloc/sidetree-core-go/pkg/document"
	"github.com/trustbloc/sidetree-core-go/pkg/versions/1_0/doctransformer/didtransformer"
	"pgregory.net/rapid"

	"verifharness/kit/ev"
	"verifharness/kit/gen"
	"verifharness/kit/refdoc"
)

func TestMain(m *testing.M) { ev.Main(m, "C19") }

const chk = "projection-vs-reference"

// OpRef is an operation listed in the model's published / unpublished operation lists.
type OpRef struct {
	Time uint64 `json:"time"`
	Num  uint64 `json:"num"`
	Ref  string `json:"ref"`
}

// Case is one resolution model + transformation info + transformer options.
type Case struct {
	Doc          map[string]interface{} `json:"doc"`
	Update       string                 `json:"update"`
	Recovery     string                 `json:"recovery"`
	AnchorOrigin interface{}            `json:"anchorOrigin"`
	Deactivated  bool                   `json:"deactivated"`
	VersionID    string                 `json:"versionId"`
	Created      uint64                 `json:"created"`
	Updated      uint64                 `json:"updated"`
	CanonicalRef string                 `json:"canonicalRef"`
	Equivalent   []string               `json:"equivalentRefs"`
	Published    bool                   `json:"published"`
	Suffix       string                 `json:"suffix"`
	Namespace    string                 `json:"namespace"`
	Domain       string                 `json:"domain"`
	Label        string                 `json:"label"`
	LongForm     string                 `json:"longForm"`
	Base         bool                   `json:"base"`
	MethodCtx    []string               `json:"methodContext"`
	IncludePub   bool                   `json:"includePublishedOps"`
	IncludeUnpub bool                   `json:"includeUnpublishedOps"`
	PubOps       []OpRef                `json:"publishedOps"`
	UnpubOps     []OpRef                `json:"unpublishedOps"`
}

func init() {
	ev.RegisterReplay(chk, replay)
	ev.Assume("internal documents carry well-formed entries (what validation guarantees); Ed25519 2018/2020 keys carry genuine 32-byte OKP JWKs")
	ev.Assume("'updated' is applicable when the model has a version id and a non-zero updated time; 'created' when the document is published")
}

var transformers = map[string]*didtransformer.Transformer{}

// heldResult is a result a caller still holds: the live object and its JSON at the time it was returned.
type heldResult struct {
	key      string
	live     *document.ResolutionResult
	snapshot string
}

var held []heldResult

// TestReplay runs first.
func TestReplay(t *testing.T) { ev.ReplayMain(t) }

func replay(raw json.RawMessage) (string, string) {
	var c Case
	if err := json.Unmarshal(raw, &c); err != nil {
		return "bad-replay", err.Error()
	}
	return evalCase(&c)
}

func js(v interface{}) string {
	b, _ := json.Marshal(v)
	return string(b)
}

func norm(v interface{}) interface{} {
	b, _ := json.Marshal(v)
	var o interface{}
	_ = json.Unmarshal(b, &o)
	return o
}

func evalCase(c *Case) (string, string) {
	rm := &protocol.ResolutionModel{
		Doc: document.Document(norm(c.Doc).(map[string]interface{})), UpdateCommitment: c.Update, RecoveryCommitment: c.Recovery, AnchorOrigin: c.AnchorOrigin,
		Deactivated: c.Deactivated, VersionID: c.VersionID, CreatedTime: c.Created, UpdatedTime: c.Updated, CanonicalReference: c.CanonicalRef, EquivalentReferences: c.Equivalent,
	}
	for _, o := range c.PubOps {
		rm.PublishedOperations = append(rm.PublishedOperations, &operation.AnchoredOperation{Type: operation.TypeUpdate, UniqueSuffix: c.Suffix, OperationRequest: []byte(o.Ref), TransactionTime: o.Time, TransactionNumber: o.Num, CanonicalReference: o.Ref})
	}
	for _, o := range c.UnpubOps {
		rm.UnpublishedOperations = append(rm.UnpublishedOperations, &operation.AnchoredOperation{Type: operation.TypeUpdate, UniqueSuffix: c.Suffix, OperationRequest: []byte("u"), TransactionTime: o.Time})
	}
	// transformation info from the library's own helpers (anchored to the property) and the independent expectation
	var ti protocol.TransformationInfo
	var did string
	info := refdoc.Info{Published: c.Published}
	if c.Published {
		did = c.Namespace + ":" + c.Suffix
		ti = dochandler.GetTransformationInfoForPublished(c.Namespace, did, c.Suffix, rm)
		canon := c.Namespace + ":" + c.Suffix
		if c.CanonicalRef != "" {
			canon = c.Namespace + ":" + c.CanonicalRef + ":" + c.Suffix
		}
		info.CanonicalID = canon
		info.Equivalent = []string{canon}
		for _, e := range c.Equivalent {
			info.Equivalent = append(info.Equivalent, c.Namespace+":"+e+":"+c.Suffix)
		}
	} else {
		ti = dochandler.GetTransformationInfoForUnpublished(c.Namespace, c.Domain, c.Label, c.Suffix, c.LongForm)
		did = c.Namespace + ":" + c.Suffix
		if c.Label != "" {
			did = c.Namespace + ":" + c.Label + ":" + c.Suffix
		}
		if c.LongForm != "" {
			info.Equivalent = append(info.Equivalent, did)
		}
		if c.Label != "" && c.Domain != "" {
			info.Equivalent = append(info.Equivalent, c.Namespace+":"+c.Domain+":"+c.Label+":"+c.Suffix)
		}
		if c.LongForm != "" {
			did = did + ":" + c.LongForm
		}
	}
	opts := []didtransformer.Option{didtransformer.WithBase(c.Base), didtransformer.WithIncludePublishedOperations(c.IncludePub), didtransformer.WithIncludeUnpublishedOperations(c.IncludeUnpub)}
	if len(c.MethodCtx) > 0 {
		opts = append(opts, didtransformer.WithMethodContext(c.MethodCtx))
	}
	var rr *document.ResolutionResult
	var err error
	before := js(c.Doc)
	// one long-lived transformer per option set, as on a real node
	tkey := fmt.Sprintf("%v|%v|%v|%q", c.Base, c.IncludePub, c.IncludeUnpub, c.MethodCtx)
	tr, ok := transformers[tkey]
	if !ok {
		tr = didtransformer.New(opts...)
		transformers[tkey] = tr
	}
	if p := ev.Catch(func() { rr, err = tr.TransformDocument(rm, ti) }); p != "" {
		return "C19/panic", "TransformDocument panicked: " + p
	}
	if err != nil {
		return "C19/transform-error", fmt.Sprintf("TransformDocument failed on a well-formed model: %v; doc %s", err, before)
	}
	// results handed out earlier by the same long-lived transformers must not change when later calls run
	for _, h := range held {
		if now := js(h.live); now != h.snapshot {
			return "C19/earlier-result-changed", fmt.Sprintf("a resolution result returned earlier changed after a later TransformDocument call on the same transformer (options %s): was %s, now %s", h.key, h.snapshot, now)
		}
	}
	held = append(held, heldResult{key: tkey, live: rr, snapshot: js(rr)})
	if len(held) > 12 {
		held = held[1:]
	}
	want, perr := refdoc.Project(refdoc.FromMap(c.Doc), did, refdoc.ProjectOpts{Base: c.Base, MethodContext: c.MethodCtx})
	if perr != nil {
		return "bad-case", perr.Error()
	}
	got := norm(rr.Document).(map[string]interface{})
	if d := refdoc.DiffExternal(got, norm(want).(map[string]interface{})); len(d) > 0 {
		kind := "C19/projection-mismatch"
		if len(d) == 1 && d[0] == "publicKey(leaked)" {
			kind = "C19/internal-section-leaked"
		}
		return kind, fmt.Sprintf("external document differs from the independent projection on %v: got %s want %s (internal %s)", d, js(got), js(want), before)
	}
	if rr.Context != "https://w3id.org/did-resolution/v1" {
		return "C19/projection-mismatch", fmt.Sprintf("resolution context %v", rr.Context)
	}
	// metadata
	gm := norm(rr.DocumentMetadata).(map[string]interface{})
	method, _ := gm["method"].(map[string]interface{})
	var pubList, unpubList []interface{}
	if method != nil {
		pubList, _ = method["publishedOperations"].([]interface{})
		unpubList, _ = method["unpublishedOperations"].([]interface{})
		delete(method, "publishedOperations")
		delete(method, "unpublishedOperations")
	}
	wm := refdoc.Metadata(refdoc.Model{Update: c.Update, Recovery: c.Recovery, AnchorOrigin: c.AnchorOrigin, Deactivated: c.Deactivated, VersionID: c.VersionID, CreatedTime: c.Created, UpdatedTime: c.Updated}, info)
	if d := refdoc.DiffMetadata(gm, norm(wm).(map[string]interface{})); len(d) > 0 {
		return "C19/metadata-mismatch", fmt.Sprintf("document metadata differs from the model on %v: got %s want %s", d, js(gm), js(wm))
	}
	// operation lists: present iff enabled and non-empty; published one entry per canonical reference in (time, number) order
	wantPub := 0
	if c.IncludePub {
		seen := map[string]bool{}
		for _, o := range c.PubOps {
			if !seen[o.Ref] {
				seen[o.Ref] = true
				wantPub++
			}
		}
	}
	wantUnpub := 0
	if c.IncludeUnpub {
		wantUnpub = len(c.UnpubOps)
	}
	if len(pubList) != wantPub || len(unpubList) != wantUnpub {
		return "C19/operation-lists", fmt.Sprintf("metadata lists %d published / %d unpublished operations, want %d / %d", len(pubList), len(unpubList), wantPub, wantUnpub)
	}
	var prevT, prevN float64 = -1, -1
	for _, e := range pubList {
		m := e.(map[string]interface{})
		tt, nn := m["transactionTime"].(float64), m["transactionNumber"].(float64)
		if tt < prevT || (tt == prevT && nn < prevN) {
			return "C19/operation-lists", "published operations are not listed in (time, number) order: " + js(pubList)
		}
		prevT, prevN = tt, nn
	}
	if js(c.Doc) != before {
		return "C19/input-mutated", "TransformDocument modified the internal document"
	}
	return "", ""
}

func diffKeys(a, b map[string]interface{}) []string {
	set := map[string]bool{}
	for k := range a {
		if !reflect.DeepEqual(a[k], b[k]) {
			set[k] = true
		}
	}
	for k := range b {
		if !reflect.DeepEqual(a[k], b[k]) {
			set[k] = true
		}
	}
	var out []string
	for k := range set {
		out = append(out, k)
	}
	sort.Strings(out)
	return out
}

func TestProjection(t *testing.T) {
	ev.Rule(chk, "rapid: internal documents with 0-6 keys (one document in ten: 7-30 keys and 4-15 services) over every type x purposes x material (Ed25519 2018/2020 with genuine 32-byte OKP JWKs, JsonWebKey2020 over 4 curves, base58 material), 0-3 services of every endpoint shape with extra members, 0-3 alsoKnownAs URIs, other members; resolution models (commitments present/absent, anchor origin of several JSON types, deactivated, times 0 and > 0 incl. updated == created, version id, canonical / equivalent references, operation lists with non-monotone numbers and duplicate references); options (base, method contexts incl. ones equal to a key-suite context, include-operations flags); transformation info from GetTransformationInfoFor{Published,Unpublished} (label, domain, long form); the transformers are long-lived (one per option set for the whole process) and the last 12 results stay held: none of them may change when later calls run; oracle: external document == independent projection (kit/refdoc: own base58 / multibase, id qualification, controller, relationship sections exactly per purposes, services qualified with remaining members, alsoKnownAs unchanged, contexts = DID context, method contexts, base, one per key type in order of first use, no publicKey member) and metadata == model (commitments, anchor origin, deactivated, published, version id, RFC 3339 times when applicable, canonical / equivalent ids), operation lists present iff enabled, de-duplicated, ordered; non-trivial = >= 2 keys with different purposes or types, or base enabled, or an Ed25519 re-encoding")
	ev.Rapid(t, chk, 1500, 15000, func(t *rapid.T) {
		c := &Case{Namespace: "did:sidetree", Suffix: "EiD" + rapid.StringMatching(`[A-Za-z0-9_-]{6}`).Draw(t, "suffix")}
		d := map[string]interface{}{}
		nk := rapid.IntRange(0, 6).Draw(t, "keys")
		many := rapid.IntRange(0, 9).Draw(t, "manyEntries") == 0
		if many {
			// documents well beyond hand-written sizes
			nk = rapid.IntRange(7, 30).Draw(t, "manyKeys")
		}
		var ks []interface{}
		types := map[string]bool{}
		ed := false
		for i := 0; i < nk; i++ {
			k := gen.DocKey(t, fmt.Sprintf("key%d", i+1))
			ks = append(ks, k)
			types[k["type"].(string)+js(k["purposes"])] = true
			if tp := k["type"].(string); tp == "Ed25519VerificationKey2018" || tp == "Ed25519VerificationKey2020" {
				ed = true
			}
		}
		if nk > 0 {
			d["publicKey"] = ks
		}
		var ss []interface{}
		ns := rapid.IntRange(0, 3).Draw(t, "services")
		if many {
			ns = rapid.IntRange(4, 15).Draw(t, "manyServices")
		}
		for i := 0; i < ns; i++ {
			ss = append(ss, gen.DocService(t, fmt.Sprintf("svc%d", i+1)))
		}
		if len(ss) > 0 {
			d["service"] = ss
		}
		var us []interface{}
		for _, u := range gen.URIAlphabet[:rapid.IntRange(0, 3).Draw(t, "uris")] {
			us = append(us, u)
		}
		if len(us) > 0 {
			d["alsoKnownAs"] = us
		}
		if rapid.Bool().Draw(t, "other") {
			d["label"] = "internal-only"
		}
		c.Doc = d
		if rapid.IntRange(0, 4).Draw(t, "hasUpdate") > 0 {
			c.Update = "EiA-update-commitment"
		}
		if rapid.IntRange(0, 4).Draw(t, "hasRecovery") > 0 {
			c.Recovery = "EiA-recovery-commitment"
		}
		c.AnchorOrigin = rapid.SampledFrom([]interface{}{nil, "origin.example", map[string]interface{}{"a": []interface{}{"b"}}, float64(3), true}).Draw(t, "anchorOrigin")
		c.Deactivated = rapid.IntRange(0, 5).Draw(t, "deactivated") == 0
		c.Created = uint64(rapid.SampledFrom([]int{0, 1, 1600000000, 1700000000}).Draw(t, "created"))
		c.Updated = uint64(rapid.SampledFrom([]int{0, 1, 1600000000, 1700000000, 1700000001}).Draw(t, "updated"))
		c.VersionID = rapid.SampledFrom([]string{"", "ver-1", "uEiAbc"}).Draw(t, "versionId")
		c.Published = rapid.Bool().Draw(t, "published")
		c.CanonicalRef = rapid.SampledFrom([]string{"", "uEiCanonical"}).Draw(t, "canonicalRef")
		if rapid.Bool().Draw(t, "equivalent") {
			c.Equivalent = []string{"ipfs:QmA", "https:host:uEiX"}[:rapid.IntRange(1, 2).Draw(t, "equivalentCount")]
		}
		if !c.Published {
			c.Label = rapid.SampledFrom([]string{"", "interim", "uAAA"}).Draw(t, "label")
			c.Domain = rapid.SampledFrom([]string{"", "https:example.com"}).Draw(t, "domain")
			c.LongForm = rapid.SampledFrom([]string{"", "eyJkZWx0YSI6e319"}).Draw(t, "longForm")
		}
		c.Base = rapid.Bool().Draw(t, "base")
		if rapid.Bool().Draw(t, "methodCtx") {
			// method contexts come from a handful of node configurations (so that each long-lived transformer is reused
			// often): free-form ones and ones that coincide with a key-suite context or the DID context
			c.MethodCtx = rapid.SampledFrom([][]string{
				{"https://w3id.org/did/v1/method"},
				{"https://w3id.org/did/v1/method", "https://second.example/ctx"},
				{"https://w3id.org/did/v1/method", "https://w3id.org/security/suites/jws-2020/v1"},
				{"https://w3id.org/security/suites/ed25519-2018/v1", "https://second.example/ctx", "https://w3id.org/security/suites/x25519-2019/v1"},
				{"https://w3id.org/did/v1/method", "https://second.example/ctx", "https://third.example/ctx", "https://www.w3.org/ns/did/v1"},
				{"a:1", "a:2", "a:3", "a:4", "a:5"},
			}).Draw(t, "methodCtx")
		}
		c.IncludePub, c.IncludeUnpub = rapid.Bool().Draw(t, "includePub"), rapid.Bool().Draw(t, "includeUnpub")
		np := rapid.IntRange(0, 5).Draw(t, "pubOps")
		perm := gen.Perm(t, np, "numPerm")
		for i := 0; i < np; i++ {
			ref := fmt.Sprintf("ref-%d", i)
			c.PubOps = append(c.PubOps, OpRef{Time: uint64(10 + rapid.IntRange(0, 3).Draw(t, "opTime")), Num: uint64(perm[i]), Ref: ref})
		}
		if np > 0 && rapid.IntRange(0, 3).Draw(t, "dupRef") == 0 {
			c.PubOps = append(c.PubOps, c.PubOps[0])
		}
		for i := 0; i < rapid.IntRange(0, 2).Draw(t, "unpubOps"); i++ {
			c.UnpubOps = append(c.UnpubOps, OpRef{Time: uint64(500 - i)})
		}
		kind, msg := evalCase(c)
		ev.Record(chk, len(types) >= 2 || c.Base || ed, ev.Hash(c), fmt.Sprintf("keys:%d", nk), fmt.Sprintf("base:%v", c.Base), fmt.Sprintf("published:%v", c.Published), fmt.Sprintf("ed25519-reencoding:%v", ed))
		ev.SampleFn(chk, func() interface{} { return c })
		if kind != "" {
			ev.Fail(t, chk, kind, kind, c, "%s", msg)
		}
	})
}
