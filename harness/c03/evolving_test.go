package c03

import (
	"encoding/json"
	"fmt"
	"testing"

	"github.com/trustbloc/sidetree-core-go/pkg/api/operation"
	"github.com/trustbloc/sidetree-core-go/pkg/processor"
	"pgregory.net/rapid"

	"verifharness/kit/ev"
	"verifharness/kit/gen"
	"verifharness/kit/hist"
	"verifharness/kit/refmodel"
	"verifharness/kit/res"
	"verifharness/kit/wire"
)

const chkEvolve = "evolving-history-long-lived-processor"

// EvCase is the life of one DID on one node: the operations in submission order; operation i (> 0) is first visible
// as a pending (unpublished) operation stamped with wall-clock second Pending[i], then anchored at (Time[i], Num[i]).
// One OperationProcessor object serves every resolution of the case.
type EvCase struct {
	hist.Case
	Pending []uint64 `json:"pendingTimes"`
}

func init() { ev.RegisterReplay(chkEvolve, replayEvolve) }

func replayEvolve(raw json.RawMessage) (string, string) {
	var c EvCase
	if err := json.Unmarshal(raw, &c); err != nil {
		return "bad-replay", err.Error()
	}
	return evalEvolve(&c)
}

type unpubStore struct {
	ops []*operation.AnchoredOperation
}

func (u *unpubStore) Get(suffix string) ([]*operation.AnchoredOperation, error) {
	var out []*operation.AnchoredOperation
	for _, op := range u.ops {
		if op.UniqueSuffix == suffix {
			out = append(out, wire.CopyOp(op))
		}
	}
	if len(out) == 0 {
		return nil, fmt.Errorf("not found")
	}
	return out, nil
}

// evalEvolve replays the life of the DID step by step on one long-lived processor and compares every resolution
// with the reference model of the snapshot (anchored operations so far + the pending one).
func evalEvolve(c *EvCase) (string, string) {
	store := &wire.SliceStore{}
	unpub := &unpubStore{}
	p := processor.New("verif", store, res.BoundedClient(c.Client(), 40*len(c.Ops)+40), processor.WithUnpublishedOperationStore(unpub))
	params := refmodel.Params{MaxTimeDelta: c.Protocol().MaxOperationTimeDelta}
	descs := c.Descs()
	check := func(step string, snapshot []*refmodel.Op) (string, string) {
		var got *res.Outcome
		if pn := ev.Catch(func() {
			rm, err := p.Resolve(c.Suffix)
			if err != nil {
				got = &res.Outcome{Err: err.Error()}
				return
			}
			got = res.FromModel(rm, nil)
		}); pn != "" {
			return "C03/panic", fmt.Sprintf("%s: Resolve on the long-lived processor panicked: %s", step, pn)
		}
		m := refmodel.Resolve(snapshot, params)
		if v, _ := res.VsModel(got, m); len(v) > 0 {
			return "C03/model-mismatch", fmt.Sprintf("%s: the long-lived processor resolves differently from the reference state machine on %v: implementation=%s reference=%s", step, v, js(got), js(m))
		}
		return "", ""
	}
	var anchored []*refmodel.Op
	for i := range c.Ops {
		a := c.Anchored(i)
		if i > 0 {
			// pending phase
			pend := *a
			pend.TransactionTime, pend.TransactionNumber, pend.CanonicalReference = c.Pending[i], 0, ""
			unpub.ops = []*operation.AnchoredOperation{&pend}
			pd := *descs[i]
			pd.Time, pd.Num, pd.Ref, pd.Published = c.Pending[i], 0, "", false
			if k, m := check(fmt.Sprintf("step %d (%s pending at %d)", i, pd.Name, c.Pending[i]), append(append([]*refmodel.Op{}, anchored...), &pd)); k != "" {
				return k, m
			}
		}
		unpub.ops = nil
		store.Ops = append(store.Ops, a)
		anchored = append(anchored, descs[i])
		if k, m := check(fmt.Sprintf("step %d (%s anchored at %d/%d)", i, descs[i].Name, descs[i].Time, descs[i].Num), anchored); k != "" {
			return k, m
		}
	}
	return "", ""
}

func TestEvolvingHistory(t *testing.T) {
	ev.Rule(chkEvolve, "rapid: the life of one DID on one node - 2-12 operations (valid chain with failing-delta and out-of-window operations) submitted one after the other; each is first visible as a pending operation stamped with a wall-clock second drawn from a small set (equal seconds are frequent, number 0) and then anchored at strictly increasing ledger coordinates; ONE OperationProcessor object resolves the DID after every step; oracle: every resolution equals the reference model of that snapshot; non-trivial = two operations share a pending stamp, or >= 4 operations")
	ev.Rapid(t, chkEvolve, 300, 4000, func(t *rapid.T) {
		h := gen.Hist(t, gen.HistOpts{MinOps: 1, MaxOps: 11, BadDeltas: true, Windows: true, Pool: "c03ev"})
		var anch []*hist.Anchored
		ec := &EvCase{}
		seen := map[uint64]bool{}
		shared := false
		for i, op := range h.Ops {
			anch = append(anch, op.At(uint64(20+3*i+rapid.IntRange(0, 2).Draw(t, "dt")), uint64(rapid.IntRange(0, 9).Draw(t, "num")), fmt.Sprintf("ref-%d", i), 0))
			pt := uint64(rapid.SampledFrom([]int{5, 5, 6, 100000, 100000, 100001}).Draw(t, "pendingSecond"))
			if i > 0 && seen[pt] {
				shared = true
			}
			seen[pt] = true
			ec.Pending = append(ec.Pending, pt)
		}
		ec.Case = *hist.NewCase(h.Suffix, h.Code, 0, anch)
		kind, msg := evalEvolve(ec)
		ev.Record(chkEvolve, shared || len(h.Ops) >= 4, ev.Hash(ec), fmt.Sprintf("shared-pending-stamp:%v", shared), fmt.Sprintf("ops:%d", len(h.Ops)/4*4))
		ev.SampleFn(chkEvolve, func() interface{} { return map[string]interface{}{"history": ec.Summary(), "pending": ec.Pending} })
		if kind != "" {
			ev.Fail(t, chkEvolve, kind, kind, ec, "%s", msg)
		}
	})
}
