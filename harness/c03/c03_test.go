// Package c03 decides property C03: for every history the resolved state equals that of the Sidetree
// reference state machine (partial failures included), each commitment is consumed at most once and
// resolution terminates.
package c03

import (
	"encoding/json"
	"fmt"
	"strings"
	"testing"
	"time"

	"github.com/trustbloc/sidetree-core-go/pkg/document"
	"pgregory.net/rapid"

	"verifharness/kit/asm"
	"verifharness/kit/ev"
	"verifharness/kit/gen"
	"verifharness/kit/hist"
	"verifharness/kit/keys"
	"verifharness/kit/refmodel"
	"verifharness/kit/res"
)

func TestMain(m *testing.M) { ev.Main(m, "C03") }

const (
	chkEnum  = "enum-histories"
	chkRapid = "rapid-long-histories"
)

func init() {
	ev.RegisterReplay(chkEnum, replay)
	ev.RegisterReplay(chkRapid, replay)
	ev.Assume("operations of one DID carry pairwise distinct (time, number) pairs")
	ev.Assume("the reference model (kit/refmodel) is written from the property statement and consumes operation descriptors, never request bytes")
	ev.Assume("termination is judged by a step bound (more than 4*|history|+8 Apply calls in one Resolve), not by a clock")
}

// TestReplay runs first.
func TestReplay(t *testing.T) { ev.ReplayMain(t) }

func replay(raw json.RawMessage) (string, string) {
	var c hist.Case
	if err := json.Unmarshal(raw, &c); err != nil {
		return "bad-replay", err.Error()
	}
	k, _, m, _ := evalCase(&c)
	return k, m
}

func js(v interface{}) string {
	b, _ := json.Marshal(v)
	return string(b)
}

// evalCase compares Resolve with the reference model on the verdict fields and checks the termination
// bound and the consumed-at-most-once log. Advisory differences are returned separately.
func evalCase(c *hist.Case) (kind, sig, msg string, advisory []string) {
	pub, unpub := c.Stores()
	got := res.Resolve(c.Client(), c.Suffix, pub, unpub)
	m := c.Model()
	if got.Panic != "" {
		if strings.Contains(got.Panic, "step bound") {
			return "C03/non-termination", "non-termination", fmt.Sprintf("Resolve made more than %d Apply calls on a history of %d operations: %s", 4*len(c.Ops)+8, len(c.Ops), got.Panic), nil
		}
		return "C03/panic", "panic", "Resolve panicked: " + got.Panic, nil
	}
	if tw := res.ConsumedTwice(got); tw != "" {
		return "C03/consumed-twice", "consumed-twice", tw + "; applied=" + js(got.Applied), nil
	}
	v, adv := res.VsModel(got, m)
	if len(v) > 0 {
		return "C03/model-mismatch", "model-mismatch", fmt.Sprintf("resolved state differs from the reference state machine on %v: implementation=%s reference=%s", v, js(got), js(m)), adv
	}
	if ma := c.ModelAsOf(c.AsOf); c.AsOf != 0 && ma != nil {
		// the state as of a time is the state machine's state over the history up to that time
		ga := res.Resolve(c.Client(), c.Suffix, pub, unpub, document.WithVersionTime(time.Unix(int64(c.AsOf), 0).UTC().Format(time.RFC3339)))
		if ga.Panic != "" {
			return "C03/panic", "panic", "Resolve (as of a time) panicked: " + ga.Panic, nil
		}
		if va, _ := res.VsModel(ga, ma); len(va) > 0 {
			return "C03/model-mismatch", "model-mismatch-as-of", fmt.Sprintf("state resolved as of time %d differs from the reference state machine over the operations up to that time on %v: implementation=%s reference=%s", c.AsOf, va, js(ga), js(ma)), adv
		}
	}
	return "", "", "", adv
}

// branches classifies which non-plain applier branches / shapes a history exercises.
func branches(c *hist.Case) map[string]bool {
	b := map[string]bool{}
	consumers := map[string]int{}
	for _, o := range c.Ops {
		d := o.Desc
		if d.Delta != "" && d.Delta != refmodel.DeltaGood {
			b["delta:"+d.Delta] = true
		}
		if (d.From != 0 || d.Until != 0) && !refmodel.InWindow(d.From, d.Until, d.Time, c.Protocol().MaxOperationTimeDelta) {
			b["out-of-window"] = true
		}
		if !d.Authorised {
			b["unauthorised"] = true
		}
		if strings.Contains(d.Name, "cyc") {
			b["cycle"] = true
		}
		if strings.Contains(d.Name, "replay") || strings.Contains(d.Name, "dup") {
			b["replay"] = true
		}
		if d.Authorised && d.Type != "create" {
			consumers[d.Type[:1]+d.Consumes]++
		}
		if !d.Published {
			b["unpublished"] = true
		}
	}
	for k, n := range consumers {
		if n >= 2 {
			b["fork"] = true
			_ = k
		}
	}
	return b
}

func nontrivial(b map[string]bool) bool {
	if b["fork"] || b["cycle"] {
		return true
	}
	n := 0
	for k := range b {
		if k != "unpublished" {
			n++
		}
	}
	return n >= 2
}

func caseID(c *hist.Case) uint64 {
	var parts []interface{}
	for _, o := range c.Ops {
		parts = append(parts, o.Desc.Name, o.Desc.Time, o.Desc.Num, o.Desc.Published)
	}
	parts = append(parts, c.Code)
	return ev.Hash(parts...)
}

func classes(b map[string]bool) []string {
	var out []string
	for k := range b {
		out = append(out, "branch:"+k)
	}
	return out
}

// ------------------------------------------------------------------------------------------------

type alphabet struct {
	suffix string
	code   uint64
	ops    []*hist.Op
}

func buildAlphabet(kt keys.Type, code uint64) *alphabet {
	k := func(i int) *keys.Key { return keys.Get(kt, "c03-enum", i) }
	mk := func(name string) map[string]interface{} { return map[string]interface{}{name: "1"} }
	c := hist.NewCreate(hist.CreateSpec{Name: "C", Code: code, Recovery: k(0), Update: k(1), Markers: mk("c")})
	s := c.Suffix
	sg := func(name, typ string, reveal, nu, nr *keys.Key, opt hist.Opt) *hist.Op {
		return hist.NewSigned(hist.SignedSpec{Name: name, Type: typ, Suffix: s, Code: code, Reveal: reveal, NextUpd: nu, NextRec: nr, Markers: mk(strings.ToLower(name)), Opt: opt})
	}
	a := sg("A", "update", k(1), k(2), nil, hist.Opt{})
	replayA := *a
	replayA.Desc.Name = "A/replay"
	ops := []*hist.Op{
		c,
		hist.DupCreateOtherDelta(c, "C2-other-delta", code),
		a,
		sg("A2", "update", k(1), k(3), nil, hist.Opt{}),                                   // fork
		sg("AF", "update", k(1), k(4), nil, hist.Opt{Delta: refmodel.DeltaFailPatch}),     // advances, doc unchanged
		sg("AI", "update", k(1), k(5), nil, hist.Opt{Delta: refmodel.DeltaInvalid}),       // ignored
		sg("AM", "update", k(1), k(6), nil, hist.Opt{Delta: refmodel.DeltaMismatch}),      // ignored
		sg("AW", "update", k(1), k(7), nil, hist.Opt{From: 5000}),                         // out of window: advances, doc unchanged
		sg("B", "update", k(2), k(8), nil, hist.Opt{}),                                    // after A
		sg("BC", "update", k(2), nil, nil, hist.Opt{NextUpdate: asm.Commit(k(1), code)}),  // cycle back to the create's update commitment
		sg("R", "recover", k(0), k(10), k(9), hist.Opt{}),                                 // valid recover
		sg("RM", "recover", k(0), k(12), k(11), hist.Opt{Delta: refmodel.DeltaMismatch}),  // {} and no update commitment
		sg("RF", "recover", k(0), k(14), k(13), hist.Opt{Delta: refmodel.DeltaFailPatch}), // {} with update commitment
		sg("RW", "recover", k(0), k(16), k(15), hist.Opt{From: 5000}),                     // out of window: {} with update commitment
		sg("D0", "deactivate", k(0), nil, nil, hist.Opt{}),                                // by the original recovery key
		sg("D1", "deactivate", k(9), nil, nil, hist.Opt{}),                                // by the recovery key R commits to
		sg("P", "update", k(10), k(17), nil, hist.Opt{}),                                  // after R
		&replayA,
	}
	ops[9].Desc.Name = "BCcyc"
	return &alphabet{suffix: s, code: code, ops: ops}
}

func permutations(n int) [][]int {
	var out [][]int
	p := make([]int, n)
	for i := range p {
		p[i] = i
	}
	var rec func(k int)
	rec = func(k int) {
		if k == n {
			out = append(out, append([]int{}, p...))
			return
		}
		for i := k; i < n; i++ {
			p[k], p[i] = p[i], p[k]
			rec(k + 1)
			p[k], p[i] = p[i], p[k]
		}
	}
	rec(0)
	return out
}

func subsets(n, maxSize int) [][]int {
	var out [][]int
	var rec func(start int, cur []int)
	rec = func(start int, cur []int) {
		out = append(out, append([]int{}, cur...))
		if len(cur) == maxSize {
			return
		}
		for i := start; i < n; i++ {
			rec(i+1, append(cur, i))
		}
	}
	rec(0, nil)
	return out
}

var coordPatterns = []struct {
	name string
	at   func(pos, n int) (uint64, uint64)
}{
	{"non-monotone-numbers", func(pos, n int) (uint64, uint64) { return uint64(10 + pos), uint64((pos*7 + 3) % 11) }},
	{"time-ties", func(pos, n int) (uint64, uint64) { return uint64(10 + pos/2), uint64(n - pos%2) }},
}

func TestEnumHistories(t *testing.T) {
	maxOthers := ev.N(3, 4)
	ev.Rule(chkEnum, fmt.Sprintf("all sub-histories made of the create plus <= %d of 17 other operations (duplicate create with other delta; updates: valid A, fork A2, failing-patch AF, invalid-delta AI, hash-mismatch AM, out-of-window AW, B after A, cyclic BC, P after recover, byte-identical replay of A; recovers: valid R, mismatched-delta RM, failing-patch RF, out-of-window RW; deactivate by the old (D0) and by the new (D1) recovery key) in all anchoring orders under 2 coordinate patterns (non-monotone numbers; pairwise time ties); oracle: field-by-field equality with kit/refmodel on document, commitments, deactivated, last-operation coordinates, version id + step bound + consumed-at-most-once log; non-trivial = a fork or a cycle or >= 2 distinct non-plain branches", maxOthers))
	als := []*alphabet{buildAlphabet(keys.Ed25519, asm.SHA256)}
	if ev.Thorough() {
		als = append(als, buildAlphabet(keys.P384, asm.SHA512))
	}
	item := 0
	complete := true
	advisory := map[string]int{}
	for _, al := range als {
		for _, sub := range subsets(len(al.ops)-1, maxOthers) {
			members := []int{0}
			for _, i := range sub {
				members = append(members, i+1)
			}
			n := len(members)
			for _, order := range permutations(n) {
				item++
				if !ev.Mine(item) {
					continue
				}
				for _, pat := range coordPatterns {
					var h []*hist.Anchored
					for pos, mi := range order {
						tm, num := pat.at(pos, n)
						h = append(h, al.ops[members[mi]].At(tm, num, fmt.Sprintf("ref-%d", pos), 0))
					}
					c := hist.NewCase(al.suffix, al.code, 0, h)
					c.Note = pat.name
					kind, sig, msg, adv := evalCase(c)
					for _, a := range adv {
						advisory[a]++
					}
					b := branches(c)
					ev.Record(chkEnum, nontrivial(b), caseID(c), append(classes(b), "pattern:"+pat.name, fmt.Sprintf("size:%d", n))...)
					ev.SampleFn(chkEnum, func() interface{} { return c.Summary() })
					if kind != "" {
						complete = false
						ev.Fail(t, chkEnum, kind, sig, c, "%s", msg)
					}
				}
			}
		}
	}
	if complete {
		ev.Exhaustive(chkEnum)
	}
	for k, n := range advisory {
		ev.Class(chkEnum, "advisory-diff:"+k, int64(n))
	}
}

func TestRapidLongHistories(t *testing.T) {
	ev.Rule(chkRapid, "rapid: tree-generated histories of 3-30 operations with fresh keys of all 5 types, both hash algorithms, forks, all delta classes, signed windows, all forgery classes, cycles, replays, duplicate creates, unpublished operations, coordinates with numbers independent of times, and (one in three) two protocol versions with different maximum operation time deltas, every operation stamped with one of them, and (one in four) a node whose server-clock validator considers every signed window expired; one case in three additionally resolves as of the time of a drawn operation (-1/0/+1) and compares with the reference state machine over the operations up to that time; same oracle; non-trivial as above")
	ev.Rapid(t, chkRapid, 500, 4000, func(t *rapid.T) {
		h := gen.Hist(t, gen.HistOpts{MinOps: 3, MaxOps: 30, Forks: true, BadDeltas: true, Windows: true, Forges: true, DupCreates: true, Cycles: true, Replays: true, Pool: "c03"})
		anch := gen.Anchor(t, h, gen.AnchorOpts{Unpublished: true})
		var versions []hist.VersionSpec
		if rapid.IntRange(0, 2).Draw(t, "twoProtocolVersions") == 0 {
			versions = gen.AssignVersions(t, anch)
		}
		c := hist.NewCase(h.Suffix, h.Code, 0, anch)
		c.Versions = versions
		// resolution of anchored operations does not depend on the node's clock
		c.ExpiredClock = rapid.IntRange(0, 3).Draw(t, "expiredClock") == 0
		if rapid.IntRange(0, 2).Draw(t, "alsoAsOf") == 0 {
			// additionally the state as of the time of a drawn operation (or just before / after it)
			at := int64(c.Ops[rapid.IntRange(0, len(c.Ops)-1).Draw(t, "asOfOp")].Desc.Time) + int64(rapid.IntRange(-1, 1).Draw(t, "asOfOffset"))
			if at > 0 {
				c.AsOf = uint64(at)
			}
		}
		kind, sig, msg, _ := evalCase(c)
		b := branches(c)
		if c.AsOf != 0 {
			b["as-of-view"] = true
		}
		if len(versions) > 0 {
			b["two-versions"] = true
		}
		ev.Record(chkRapid, nontrivial(b), caseID(c), append(classes(b), fmt.Sprintf("ops:%d", len(c.Ops)/5*5))...)
		ev.SampleFn(chkRapid, func() interface{} { return c.Summary() })
		if kind != "" {
			ev.Fail(t, chkRapid, kind, sig, c, "%s", msg)
		}
	})
}
