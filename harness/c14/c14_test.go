// Package c14 decides property C14: for any anchor string and any bytes served by CAS, reading a transaction's
// operations fails with an error or returns operations whose number equals the anchor string's count, with
// pairwise distinct suffixes, validated deltas and parseable signed data - never a panic; oversize files,
// over-factor decompression, over-long URIs, missing / superfluous proof or chunk references and disagreeing
// counts are rejected.
package c14

import (
	"bytes"
	"compress/gzip"
	"encoding/json"
	"fmt"
	"io"
	"sort"
	"strconv"
	"strings"
	"testing"

	"github.com/trustbloc/sidetree-core-go/pkg/api/operation"
	"github.com/trustbloc/sidetree-core-go/pkg/api/protocol"
	"github.com/trustbloc/sidetree-core-go/pkg/api/txn"
	"github.com/trustbloc/sidetree-core-go/pkg/versions/1_0/model"
	"github.com/trustbloc/sidetree-core-go/pkg/versions/1_0/txnprovider"
	"pgregory.net/rapid"

	"verifharness/kit/asm"
	"verifharness/kit/ev"
	"verifharness/kit/gen"
	"verifharness/kit/wire"
)

func TestMain(m *testing.M) { ev.Main(m, "C14") }

const (
	chkMut    = "mutated-file-sets"
	chkLimits = "limits-and-references"
	chkFault  = "cas-read-faults"
	chkFuzz   = "FuzzFiles"
)

const ns = "did:sidetree"

// Limits are the protocol parameters C14 varies.
type Limits struct {
	CoreIndex, Proof, ProvIndex, Chunk uint
	Factor                             uint
	URILen                             uint
}

func bigLimits() Limits {
	return Limits{CoreIndex: 1000033, Proof: 1500007, ProvIndex: 1000003, Chunk: 2000003, Factor: 3, URILen: 103}
}

// Case: the CAS content (address -> compressed bytes), the anchor string, limits, read faults.
type Case struct {
	Code     uint64            `json:"code"`
	Anchor   string            `json:"anchor"`
	Files    map[string][]byte `json:"files"`
	L        Limits            `json:"limits"`
	FailRead []string          `json:"failRead,omitempty"` // addresses whose primary read fails
	Alt      bool              `json:"alternateSource,omitempty"`
	// Warm: anchor strings read first through the same (long-lived) provider; their outcome is not judged
	Warm []string `json:"warm,omitempty"`
	// MustReject: the mutation realises one of the statement's listed conditions
	MustReject string `json:"mustReject,omitempty"`
	// MustAccept: control / at-the-limit case
	MustAccept bool   `json:"mustAccept,omitempty"`
	Note       string `json:"note,omitempty"`
}

func init() {
	for _, c := range []string{chkMut, chkLimits, chkFault, chkFuzz} {
		ev.RegisterReplay(c, replay)
	}
	ev.Assume("a core index with create operations but no provisional index is not required to be rejected as long as the returned operations satisfy the stated post-conditions")
	ev.Assume("the CAS is adversarial: it may serve arbitrary bytes under any address")
}

// TestReplay runs first.
func TestReplay(t *testing.T) { ev.ReplayMain(t) }

func replay(raw json.RawMessage) (string, string) {
	var c Case
	if err := json.Unmarshal(raw, &c); err != nil {
		return "bad-replay", err.Error()
	}
	k, m, _ := evalCase(&c)
	return k, m
}

func js(v interface{}) string {
	b, _ := json.Marshal(v)
	return string(b)
}

func gz(b []byte) []byte {
	var buf bytes.Buffer
	w := gzip.NewWriter(&buf)
	_, _ = w.Write(b)
	_ = w.Close()
	return buf.Bytes()
}

func gunzip(b []byte) ([]byte, error) {
	r, err := gzip.NewReader(bytes.NewReader(b))
	if err != nil {
		return nil, err
	}
	return io.ReadAll(r)
}

func (c *Case) protocol() protocol.Protocol {
	p := wire.BaseProtocol()
	p.MultihashAlgorithms = []uint{uint(c.Code)}
	p.MaxCoreIndexFileSize, p.MaxProofFileSize, p.MaxProvisionalIndexFileSize, p.MaxChunkFileSize = c.L.CoreIndex, c.L.Proof, c.L.ProvIndex, c.L.Chunk
	p.MaxMemoryDecompressionFactor, p.MaxCasURILength = c.L.Factor, c.L.URILen
	return p
}

// evalCase returns (kind, message, number of operations returned or -1 on error).
func evalCase(c *Case) (string, string, int) {
	cas := wire.NewMemCAS()
	for a, b := range c.Files {
		cas.Put(a, b)
	}
	fail := map[string]bool{}
	for _, a := range c.FailRead {
		fail[a] = true
		if c.Alt {
			cas.Put("alt:"+a, c.Files[a])
		}
	}
	cas.FailRead = func(_ int64, address string) error {
		if fail[address] {
			return fmt.Errorf("injected read failure")
		}
		return nil
	}
	v := wire.Build(c.protocol(), wire.Deps{CAS: cas, ProviderOpts: []txnprovider.Opt{txnprovider.WithSourceCASURIFormatter(func(casURI, source string) (string, error) {
		if source == "bad-source" {
			return "", fmt.Errorf("cannot format")
		}
		return source + ":" + casURI, nil
	})}})
	tx := &txn.SidetreeTxn{AnchorString: c.Anchor, Namespace: ns, TransactionTime: 5, TransactionNumber: 1}
	if c.Alt {
		tx.AlternateSources = []string{"bad-source", "missing", "alt"}
	}
	for _, w := range c.Warm {
		wt := *tx
		wt.AnchorString = w
		if pn := ev.Catch(func() { _, _ = v.Provider.GetTxnOperations(&wt) }); pn != "" {
			return "C14/panic", fmt.Sprintf("GetTxnOperations panicked on the warm-up anchor %q (%s): %s", w, c.Note, pn), -1
		}
	}
	var ops []*operation.AnchoredOperation
	var err error
	if pn := ev.Catch(func() { ops, err = v.Provider.GetTxnOperations(tx) }); pn != "" {
		return "C14/panic", fmt.Sprintf("GetTxnOperations panicked (%s): %s", c.Note, pn), -1
	}
	if err != nil {
		if c.MustAccept {
			return "C14/valid-set-rejected", fmt.Sprintf("a valid file set within all limits was rejected (%s): %v", c.Note, err), -1
		}
		return "", "", -1
	}
	if c.MustReject != "" {
		return "C14/not-rejected", fmt.Sprintf("file set with %s was accepted (%s): %d operations returned", c.MustReject, c.Note, len(ops)), len(ops)
	}
	// post-conditions of a successful read
	n, perr := anchorCount(c.Anchor)
	if perr != nil || n != len(ops) {
		return "C14/count", fmt.Sprintf("%d operations returned for anchor string %q", len(ops), c.Anchor), len(ops)
	}
	seen := map[string]bool{}
	for i, op := range ops {
		if seen[op.UniqueSuffix] {
			return "C14/duplicate-suffix", fmt.Sprintf("operations returned for one transaction share the suffix %q (%s)", op.UniqueSuffix, c.Note), len(ops)
		}
		seen[op.UniqueSuffix] = true
		var req struct {
			Delta      *model.DeltaModel `json:"delta"`
			SignedData string            `json:"signedData"`
		}
		if e := json.Unmarshal(op.OperationRequest, &req); e != nil {
			return "C14/unparseable-operation", fmt.Sprintf("operation %d is not JSON: %v", i, e), len(ops)
		}
		if op.Type != operation.TypeDeactivate {
			var verr error
			if pn := ev.Catch(func() { verr = v.RealParser.ValidateDelta(req.Delta) }); pn != "" || verr != nil {
				return "C14/invalid-delta-returned", fmt.Sprintf("operation %d (%s %s) carries a delta that validation rejects: %v %s (%s)", i, op.Type, op.UniqueSuffix, verr, pn, c.Note), len(ops)
			}
		}
		var serr error
		switch op.Type {
		case operation.TypeUpdate:
			_, serr = v.RealParser.ParseSignedDataForUpdate(req.SignedData)
		case operation.TypeRecover:
			_, serr = v.RealParser.ParseSignedDataForRecover(req.SignedData)
		case operation.TypeDeactivate:
			_, serr = v.RealParser.ParseSignedDataForDeactivate(req.SignedData)
		}
		if serr != nil {
			return "C14/unparseable-signed-data", fmt.Sprintf("operation %d (%s) carries signed data that does not parse: %v (%s)", i, op.Type, serr, c.Note), len(ops)
		}
	}
	return "", "", len(ops)
}

func anchorCount(a string) (int, error) {
	parts := strings.Split(a, ".")
	if len(parts) != 2 {
		return 0, fmt.Errorf("bad anchor")
	}
	return strconv.Atoi(parts[0])
}

// ---- building a valid file set ----------------------------------------------------------------------------------

type fileSet struct {
	code   uint64
	anchor string
	files  map[string][]byte                 // address -> compressed
	json   map[string]map[string]interface{} // role -> decoded JSON
	addr   map[string]string                 // role -> address
}

var roles = []string{"coreIndex", "coreProof", "provIndex", "provProof", "chunk"}

func buildSet(t *rapid.T) *fileSet {
	code := rapid.SampledFrom([]uint64{asm.SHA256, asm.SHA512}).Draw(t, "hash")
	batch := gen.Batch(t, code, 12, false, "c14")
	p := wire.BaseProtocol()
	p.MultihashAlgorithms = []uint{uint(code)}
	cas := wire.NewMemCAS()
	v := wire.Build(p, wire.Deps{CAS: cas})
	var q []*operation.QueuedOperation
	for _, o := range batch {
		q = append(q, &operation.QueuedOperation{Type: operation.Type(o.Type), OperationRequest: o.Request, UniqueSuffix: o.Suffix, Namespace: ns, AnchorOrigin: o.QueuedAO})
	}
	ai, err := v.Handler.PrepareTxnFiles(q)
	if err != nil {
		t.Fatalf("harness: cannot prepare batch: %v", err)
	}
	fs := &fileSet{code: code, anchor: ai.AnchorString, files: cas.Snapshot(), json: map[string]map[string]interface{}{}, addr: map[string]string{}}
	load := func(role, addr string) map[string]interface{} {
		if addr == "" {
			return nil
		}
		raw, err := gunzip(fs.files[addr])
		if err != nil {
			t.Fatalf("harness: %v", err)
		}
		var m map[string]interface{}
		_ = json.Unmarshal(raw, &m)
		fs.json[role], fs.addr[role] = m, addr
		return m
	}
	ci := load("coreIndex", strings.Split(ai.AnchorString, ".")[1])
	s := func(m map[string]interface{}, k string) string { v, _ := m[k].(string); return v }
	load("coreProof", s(ci, "coreProofFileUri"))
	if pi := load("provIndex", s(ci, "provisionalIndexFileUri")); pi != nil {
		load("provProof", s(pi, "provisionalProofFileUri"))
		if ch, ok := pi["chunks"].([]interface{}); ok && len(ch) > 0 {
			load("chunk", s(ch[0].(map[string]interface{}), "chunkFileUri"))
		}
	}
	return fs
}

func (fs *fileSet) toCase(note string) *Case {
	c := &Case{Code: fs.code, Anchor: fs.anchor, Files: map[string][]byte{}, L: bigLimits(), Note: note}
	for a, b := range fs.files {
		c.Files[a] = b
	}
	return c
}

// put re-serializes a role's JSON under the same address (the CAS is adversarial).
func (fs *fileSet) put(c *Case, role string, pad int) {
	b, _ := json.Marshal(fs.json[role])
	if pad > 0 {
		b = append(b, bytes.Repeat([]byte(" "), pad)...)
	}
	c.Files[fs.addr[role]] = gz(b)
}

// ---- generic structural mutation ---------------------------------------------------------------------------------

var replacements = []interface{}{nil, float64(3), "str", true, []interface{}{}, map[string]interface{}{}, []interface{}{nil}, []interface{}{"x"}, map[string]interface{}{"didSuffix": nil}}

func mutateTree(t *rapid.T, v interface{}, donors []string) interface{} {
	switch x := v.(type) {
	case map[string]interface{}:
		if len(x) == 0 || rapid.IntRange(0, 4).Draw(t, "here") == 0 {
			return rapid.SampledFrom(replacements).Draw(t, "replacement")
		}
		ks := make([]string, 0, len(x))
		for k := range x {
			ks = append(ks, k)
		}
		sort.Strings(ks)
		k := ks[rapid.IntRange(0, len(ks)-1).Draw(t, "member")]
		switch rapid.IntRange(0, 6).Draw(t, "objEdit") {
		case 0:
			delete(x, k)
		case 1:
			x[k] = nil
		default:
			x[k] = mutateTree(t, x[k], donors)
		}
		return x
	case []interface{}:
		if len(x) == 0 {
			return rapid.SampledFrom(replacements).Draw(t, "replacement")
		}
		i := rapid.IntRange(0, len(x)-1).Draw(t, "index")
		switch rapid.IntRange(0, 7).Draw(t, "arrEdit") {
		case 0: // drop
			return append(append([]interface{}{}, x[:i]...), x[i+1:]...)
		case 1: // duplicate
			return append(append(append([]interface{}{}, x[:i+1]...), x[i]), x[i+1:]...)
		case 2: // swap
			j := rapid.IntRange(0, len(x)-1).Draw(t, "swapWith")
			x[i], x[j] = x[j], x[i]
			return x
		case 3:
			x[i] = nil
			return x
		default:
			x[i] = mutateTree(t, x[i], donors)
			return x
		}
	case string:
		switch rapid.IntRange(0, 4).Draw(t, "strEdit") {
		case 0:
			return ""
		case 1:
			if len(donors) > 0 {
				return rapid.SampledFrom(donors).Draw(t, "donor") // retarget to another suffix / URI / signed data
			}
			return x + "x"
		case 2:
			return strings.Repeat("u", 150)
		case 3:
			return rapid.SampledFrom(replacements).Draw(t, "replacement")
		default:
			return x[:len(x)/2]
		}
	default:
		return rapid.SampledFrom(replacements).Draw(t, "replacement")
	}
}

func collectStrings(v interface{}, out *[]string) {
	switch x := v.(type) {
	case map[string]interface{}:
		for _, e := range x {
			collectStrings(e, out)
		}
	case []interface{}:
		for _, e := range x {
			collectStrings(e, out)
		}
	case string:
		if len(x) > 10 && len(x) < 400 {
			*out = append(*out, x)
		}
	}
}

func TestMutatedFileSets(t *testing.T) {
	ev.Rule(chkMut, "rapid: a valid file set written by the real OperationHandler for a generated batch (1-12 operations), then 1-4 structural mutations on the decompressed JSON of drawn files (drop / duplicate / swap / null an array entry, delete / null / type-confuse a member, empty / truncate / over-long strings, retarget a string to another suffix / URI / signed-data string of the set), re-compressed under the same address; also arbitrary anchor strings (one time in two after the same provider object has read the genuine anchor string of the set); oracle: error, or number of operations == anchor count with pairwise distinct suffixes, every delta accepted by ValidateDelta and every signed-data string accepted by the matching ParseSignedDataFor*; never a panic; control: the unmutated set reads back; non-trivial = every file is still parseable JSON (the mutation reaches the cross-file logic)")
	ev.Rapid(t, chkMut, 1500, 20000, func(t *rapid.T) {
		fs := buildSet(t)
		ctl := fs.toCase("control: unmutated set")
		ctl.MustAccept = true
		if kind, msg, _ := evalCase(ctl); kind != "" {
			ev.Fail(t, chkMut, kind, kind, ctl, "%s", msg)
		}
		var donors []string
		for _, r := range roles {
			collectStrings(fs.json[r], &donors)
			if a := fs.addr[r]; a != "" {
				donors = append(donors, a)
			}
		}
		sort.Strings(donors)
		c := fs.toCase("")
		var present []string
		for _, r := range roles {
			if fs.addr[r] != "" {
				present = append(present, r)
			}
		}
		n := rapid.IntRange(1, 4).Draw(t, "mutations")
		var notes []string
		for i := 0; i < n; i++ {
			if rapid.IntRange(0, 9).Draw(t, "anchorMutation") == 0 {
				c.Anchor = rapid.SampledFrom([]string{"", ".", "0." + fs.addr["coreIndex"], "-1." + fs.addr["coreIndex"], "1", "1.2.3", "99999999999999999999." + fs.addr["coreIndex"], "01." + fs.addr["coreIndex"], "1.", "x." + fs.addr["coreIndex"],
					strconv.Itoa(rapid.IntRange(1, 14).Draw(t, "count")) + "." + fs.addr["coreIndex"], "1." + fs.addr["chunk"], "1." + fs.addr["coreProof"]}).Draw(t, "anchor")
				notes = append(notes, "anchor string replaced")
				if rapid.Bool().Draw(t, "warmWithGenuineAnchor") {
					// the same provider has read the genuine anchor string of this file set before
					c.Warm = []string{fs.anchor}
					notes = append(notes, "provider warmed with the genuine anchor")
				}
				continue
			}
			role := rapid.SampledFrom(present).Draw(t, "file")
			out := mutateTree(t, interface{}(fs.json[role]), donors)
			if m, ok := out.(map[string]interface{}); ok {
				fs.json[role] = m
				fs.put(c, role, 0)
			} else {
				b, _ := json.Marshal(out)
				c.Files[fs.addr[role]] = gz(b)
			}
			notes = append(notes, "mutated "+role)
		}
		c.Note = strings.Join(notes, "; ")
		kind, msg, nops := evalCase(c)
		ev.Record(chkMut, true, ev.Hash(c.Anchor, c.Files), fmt.Sprintf("returned-ops:%v", nops >= 0), fmt.Sprintf("mutations:%d", n))
		ev.SampleFn(chkMut, func() interface{} {
			return map[string]interface{}{"note": c.Note, "anchor": c.Anchor, "returnedOps": nops}
		})
		if kind != "" {
			ev.Fail(t, chkMut, kind, kind, c, "%s", msg)
		}
	})
}

// ---- listed conditions: exact limits and references ----------------------------------------------------------------

func TestLimitsAndReferences(t *testing.T) {
	ev.Rule(chkLimits, "rapid: a valid file set, then exactly one listed condition: one per-type file-size limit set to the file's compressed size (must accept) and size-1 (must reject) with all other limits huge, the file read from the primary CAS or (one in two) served by an alternate source after a failed primary read; the decompression limit (per-type limit x factor, factor drawn from 1, 2, 3, 4, 7) hit exactly by the decompressed size (accept) or exceeded by 1..factor bytes (reject) using whitespace padding (in the same gzip member or, one time in three, in a second member of the file); each referenced file in turn (the core index file named by the anchor string included) re-hosted under a longer URI with maxCasUriLength set to that length (accept) and one less (reject); a proof / chunk reference removed where required (also: a chunk entry without URI while the CAS answers for the empty address; the provisional index reference removed although create / recover operations are listed) or added where superfluous (also: a second chunk entry); one entry dropped from / added to an index, proof or delta array so that counts disagree; a suffix repeated across sections; oracle: must-reject cases are rejected, must-accept cases read back; non-trivial = every case")
	ev.Rapid(t, chkLimits, 600, 8000, func(t *rapid.T) {
		fs := buildSet(t)
		var present []string
		for _, r := range roles {
			if fs.addr[r] != "" {
				present = append(present, r)
			}
		}
		c := fs.toCase("")
		setLimit := func(role string, v uint) {
			switch role {
			case "coreIndex":
				c.L.CoreIndex = v
			case "coreProof", "provProof":
				c.L.Proof = v
			case "provIndex":
				c.L.ProvIndex = v
			case "chunk":
				c.L.Chunk = v
			}
		}
		arr := func(m map[string]interface{}, path ...string) []interface{} {
			var cur interface{} = m
			for _, p := range path {
				mm, ok := cur.(map[string]interface{})
				if !ok {
					return nil
				}
				cur = mm[p]
			}
			l, _ := cur.([]interface{})
			return l
		}
		setArr := func(m map[string]interface{}, l []interface{}, path ...string) {
			cur := m
			for _, p := range path[:len(path)-1] {
				nx, ok := cur[p].(map[string]interface{})
				if !ok {
					nx = map[string]interface{}{}
					cur[p] = nx
				}
				cur = nx
			}
			cur[path[len(path)-1]] = l
		}
		kind := rapid.SampledFrom([]string{"file-size", "file-size", "decompressed-size", "uri-length", "missing-reference", "superfluous-reference", "count-mismatch", "count-mismatch", "duplicate-suffix", "consistent-duplicate", "consistent-duplicate"}).Draw(t, "condition")
		switch kind {
		case "file-size":
			role := rapid.SampledFrom(present).Draw(t, "file")
			// proofs share one limit: use the larger of the two proof files
			size := uint(len(c.Files[fs.addr[role]]))
			if role == "coreProof" || role == "provProof" {
				for _, r := range []string{"coreProof", "provProof"} {
					if a := fs.addr[r]; a != "" && uint(len(c.Files[a])) > size {
						size = uint(len(c.Files[a]))
					}
				}
			}
			c.L.Factor = 1000
			if rapid.Bool().Draw(t, "atLimit") {
				setLimit(role, size)
				c.MustAccept, c.Note = true, fmt.Sprintf("%s size limit == compressed size %d", role, size)
			} else {
				setLimit(role, size-1)
				c.MustReject, c.Note = "a file larger than its per-type size limit", fmt.Sprintf("%s size limit == compressed size %d - 1", role, size)
			}
			if rapid.Bool().Draw(t, "viaAlternateSource") {
				// the same limit must hold when the primary read fails and an alternate source serves the file
				c.FailRead, c.Alt = []string{fs.addr[role]}, true
				c.Note += " (file served by an alternate source)"
			}
		case "decompressed-size":
			role := rapid.SampledFrom(present).Draw(t, "file")
			if role == "coreProof" || role == "provProof" {
				role = "coreIndex"
			}
			viaAlt := rapid.Bool().Draw(t, "viaAlternateSource")
			second := rapid.IntRange(0, 2).Draw(t, "secondGzipMember") == 0
			// mk writes the file with pad bytes of white space behind the JSON text (in the same gzip member, or in a
			// second member: a gzip file is the concatenation of its members) and returns (decompressed, compressed) sizes
			mk := func(pad int) (uint, uint) {
				fs.put(c, role, pad)
				if second {
					b, _ := json.Marshal(fs.json[role])
					c.Files[fs.addr[role]] = append(gz(b), gz(bytes.Repeat([]byte(" "), pad))...)
				}
				raw, _ := gunzip(c.Files[fs.addr[role]])
				return uint(len(raw)), uint(len(c.Files[fs.addr[role]]))
			}
			if second {
				c.Note = "padding in a second gzip member; "
			}
			// the limit is (per-type size limit) x (decompression factor): the factor is drawn, the padding makes the
			// decompressed size an exact multiple of it, and the file is then 0 (accept) or 1..factor (reject) bytes longer
			f := uint(rapid.SampledFrom([]int{1, 1, 2, 3, 4, 7}).Draw(t, "factor"))
			_, c0 := mk(3000)
			pad := 3000 + rapid.IntRange(0, 50).Draw(t, "pad")
			if need := int(f * (c0 + 64)); pad < need {
				pad = need // the compressed file itself has to stay within the per-type limit
			}
			d, _ := mk(pad)
			pad += int((f - d%f) % f)
			d, _ = mk(pad)
			limit := d / f
			over := 0
			if !rapid.Bool().Draw(t, "atLimit") {
				over = rapid.IntRange(1, int(f)).Draw(t, "bytesOver")
			}
			d, cs := mk(pad + over)
			if cs > limit {
				t.Skip("compressed file exceeds the per-type limit")
			}
			c.L.Factor = f
			setLimit(role, limit)
			if over == 0 {
				c.MustAccept, c.Note = true, c.Note+fmt.Sprintf("%s limit %d x factor %d == decompressed size %d", role, limit, f, d)
			} else {
				c.MustReject, c.Note = "a file decompressing to more than limit x factor", c.Note+fmt.Sprintf("%s limit %d x factor %d == decompressed size %d - %d", role, limit, f, d, over)
			}
			if viaAlt {
				c.FailRead, c.Alt = []string{fs.addr[role]}, true
				c.Note += " (file served by an alternate source)"
			}
		case "uri-length":
			// one reference at a time: the referenced file is re-hosted under a longer address, so that only the
			// length check of that very reference can reject it
			// (the core index file is referenced by the anchor string itself)
			refs := []string{"coreIndex"}
			for _, r := range roles[1:] {
				if fs.addr[r] != "" {
					refs = append(refs, r)
				}
			}
			role := rapid.SampledFrom(refs).Draw(t, "reference")
			long := fs.addr[role] + strings.Repeat("x", rapid.IntRange(1, 9).Draw(t, "extraLen"))
			c.Files[long] = c.Files[fs.addr[role]]
			switch role {
			case "coreIndex":
				c.Anchor = strings.Replace(c.Anchor, fs.addr["coreIndex"], long, 1)
			case "coreProof":
				fs.json["coreIndex"]["coreProofFileUri"] = long
				fs.put(c, "coreIndex", 0)
			case "provIndex":
				fs.json["coreIndex"]["provisionalIndexFileUri"] = long
				fs.put(c, "coreIndex", 0)
			case "provProof":
				fs.json["provIndex"]["provisionalProofFileUri"] = long
				fs.put(c, "provIndex", 0)
			case "chunk":
				fs.json["provIndex"]["chunks"] = []interface{}{map[string]interface{}{"chunkFileUri": long}}
				fs.put(c, "provIndex", 0)
			}
			if rapid.Bool().Draw(t, "atLimit") {
				c.L.URILen = uint(len(long))
				c.MustAccept, c.Note = true, fmt.Sprintf("%s re-hosted under a %d-character URI, maxCasUriLength == %d", role, len(long), len(long))
			} else {
				c.L.URILen = uint(len(long) - 1)
				c.MustReject, c.Note = "an over-long CAS URI", fmt.Sprintf("%s re-hosted under a %d-character URI, maxCasUriLength == %d", role, len(long), len(long)-1)
			}
		case "missing-reference":
			var opts []string
			if fs.addr["coreProof"] != "" {
				opts = append(opts, "coreProof")
			}
			if fs.addr["provProof"] != "" {
				opts = append(opts, "provProof")
			}
			if fs.addr["chunk"] != "" {
				opts = append(opts, "chunk")
			}
			if fs.addr["provIndex"] != "" && len(arr(fs.json["coreIndex"], "operations", "create"))+len(arr(fs.json["coreIndex"], "operations", "recover")) > 0 {
				opts = append(opts, "provIndex")
			}
			if len(opts) == 0 {
				t.Skip("nothing referenced")
			}
			switch rapid.SampledFrom(opts).Draw(t, "which") {
			case "coreProof":
				delete(fs.json["coreIndex"], "coreProofFileUri")
				fs.put(c, "coreIndex", 0)
				c.Note = "coreProofFileUri removed although recover/deactivate operations are referenced"
			case "provProof":
				delete(fs.json["provIndex"], "provisionalProofFileUri")
				fs.put(c, "provIndex", 0)
				c.Note = "provisionalProofFileUri removed although update operations are referenced"
			case "provIndex":
				delete(fs.json["coreIndex"], "provisionalIndexFileUri")
				fs.put(c, "coreIndex", 0)
				c.Note = "provisionalIndexFileUri removed although create / recover operations (whose deltas live in the chunk file) are referenced"
				if nd := len(arr(fs.json["coreIndex"], "operations", "deactivate")); nd > 0 && rapid.Bool().Draw(t, "anchorCountsDeactivatesOnly") {
					// the anchor string's count covers just the operations that can still be assembled without a chunk file
					c.Anchor = fmt.Sprintf("%d.%s", nd, fs.addr["coreIndex"])
					c.Note += "; anchor string counts the deactivate operations only"
				}
			default:
				switch rapid.IntRange(0, 4).Draw(t, "chunkRefShape") {
				case 0:
					fs.json["provIndex"]["chunks"] = []interface{}{}
				case 1:
					delete(fs.json["provIndex"], "chunks")
				default:
					// an entry that carries no URI; the (adversarial) CAS even answers for the empty address
					fs.json["provIndex"]["chunks"] = []interface{}{rapid.SampledFrom([]interface{}{map[string]interface{}{}, nil, map[string]interface{}{"chunkFileUri": ""}, map[string]interface{}{"chunkFileUri": nil}}).Draw(t, "emptyChunkEntry")}
					c.Files[""] = c.Files[fs.addr["chunk"]]
				}
				fs.put(c, "provIndex", 0)
				c.Note = "chunk reference removed"
			}
			c.MustReject = "a missing proof / chunk reference"
		case "superfluous-reference":
			switch {
			case fs.addr["coreProof"] == "":
				donor := fs.addr["coreIndex"]
				fs.json["coreIndex"]["coreProofFileUri"] = donor
				fs.put(c, "coreIndex", 0)
				c.Note = "coreProofFileUri added although no recover/deactivate operation is referenced"
			case fs.addr["provIndex"] != "" && fs.addr["provProof"] == "":
				fs.json["provIndex"]["provisionalProofFileUri"] = fs.addr["coreProof"]
				fs.put(c, "provIndex", 0)
				c.Note = "provisionalProofFileUri added although no update operation is referenced"
			case fs.addr["chunk"] != "":
				// a second chunk entry (this protocol version reads exactly one chunk file)
				second := rapid.SampledFrom([]string{fs.addr["chunk"], fs.addr["coreIndex"], "no-such-address", strings.Repeat("z", 300)}).Draw(t, "secondChunk")
				fs.json["provIndex"]["chunks"] = []interface{}{map[string]interface{}{"chunkFileUri": fs.addr["chunk"]}, map[string]interface{}{"chunkFileUri": second}}
				fs.put(c, "provIndex", 0)
				c.Note = "a second chunk reference added"
			default:
				t.Skip("no place for a superfluous reference")
			}
			c.MustReject = "a superfluous proof / chunk reference"
		case "count-mismatch":
			type site struct {
				role string
				path []string
			}
			var sites []site
			for _, s := range []site{{"coreIndex", []string{"operations", "recover"}}, {"coreIndex", []string{"operations", "deactivate"}}, {"coreIndex", []string{"operations", "create"}},
				{"coreProof", []string{"operations", "recover"}}, {"coreProof", []string{"operations", "deactivate"}}, {"provIndex", []string{"operations", "update"}},
				{"provProof", []string{"operations", "update"}}, {"chunk", []string{"deltas"}}} {
				if fs.addr[s.role] != "" && len(arr(fs.json[s.role], s.path...)) > 0 {
					sites = append(sites, s)
				}
			}
			if len(sites) == 0 {
				t.Skip("no array")
			}
			s := sites[rapid.IntRange(0, len(sites)-1).Draw(t, "site")]
			l := arr(fs.json[s.role], s.path...)
			if s.role == "coreIndex" && s.path[1] == "create" && fs.addr["provIndex"] == "" {
				t.Skip("creates without provisional files are not required to be rejected")
			}
			if rapid.Bool().Draw(t, "dropEntry") {
				i := rapid.IntRange(0, len(l)-1).Draw(t, "entry")
				l = append(append([]interface{}{}, l[:i]...), l[i+1:]...)
				c.Note = fmt.Sprintf("one entry dropped from %s %v", s.role, s.path)
			} else {
				// an extra entry that is well-formed on its own (copy of an existing one with a fresh suffix where applicable)
				e := deep(l[rapid.IntRange(0, len(l)-1).Draw(t, "entry")])
				if m, ok := e.(map[string]interface{}); ok {
					if _, has := m["didSuffix"]; has {
						m["didSuffix"] = asm.Multihash(fs.code, []byte("extra-suffix"))
					}
				}
				l = append(l, e)
				c.Note = fmt.Sprintf("one entry added to %s %v", s.role, s.path)
			}
			setArr(fs.json[s.role], l, s.path...)
			fs.put(c, s.role, 0)
			c.MustReject = "index, proof and chunk files whose operation counts disagree"
			// the anchor count is adjusted so that only the cross-file disagreement can cause the rejection
			if n, err := anchorCount(c.Anchor); err == nil && (strings.Contains(c.Note, "coreIndex") || strings.Contains(c.Note, "provIndex")) {
				delta := 1
				if strings.Contains(c.Note, "dropped") {
					delta = -1
				}
				if n+delta >= 1 {
					c.Anchor = strconv.Itoa(n+delta) + "." + fs.addr["coreIndex"]
				}
			}
		case "consistent-duplicate":
			// one operation duplicated consistently in every file that lists it (reference, proof entry, delta) and the
			// anchor count raised by one: every count agrees, only the suffix is repeated
			type group struct {
				name               string
				idxRole, proofRole string
				deltaOffset        func() int
			}
			nCreate := len(arr(fs.json["coreIndex"], "operations", "create"))
			nRecover := len(arr(fs.json["coreIndex"], "operations", "recover"))
			var groups []group
			if nCreate > 0 && fs.addr["chunk"] != "" {
				groups = append(groups, group{"create", "coreIndex", "", func() int { return 0 }})
			}
			if nRecover > 0 && fs.addr["chunk"] != "" {
				groups = append(groups, group{"recover", "coreIndex", "coreProof", func() int { return nCreate }})
			}
			if len(arr(fs.json["coreIndex"], "operations", "deactivate")) > 0 {
				groups = append(groups, group{"deactivate", "coreIndex", "coreProof", nil})
			}
			if fs.addr["provIndex"] != "" && len(arr(fs.json["provIndex"], "operations", "update")) > 0 {
				groups = append(groups, group{"update", "provIndex", "provProof", func() int { return nCreate + nRecover }})
			}
			if len(groups) == 0 {
				t.Skip("nothing to duplicate")
			}
			g := groups[rapid.IntRange(0, len(groups)-1).Draw(t, "group")]
			l := arr(fs.json[g.idxRole], "operations", g.name)
			i := rapid.IntRange(0, len(l)-1).Draw(t, "entry")
			setArr(fs.json[g.idxRole], append(l, deep(l[i])), "operations", g.name)
			fs.put(c, g.idxRole, 0)
			if g.proofRole != "" {
				pl := arr(fs.json[g.proofRole], "operations", g.name)
				setArr(fs.json[g.proofRole], append(pl, deep(pl[i])), "operations", g.name)
				fs.put(c, g.proofRole, 0)
			}
			if g.deltaOffset != nil {
				dl := arr(fs.json["chunk"], "deltas")
				at := g.deltaOffset() + len(l) // insert the copied delta at the end of the group's range
				src := deep(dl[g.deltaOffset()+i])
				nd := append(append(append([]interface{}{}, dl[:at]...), src), dl[at:]...)
				fs.json["chunk"]["deltas"] = nd
				fs.put(c, "chunk", 0)
			}
			if n, err := anchorCount(c.Anchor); err == nil {
				c.Anchor = strconv.Itoa(n+1) + "." + fs.addr["coreIndex"]
			}
			c.Note = "one " + g.name + " operation duplicated consistently in index, proof and chunk files"
			// judged by the post-condition: an error, or pairwise distinct suffixes
		case "duplicate-suffix":
			var refs []map[string]interface{}
			for _, s := range [][2]string{{"coreIndex", "recover"}, {"coreIndex", "deactivate"}, {"provIndex", "update"}} {
				if fs.addr[s[0]] == "" {
					continue
				}
				for _, e := range arr(fs.json[s[0]], "operations", s[1]) {
					if m, ok := e.(map[string]interface{}); ok {
						refs = append(refs, m)
					}
				}
			}
			if len(refs) < 2 {
				t.Skip("fewer than two operation references")
			}
			i := rapid.IntRange(0, len(refs)-1).Draw(t, "from")
			j := rapid.IntRange(0, len(refs)-1).Draw(t, "to")
			if i == j || refs[i]["didSuffix"] == refs[j]["didSuffix"] {
				t.Skip("same reference")
			}
			refs[j]["didSuffix"] = refs[i]["didSuffix"]
			for _, r := range []string{"coreIndex", "provIndex"} {
				if fs.addr[r] != "" {
					fs.put(c, r, 0)
				}
			}
			c.Note = "one operation reference retargeted to the suffix of another one"
			// not in the statement's reject list as such: the post-condition (pairwise distinct suffixes) decides
		}
		k, msg, nops := evalCase(c)
		ev.Record(chkLimits, true, ev.Hash(c.Anchor, c.Files, c.L), "condition:"+kind, fmt.Sprintf("must-accept:%v", c.MustAccept), fmt.Sprintf("returned-ops:%v", nops >= 0))
		ev.SampleFn(chkLimits, func() interface{} {
			return map[string]interface{}{"condition": kind, "note": c.Note, "limits": c.L, "returnedOps": nops}
		})
		if k != "" {
			ev.Fail(t, chkLimits, k, k+"/"+kind, c, "%s", msg)
		}
	})
}

func deep(v interface{}) interface{} {
	b, _ := json.Marshal(v)
	var o interface{}
	_ = json.Unmarshal(b, &o)
	return o
}

// ---- CAS read faults and alternate sources ---------------------------------------------------------------------------

func TestCASReadFaults(t *testing.T) {
	ev.Rule(chkFault, "rapid: a valid file set where the primary read of a drawn subset of the files fails; with alternate sources (one that cannot be formatted, one that does not hold the file, one that does) a successful read must return what the fault-free read returns (whether it succeeds is recorded, the statement allows a failure); without alternate sources the call must fail; non-trivial = every case")
	ev.Rapid(t, chkFault, 300, 3000, func(t *rapid.T) {
		fs := buildSet(t)
		var addrs []string
		for _, r := range roles {
			if fs.addr[r] != "" && rapid.Bool().Draw(t, "fail-"+r) {
				addrs = append(addrs, fs.addr[r])
			}
		}
		if len(addrs) == 0 {
			addrs = []string{fs.addr["coreIndex"]}
		}
		base := fs.toCase("fault-free")
		base.MustAccept = true
		_, _, want := evalCase(base)
		withAlt := fs.toCase(fmt.Sprintf("primary read of %d file(s) fails, alternate source holds them", len(addrs)))
		// the statement allows a read to fail; what it returns through an alternate source must be what the fault-free
		// read returns (a failure here is recorded, not judged)
		withAlt.FailRead, withAlt.Alt = addrs, true
		k, msg, got := evalCase(withAlt)
		if k == "" && got >= 0 && got != want {
			k, msg = "C14/alternate-source-differs", fmt.Sprintf("read through an alternate source returned %d operations, fault-free read %d", got, want)
		}
		ev.Record(chkFault, true, ev.Hash(withAlt.Files, addrs, "alt"), "alternate:true", fmt.Sprintf("alternate-read-succeeded:%v", got >= 0))
		if k != "" {
			ev.Fail(t, chkFault, k, k, withAlt, "%s", msg)
		}
		noAlt := fs.toCase(fmt.Sprintf("primary read of %d file(s) fails, no alternate source", len(addrs)))
		noAlt.FailRead, noAlt.MustReject = addrs, "an unreadable file"
		k, msg, _ = evalCase(noAlt)
		ev.Record(chkFault, true, ev.Hash(noAlt.Files, addrs, "noalt"), "alternate:false")
		ev.SampleFn(chkFault, func() interface{} { return map[string]interface{}{"failed": addrs, "note": noAlt.Note} })
		if k != "" {
			ev.Fail(t, chkFault, k, k, noAlt, "%s", msg)
		}
	})
}

// ---- native fuzz target (thorough) -------------------------------------------------------------------------------------

// FuzzFiles: bytes -> (file selector, replacement JSON bytes) over a fixed valid file set.
func FuzzFiles(f *testing.F) {
	var base *fileSet
	rapidOnce := func() {
		// a fixed, deterministic set: drawn with rapid's example mode is not available in fuzz workers, so build it by hand
		base = fixedSet()
	}
	rapidOnce()
	for _, r := range roles {
		if base.addr[r] != "" {
			b, _ := json.Marshal(base.json[r])
			f.Add(uint8(indexOf(r)), b, base.anchor)
		}
	}
	f.Fuzz(func(t *testing.T, sel uint8, content []byte, anchor string) {
		if len(content) > 1<<14 || len(anchor) > 200 {
			return
		}
		c := base.toCase("native fuzz")
		role := roles[int(sel)%len(roles)]
		if base.addr[role] == "" {
			role = "coreIndex"
		}
		if sel >= 128 {
			c.Files[base.addr[role]] = content // raw bytes, not even gzip
		} else {
			c.Files[base.addr[role]] = gz(content)
		}
		c.Anchor = anchor
		if kind, msg, _ := evalCase(c); kind != "" {
			ev.Fail(t, chkFuzz, kind, kind+"/fuzz", c, "%s", msg)
		}
	})
}

// fixedSet builds one deterministic valid file set (rapid's example mode with a fixed seed).
func fixedSet() *fileSet {
	return rapid.Custom(func(t *rapid.T) *fileSet {
		for {
			fs := buildSet(t)
			if fs.addr["coreProof"] != "" && fs.addr["provProof"] != "" && fs.addr["chunk"] != "" {
				return fs
			}
		}
	}).Example(7)
}

func indexOf(role string) int {
	for i, r := range roles {
		if r == role {
			return i
		}
	}
	return 0
}
