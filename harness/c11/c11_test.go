// Package c11 decides property C11: every request produced by the client request builders from valid inputs
// (any supported key type / signature algorithm, both hash algorithms) is accepted by a parser enabling that
// algorithm, parses back to exactly what the caller supplied and, once anchored inside its window on a DID
// whose commitment matches, produces precisely the intended state change.
package c11

import (
	"crypto/ed25519"
	"encoding/json"
	"fmt"
	"reflect"
	"testing"

	"github.com/trustbloc/sidetree-core-go/pkg/api/operation"
	"github.com/trustbloc/sidetree-core-go/pkg/api/protocol"
	"github.com/trustbloc/sidetree-core-go/pkg/commitment"
	"github.com/trustbloc/sidetree-core-go/pkg/jws"
	"github.com/trustbloc/sidetree-core-go/pkg/patch"
	"github.com/trustbloc/sidetree-core-go/pkg/util/ecsigner"
	"github.com/trustbloc/sidetree-core-go/pkg/util/edsigner"
	"github.com/trustbloc/sidetree-core-go/pkg/util/pubkey"
	"github.com/trustbloc/sidetree-core-go/pkg/versions/1_0/client"
	"pgregory.net/rapid"

	"verifharness/kit/asm"
	"verifharness/kit/ev"
	"verifharness/kit/gen"
	"verifharness/kit/keys"
	"verifharness/kit/refdoc"
	"verifharness/kit/refjcs"
	"verifharness/kit/res"
	"verifharness/kit/wire"
)

func TestMain(m *testing.M) { ev.Main(m, "C11") }

const chk = "builder-parser-applier-roundtrip"

const ns = "did:sidetree"

// Step is one client-built request with everything the caller supplied.
type Step struct {
	Type         string                 `json:"type"`
	Request      []byte                 `json:"request"`
	KeyType      string                 `json:"keyType"` // type of the signing key (empty for create)
	Alg          string                 `json:"alg"`
	Crv          string                 `json:"crv"`
	SigningJWK   map[string]interface{} `json:"signingJwk,omitempty"`
	Reveal       string                 `json:"reveal,omitempty"`
	NextUpdate   string                 `json:"nextUpdate,omitempty"`
	NextRecovery string                 `json:"nextRecovery,omitempty"`
	Patches      []interface{}          `json:"patches,omitempty"` // supplied patch list (nil if an opaque document was supplied)
	Opaque       map[string]interface{} `json:"opaque,omitempty"`  // supplied opaque document
	AnchorOrigin interface{}            `json:"anchorOrigin,omitempty"`
	From         int64                  `json:"from,omitempty"`
	Until        int64                  `json:"until,omitempty"`
	Time         uint64                 `json:"time"` // anchoring time
	// Code, if non-zero, is the hash algorithm this request was built with (next commitments, delta hash) where it
	// differs from the DID's first one: the protocol then enables both, and the reveal value keeps the algorithm of the
	// commitment it opens
	Code uint64 `json:"code,omitempty"`
	// Stale: an update built (from valid inputs) with a next update commitment that the DID's update chain has already
	// consumed since its last recover; the state machine skips it wherever it is anchored, and the caller builds the
	// next request with the same key again. The request behind it must take effect all the same.
	Stale bool `json:"stale,omitempty"`
}

func (s Step) code(c *Case) uint64 {
	if s.Code != 0 {
		return s.Code
	}
	return c.Code
}

// Case is one DID: a create and further client-built operations.
type Case struct {
	Code      uint64 `json:"code"`
	TimeDelta uint64 `json:"maxOperationTimeDelta"`
	Steps     []Step `json:"steps"`
}

func init() {
	ev.RegisterReplay(chk, replay)
	ev.Assume("builder inputs are valid: patches / opaque documents accepted by the validator, commitments computed from the next keys with the library's commitment functions, reveal value of the current key, a window containing the anchoring time")
	ev.Assume("json-patches in builder inputs are top-level add operations with non-null values (the modelled subset of the reference document model)")
}

// TestReplay runs first.
func TestReplay(t *testing.T) { ev.ReplayMain(t) }

func replay(raw json.RawMessage) (string, string) {
	var c Case
	if err := json.Unmarshal(raw, &c); err != nil {
		return "bad-replay", err.Error()
	}
	return evalCase(&c)
}

func js(v interface{}) string {
	b, _ := json.Marshal(v)
	return string(b)
}

func protocolFor(c *Case) protocol.Protocol {
	p := wire.BaseProtocol()
	p.MultihashAlgorithms = []uint{uint(c.Code)}
	for _, s := range c.Steps {
		if s.Code != 0 && s.Code != c.Code {
			// both enabled; the DID's first algorithm stays first in the list because the library names the suffix of a
			// create request with the first listed algorithm (pkg/versions/1_0/model.GetUniqueSuffix)
			p.MultihashAlgorithms = []uint{uint(c.Code), uint(s.Code)}
		}
	}
	p.MaxOperationTimeDelta = c.TimeDelta
	algs, crvs := map[string]bool{}, map[string]bool{}
	p.SignatureAlgorithms, p.KeyAlgorithms = nil, nil
	for _, s := range c.Steps {
		if s.Alg != "" && !algs[s.Alg] {
			algs[s.Alg] = true
			p.SignatureAlgorithms = append(p.SignatureAlgorithms, s.Alg)
		}
		if s.Crv != "" && !crvs[s.Crv] {
			crvs[s.Crv] = true
			p.KeyAlgorithms = append(p.KeyAlgorithms, s.Crv)
		}
	}
	if len(p.SignatureAlgorithms) == 0 {
		p.SignatureAlgorithms, p.KeyAlgorithms = []string{"EdDSA"}, []string{"Ed25519"}
	}
	return p
}

func jsonEq(a, b interface{}) bool {
	return reflect.DeepEqual(res.NormalizeAny(a), res.NormalizeAny(b))
}

// evalCase: parse-back equality for every step, then resolution after each anchored step against the model.
func evalCase(c *Case) (string, string) {
	p := protocolFor(c)
	v := wire.Build(p, wire.Deps{})
	pc := wire.NewClient(v)
	doc := refdoc.New()
	var update, recovery, suffix string
	var origin interface{}
	deactivated := false
	var anchored []*operation.AnchoredOperation
	for i, s := range c.Steps {
		tag := fmt.Sprintf("step %d (%s, %s)", i, s.Type, s.KeyType)
		if _, err := v.Parser.Parse(ns, s.Request); err != nil {
			return "C11/client-request-rejected", fmt.Sprintf("%s: request built by the client library is rejected by the parser: %v; request=%s", tag, err, ev.Trunc(string(s.Request), 400))
		}
		op, err := v.RealParser.ParseOperation(ns, s.Request, false)
		if err != nil {
			return "C11/client-request-rejected", fmt.Sprintf("%s: ParseOperation: %v", tag, err)
		}
		wantPatches := s.Patches
		if s.Opaque != nil {
			// the patches the builder derives from an opaque document must reproduce that document
			wantPatches = nil
		}
		switch s.Type {
		case "create":
			root, perr := refjcs.Parse(s.Request)
			if perr != nil {
				return "C11/parse-back", tag + ": request is not valid JSON: " + perr.Error()
			}
			var sd interface{}
			for _, m := range root.Obj {
				if m.Name == "suffixData" {
					sd = refjcs.ToGo(m.Val)
				}
			}
			suffix = asm.HashModel(c.Code, sd)
			if op.UniqueSuffix != suffix {
				return "C11/parse-back", fmt.Sprintf("%s: suffix %s is not the hash of the suffix data (%s)", tag, op.UniqueSuffix, suffix)
			}
			if op.SuffixData == nil || op.SuffixData.RecoveryCommitment != s.NextRecovery || op.Delta == nil || op.Delta.UpdateCommitment != s.NextUpdate {
				return "C11/parse-back", fmt.Sprintf("%s: commitments do not parse back to the supplied ones (%s, %s)", tag, s.NextRecovery, s.NextUpdate)
			}
			if !jsonEq(op.SuffixData.AnchorOrigin, s.AnchorOrigin) {
				return "C11/parse-back", fmt.Sprintf("%s: anchor origin %s, supplied %s", tag, js(op.SuffixData.AnchorOrigin), js(s.AnchorOrigin))
			}
			if op.SuffixData.DeltaHash != asm.HashModel(c.Code, res.NormalizeAny(op.Delta)) {
				return "C11/parse-back", tag + ": delta hash in suffix data is not the hash of the delta"
			}
		case "update", "recover", "deactivate":
			if op.UniqueSuffix != suffix || op.RevealValue != s.Reveal {
				return "C11/parse-back", fmt.Sprintf("%s: suffix/reveal value (%s, %s) differ from the supplied (%s, %s)", tag, op.UniqueSuffix, op.RevealValue, suffix, s.Reveal)
			}
			var key *jws.JWK
			var from, until int64
			var deltaHash string
			switch s.Type {
			case "update":
				sd, err := v.RealParser.ParseSignedDataForUpdate(op.SignedData)
				if err != nil {
					return "C11/parse-back", tag + ": " + err.Error()
				}
				key, from, until, deltaHash = sd.UpdateKey, sd.AnchorFrom, sd.AnchorUntil, sd.DeltaHash
			case "recover":
				sd, err := v.RealParser.ParseSignedDataForRecover(op.SignedData)
				if err != nil {
					return "C11/parse-back", tag + ": " + err.Error()
				}
				key, from, until, deltaHash = sd.RecoveryKey, sd.AnchorFrom, sd.AnchorUntil, sd.DeltaHash
				if sd.RecoveryCommitment != s.NextRecovery || !jsonEq(sd.AnchorOrigin, s.AnchorOrigin) {
					return "C11/parse-back", fmt.Sprintf("%s: recovery commitment / anchor origin (%s, %s) differ from the supplied (%s, %s)", tag, sd.RecoveryCommitment, js(sd.AnchorOrigin), s.NextRecovery, js(s.AnchorOrigin))
				}
			default:
				sd, err := v.RealParser.ParseSignedDataForDeactivate(op.SignedData)
				if err != nil {
					return "C11/parse-back", tag + ": " + err.Error()
				}
				key, from, until = sd.RecoveryKey, sd.AnchorFrom, sd.AnchorUntil
				if sd.DidSuffix != suffix {
					return "C11/parse-back", tag + ": signed suffix differs"
				}
			}
			if !jsonEq(key, s.SigningJWK) {
				return "C11/parse-back", fmt.Sprintf("%s: signing key %s, supplied %s", tag, js(key), js(s.SigningJWK))
			}
			if from != s.From || until != s.Until {
				return "C11/parse-back", fmt.Sprintf("%s: window (%d,%d), supplied (%d,%d)", tag, from, until, s.From, s.Until)
			}
			if s.Type != "deactivate" {
				if op.Delta == nil || op.Delta.UpdateCommitment != s.NextUpdate {
					return "C11/parse-back", fmt.Sprintf("%s: next update commitment differs from the supplied %s", tag, s.NextUpdate)
				}
				if deltaHash != asm.HashModel(s.code(c), res.NormalizeAny(op.Delta)) {
					return "C11/parse-back", tag + ": signed delta hash is not the hash of the delta"
				}
			}
		}
		if wantPatches != nil && !jsonEq(op.Delta.Patches, wantPatches) {
			return "C11/parse-back", fmt.Sprintf("%s: patches %s, supplied %s", tag, js(op.Delta.Patches), js(wantPatches))
		}
		// expected state change
		switch s.Type {
		case "create", "recover":
			base := refdoc.New()
			if s.Opaque != nil {
				doc = refdoc.FromMap(s.Opaque)
			} else {
				nd, err := refdoc.Apply(base, s.Patches)
				if err != nil {
					return "bad-case", "reference model cannot apply supplied patches: " + err.Error()
				}
				doc = nd
			}
			update, recovery = s.NextUpdate, s.NextRecovery
			origin = s.AnchorOrigin // the anchor origin supplied with a create / recover request takes effect too
		case "update":
			if s.Stale {
				break // skipped by the state machine: no state change
			}
			nd, err := refdoc.Apply(doc, s.Patches)
			if err != nil {
				return "bad-case", "reference model cannot apply supplied patches: " + err.Error()
			}
			doc, update = nd, s.NextUpdate
		default:
			doc, update, recovery, deactivated = refdoc.New(), "", "", true
		}
		anchored = append(anchored, &operation.AnchoredOperation{Type: operation.Type(s.Type), UniqueSuffix: suffix, OperationRequest: s.Request,
			TransactionTime: s.Time, TransactionNumber: uint64(i), CanonicalReference: fmt.Sprintf("ref-%d", i)})
		got := res.Resolve(pc, suffix, anchored, nil)
		if got.Panic != "" {
			return "C11/panic", tag + ": " + got.Panic
		}
		if got.Err != "" {
			return "C11/no-effect", fmt.Sprintf("%s: resolution failed after anchoring the client-built request: %s", tag, got.Err)
		}
		if !deactivated && !jsonEq(got.AnchorOrigin, origin) {
			return "C11/no-effect", fmt.Sprintf("%s: the anchor origin supplied with the request did not take effect: resolved %s, supplied %s", tag, js(got.AnchorOrigin), js(origin))
		}
		if !refdoc.Equal(got.Doc, doc) || got.Update != update || got.Recovery != recovery || got.Deactivated != deactivated {
			return "C11/no-effect", fmt.Sprintf("%s: anchored client-built request did not produce the intended state: document differs on %v, commitments (%s,%s) want (%s,%s), deactivated %v want %v; got doc=%s want doc=%s",
				tag, refdoc.Diff(got.Doc, doc), got.Update, got.Recovery, update, recovery, got.Deactivated, deactivated, js(got.Doc), js(doc.ToMap()))
		}
	}
	return "", ""
}

// ---- generation -----------------------------------------------------------------------------------------------

// signers are long-lived: one signer object per (key, kid) for the whole process, reused for every request it signs,
// as a wallet or node does (state leaking from one signature into the next would show).
var signerCache = map[string]client.Signer{}

func signerFor(k *keys.Key, kid string) client.Signer {
	id := k.ID() + "|" + kid
	if s, ok := signerCache[id]; ok {
		return s
	}
	var s client.Signer
	if k.Type == keys.Ed25519 {
		s = edsigner.New(k.Ed25519Private(), k.Type.Alg(), kid)
	} else {
		s = ecsigner.New(k.ECDSAPrivate(), k.Type.Alg(), kid)
	}
	signerCache[id] = s
	return s
}

func libJWK(t *rapid.T, k *keys.Key, nonce bool) *jws.JWK {
	var pub interface{}
	if k.Type == keys.Ed25519 {
		pub = ed25519.PublicKey(k.Ed25519Public())
	} else {
		pub = k.ECDSAPublic()
	}
	j, err := pubkey.GetPublicKeyJWK(pub)
	if err != nil {
		t.Fatalf("GetPublicKeyJWK(%s): %v", k.ID(), err)
	}
	if nonce {
		j.Nonce = k.WithNonce(16, "c11").Nonce
	}
	return j
}

func toPatches(t *rapid.T, l []interface{}) []patch.Patch {
	var out []patch.Patch
	for _, p := range l {
		b, _ := json.Marshal(p)
		pp, err := patch.FromBytes(b)
		if err != nil {
			t.Fatalf("harness: generated patch is not a patch: %v", err)
		}
		out = append(out, pp)
	}
	return out
}

func commit(t *rapid.T, j *jws.JWK, code uint64) string {
	c, err := commitment.GetCommitment(j, uint(code))
	if err != nil {
		t.Fatalf("GetCommitment: %v", err)
	}
	return c
}

func opaqueDoc(t *rapid.T) map[string]interface{} {
	if rapid.IntRange(0, 11).Draw(t, "opaqueContentless") == 0 {
		// a document without content: no members at all, or nothing but sections given as empty lists
		return rapid.SampledFrom([]map[string]interface{}{
			{}, {"publicKey": []interface{}{}}, {"service": []interface{}{}}, {"alsoKnownAs": []interface{}{}},
			{"publicKey": []interface{}{}, "service": []interface{}{}, "alsoKnownAs": []interface{}{}},
			// null sections: what a resolved document shows once the last key or service has been removed
			{"publicKey": nil}, {"service": nil, "publicKey": nil}, {"publicKey": nil, "service": []interface{}{}, "alsoKnownAs": nil},
		}).Draw(t, "contentless")
	}
	d := map[string]interface{}{}
	var ks, ss, us []interface{}
	for i, id := range []string{"k1", "k2", "k3"}[:rapid.IntRange(1, 3).Draw(t, "opaqueKeys")] {
		_ = i
		ks = append(ks, gen.DocKey(t, id))
	}
	d["publicKey"] = ks
	for _, id := range []string{"s1", "s2"}[:rapid.IntRange(1, 2).Draw(t, "opaqueServices")] {
		ss = append(ss, gen.DocService(t, id))
	}
	d["service"] = ss
	for _, u := range gen.URIAlphabet[:rapid.IntRange(1, 3).Draw(t, "opaqueURIs")] {
		us = append(us, u)
	}
	d["alsoKnownAs"] = us
	if rapid.Bool().Draw(t, "opaqueOther") {
		d["label"] = "hello"
		d["nested"] = map[string]interface{}{"a": []interface{}{"x", float64(2)}}
	}
	if rapid.IntRange(0, 3).Draw(t, "opaqueEmptyValues") == 0 {
		// members of the caller's own whose value is empty: they are content like any other (only the three sections
		// mean the same empty as absent)
		for _, name := range []string{"tags", "authentication", "meta", "note", "nothing"}[:rapid.IntRange(1, 5).Draw(t, "emptyValued")] {
			d[name] = map[string]interface{}{"tags": []interface{}{}, "authentication": []interface{}{}, "meta": map[string]interface{}{}, "note": "", "nothing": nil}[name]
		}
	}
	if rapid.IntRange(0, 4).Draw(t, "opaqueEmptySection") == 0 {
		// a section given as an empty list - or as null, which is how the library's own resolved documents show a section
		// whose last entry has been removed - is the same document as one without that section
		d[rapid.SampledFrom([]string{"service", "publicKey"}).Draw(t, "emptySection")] = rapid.SampledFrom([]interface{}{[]interface{}{}, nil}).Draw(t, "emptyAs")
	}
	if rapid.IntRange(0, 5).Draw(t, "opaqueAwkwardAlias") == 0 {
		// a URI that net/url cannot parse although RFC 3986 has it (a percent-encoded octet in the host name)
		d["alsoKnownAs"] = append(us, "http://ex%61mple.com/", "did:example:%41bc")
	}
	if rapid.IntRange(0, 2).Draw(t, "opaqueAwkward") == 0 {
		// any JSON member name is a legitimate member of an opaque document, also one that needs escaping as a JSON
		// string or as a JSON pointer token, or that merely starts like the name of a protected section
		names := append(append([]string{}, gen.AwkwardNames...), gen.PointerNames...)
		d[rapid.SampledFrom(names).Draw(t, "awkwardName")] = rapid.SampledFrom([]interface{}{"v", float64(7), map[string]interface{}{"a": "b"}}).Draw(t, "awkwardValue")
	}
	return d
}

func TestRoundTrip(t *testing.T) {
	ev.Rule(chk, "rapid: per DID a create and 0-4 further operations (update / recover / deactivate), all built with client.New*Request from valid inputs (one update in six of a DID with earlier updates names an update commitment its chain has already consumed as its next one: it parses back like any other, is skipped by the state machine, and the request built next with the same key must take effect behind it): patch lists over all eight actions or opaque documents (create / recover; one in five with a section given as an empty list; one in three with a member whose name needs JSON-string or JSON-pointer escaping or starts like a protected section's name), anchor origins of several JSON types, windows (none / from / from+until), optional nonce and kid, each operation signed with the library's ecsigner / edsigner over keys of all 5 types, every fourth EC key having a public coordinate with a leading zero byte (JWK via pubkey.GetPublicKeyJWK, commitments via commitment.GetCommitment), both hash algorithms - one DID in three migrates, i.e. later requests are built with the other algorithm (next commitments, delta hash) while their reveal value opens a commitment made under the first one; oracle: Parse accepts under a protocol enabling exactly the used algorithms; ParseOperation + ParseSignedDataFor* return exactly the supplied suffix, commitments, patches (JSON-equal), reveal value, key, anchor origin and window; suffix == independent hash of the suffix data; after anchoring inside the window Resolve shows exactly the kit/refdoc prediction (document, commitments, deactivated); non-trivial = key type other than P-256, or sha2-512, or a window, or >= 3 patches")
	ev.Rapid(t, chk, 300, 3000, func(t *rapid.T) {
		code := rapid.SampledFrom([]uint64{asm.SHA256, asm.SHA512}).Draw(t, "hash")
		c := &Case{Code: code, TimeDelta: uint64(rapid.SampledFrom([]int{600, 7207}).Draw(t, "timeDelta"))}
		nk := 0
		lzUsed := false
		staleUsed := false
		boundaryUsed := false
		usedLZ := map[string]bool{}
		newKey := func() *keys.Key {
			nk++
			kt := rapid.SampledFrom(keys.AllTypes).Draw(t, "keyType")
			// every fourth EC key is one whose public coordinate starts with a zero byte (fixed-width JWK encoding)
			// (each key at most once per DID: re-using a key would violate the builders' own preconditions)
			if lz := keys.LeadingZero(kt, "c11-lz", 1500); len(lz) > 0 && rapid.IntRange(0, 3).Draw(t, "leadingZeroKey") == 0 {
				k := lz[rapid.IntRange(0, len(lz)-1).Draw(t, "whichLeadingZero")]
				if !usedLZ[k.ID()] {
					usedLZ[k.ID()] = true
					lzUsed = true
					return k
				}
			}
			return keys.Get(kt, "c11", nk)
		}
		nontrivial := code == asm.SHA512
		// one DID in three migrates: later requests are built with the other algorithm (both enabled), opening
		// commitments made under the first one
		migrate := rapid.IntRange(0, 2).Draw(t, "migratesHashAlgorithm") == 0
		other := asm.SHA256 + asm.SHA512 - code
		updCode, recCode := code, code
		recK, updK := newKey(), newKey()
		useNonce := rapid.Bool().Draw(t, "nonce")
		recJ, updJ := libJWK(t, recK, useNonce), libJWK(t, updK, useNonce)
		origin := rapid.SampledFrom([]interface{}{nil, "origin.example", map[string]interface{}{"o": []interface{}{"a"}}, float64(5)}).Draw(t, "anchorOrigin")
		// create
		st := Step{Type: "create", NextUpdate: commit(t, updJ, code), NextRecovery: commit(t, recJ, code), AnchorOrigin: origin, Time: 100}
		info := &client.CreateRequestInfo{RecoveryCommitment: st.NextRecovery, UpdateCommitment: st.NextUpdate, AnchorOrigin: origin, MultihashCode: uint(code),
			Type: rapid.SampledFrom([]string{"", "", "0001", "z"}).Draw(t, "didType")} // the optional suffix-data type
		if rapid.IntRange(0, 2).Draw(t, "opaqueCreate") == 0 {
			st.Opaque = opaqueDoc(t)
			info.OpaqueDocument = js(st.Opaque)
		} else {
			st.Patches = gen.ValidPatches(t, 4, gen.PatchOpts{})
			info.Patches = toPatches(t, st.Patches)
			nontrivial = nontrivial || len(st.Patches) >= 3
		}
		req, err := client.NewCreateRequest(info)
		if err != nil {
			t.Fatalf("NewCreateRequest rejected valid inputs: %v", err)
		}
		st.Request = req
		c.Steps = append(c.Steps, st)
		n := rapid.IntRange(0, 4).Draw(t, "furtherOps")
		tm := uint64(10000) // beyond every maximum operation time delta, so that anchorFrom = time - delta is a legal (positive) value
		curUpdCommit := st.NextUpdate // the update commitment in force
		var pastCommits []string      // update commitments consumed since the create / the last recover
		for i := 0; i < n; i++ {
			tm += uint64(rapid.IntRange(1, 50).Draw(t, "dt"))
			kind := rapid.SampledFrom([]string{"update", "update", "recover", "deactivate"}).Draw(t, "kind")
			s := Step{Type: kind, Time: tm}
			switch rapid.IntRange(0, 2).Draw(t, "window") {
			case 1:
				back := rapid.IntRange(0, int(c.TimeDelta)).Draw(t, "fromBack")
				if rapid.IntRange(0, 3).Draw(t, "anchoredInLastSecondOfImpliedWindow") == 0 {
					back = int(c.TimeDelta) // anchorFrom + maximum operation time delta == anchoring time: the inclusive end
					boundaryUsed = true
				}
				s.From = int64(tm) - int64(back)
				if s.From <= 0 {
					s.From = 1
				}
				nontrivial = true
			case 2:
				s.From = int64(tm) - int64(rapid.IntRange(0, 1000).Draw(t, "fromBack"))
				if s.From <= 0 {
					s.From = 1
				}
				s.Until = int64(tm) + int64(rapid.IntRange(0, 100000).Draw(t, "untilAhead"))
				nontrivial = true
			}
			kid := rapid.SampledFrom([]string{"", "signing-key"}).Draw(t, "kid")
			sc := code
			if migrate && rapid.Bool().Draw(t, "builtWithOtherAlgorithm") {
				sc = other
				s.Code = other
				nontrivial = true
			}
			switch kind {
			case "update":
				next := newKey()
				nj := libJWK(t, next, useNonce)
				s.KeyType, s.Alg, s.Crv = updK.Type.String(), updK.Type.Alg(), updK.Type.Crv()
				s.SigningJWK = res.NormalizeAny(updJ).(map[string]interface{})
				s.Reveal = asm.Reveal(withNonce(updK, useNonce), updCode)
				s.NextUpdate = commit(t, nj, sc)
				if len(pastCommits) > 0 && rapid.IntRange(0, 5).Draw(t, "staleNextCommitment") == 0 {
					s.NextUpdate = rapid.SampledFrom(pastCommits).Draw(t, "consumedCommitment")
					s.Stale = true
					staleUsed = true
					nontrivial = true
				}
				s.Patches = gen.ValidPatches(t, 4, gen.PatchOpts{Actions: []string{"add-public-keys", "remove-public-keys", "add-services", "remove-services", "add-also-known-as", "remove-also-known-as", "ietf-json-patch"}})
				nontrivial = nontrivial || len(s.Patches) >= 3 || updK.Type != keys.P256
				r, err := client.NewUpdateRequest(&client.UpdateRequestInfo{DidSuffix: suffixOf(c, code), Patches: toPatches(t, s.Patches), UpdateCommitment: s.NextUpdate, UpdateKey: updJ,
					MultihashCode: uint(sc), Signer: signerFor(updK, kid), RevealValue: s.Reveal, AnchorFrom: s.From, AnchorUntil: s.Until})
				if err != nil {
					t.Fatalf("NewUpdateRequest rejected valid inputs: %v", err)
				}
				s.Request = r
				if !s.Stale {
					pastCommits = append(pastCommits, curUpdCommit)
					curUpdCommit = s.NextUpdate
					updK, updJ, updCode = next, nj, sc
				}
			case "recover":
				nu, nr := newKey(), newKey()
				nuj, nrj := libJWK(t, nu, useNonce), libJWK(t, nr, useNonce)
				s.KeyType, s.Alg, s.Crv = recK.Type.String(), recK.Type.Alg(), recK.Type.Crv()
				s.SigningJWK = res.NormalizeAny(recJ).(map[string]interface{})
				s.Reveal = asm.Reveal(withNonce(recK, useNonce), recCode)
				s.NextUpdate, s.NextRecovery = commit(t, nuj, sc), commit(t, nrj, sc)
				s.AnchorOrigin = rapid.SampledFrom([]interface{}{nil, "other-origin", []interface{}{"x"}}).Draw(t, "recoverOrigin")
				ri := &client.RecoverRequestInfo{DidSuffix: suffixOf(c, code), RecoveryKey: recJ, RecoveryCommitment: s.NextRecovery, UpdateCommitment: s.NextUpdate, AnchorOrigin: s.AnchorOrigin,
					AnchorFrom: s.From, AnchorUntil: s.Until, MultihashCode: uint(sc), Signer: signerFor(recK, kid), RevealValue: s.Reveal}
				if rapid.IntRange(0, 2).Draw(t, "opaqueRecover") == 0 {
					s.Opaque = opaqueDoc(t)
					ri.OpaqueDocument = js(s.Opaque)
				} else {
					s.Patches = gen.ValidPatches(t, 3, gen.PatchOpts{})
					ri.Patches = toPatches(t, s.Patches)
				}
				nontrivial = nontrivial || recK.Type != keys.P256
				r, err := client.NewRecoverRequest(ri)
				if err != nil {
					t.Fatalf("NewRecoverRequest rejected valid inputs: %v", err)
				}
				s.Request = r
				pastCommits, curUpdCommit = nil, s.NextUpdate
				updK, updJ, recK, recJ, updCode, recCode = nu, nuj, nr, nrj, sc, sc
			default:
				s.KeyType, s.Alg, s.Crv = recK.Type.String(), recK.Type.Alg(), recK.Type.Crv()
				s.SigningJWK = res.NormalizeAny(recJ).(map[string]interface{})
				s.Reveal = asm.Reveal(withNonce(recK, useNonce), recCode)
				s.Code = 0
				nontrivial = nontrivial || recK.Type != keys.P256
				r, err := client.NewDeactivateRequest(&client.DeactivateRequestInfo{DidSuffix: suffixOf(c, code), RecoveryKey: recJ, Signer: signerFor(recK, kid), RevealValue: s.Reveal, AnchorFrom: s.From, AnchorUntil: s.Until})
				if err != nil {
					t.Fatalf("NewDeactivateRequest rejected valid inputs: %v", err)
				}
				s.Request = r
			}
			c.Steps = append(c.Steps, s)
			if kind == "deactivate" {
				break
			}
		}
		kind, msg := evalCase(c)
		var types []string
		for _, s := range c.Steps {
			types = append(types, "op:"+s.Type, "sign:"+s.KeyType)
		}
		ev.Record(chk, nontrivial, ev.Hash(c), append(types, fmt.Sprintf("hash:%d", code), fmt.Sprintf("migrates-hash-algorithm:%v", migrate), fmt.Sprintf("leading-zero-coordinate-key:%v", lzUsed), fmt.Sprintf("stale-update-in-front:%v", staleUsed), fmt.Sprintf("anchored-at-end-of-implied-window:%v", boundaryUsed))...)
		ev.SampleFn(chk, func() interface{} {
			var out []string
			for _, s := range c.Steps {
				out = append(out, fmt.Sprintf("%s by %s window(%d,%d) at %d: %s", s.Type, s.KeyType, s.From, s.Until, s.Time, ev.Trunc(string(s.Request), 120)))
			}
			return out
		})
		if kind != "" {
			ev.Fail(t, chk, kind, kind, c, "%s", msg)
		}
	})
}

func withNonce(k *keys.Key, nonce bool) *keys.Key {
	if nonce {
		return k.WithNonce(16, "c11")
	}
	return k
}

// suffixOf computes the DID suffix from the stored create request (independent recomputation).
func suffixOf(c *Case, code uint64) string {
	root, perr := refjcs.Parse(c.Steps[0].Request)
	if perr != nil {
		return "invalid"
	}
	for _, m := range root.Obj {
		if m.Name == "suffixData" {
			return asm.HashModel(code, refjcs.ToGo(m.Val))
		}
	}
	return "invalid"
}
