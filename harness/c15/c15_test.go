// Package c15 decides property C15: processing a transaction stores at most one operation per DID suffix,
// each stamped with that transaction's coordinates and references, in a single all-or-nothing write; a
// transaction that cannot be read, parsed or stored contributes nothing and does not stop later ones;
// an operation refused at intake, or whose enqueueing fails, leaves no trace in queue or unpublished store.
package c15

import (
	"encoding/json"
	"errors"
	"fmt"
	"reflect"
	"sort"
	"strings"
	"testing"
	"time"

	"github.com/trustbloc/sidetree-core-go/pkg/api/operation"
	"github.com/trustbloc/sidetree-core-go/pkg/api/protocol"
	"github.com/trustbloc/sidetree-core-go/pkg/api/txn"
	"github.com/trustbloc/sidetree-core-go/pkg/dochandler"
	"github.com/trustbloc/sidetree-core-go/pkg/observer"
	"github.com/trustbloc/sidetree-core-go/pkg/processor"
	"github.com/trustbloc/sidetree-core-go/pkg/versions/1_0/txnprocessor"
	"pgregory.net/rapid"

	"verifharness/kit/asm"
	"verifharness/kit/ev"
	"verifharness/kit/gen"
	"verifharness/kit/hist"
	"verifharness/kit/keys"
	"verifharness/kit/refmodel"
	"verifharness/kit/wire"
)

func TestMain(m *testing.M) { ev.Main(m, "C15") }

const (
	chkTxn    = "transactions-with-faults"
	chkIntake = "intake-leaves-no-trace"
)

const ns = "did:sidetree"

// OpID identifies an expected stored operation.
type OpID struct {
	Type   string `json:"type"`
	Suffix string `json:"suffix"`
}

// Txn is one ledger transaction of a sequence.
type Txn struct {
	Kind       string   `json:"kind"`                // valid | bad-anchor | missing-file | corrupt-file | duplicates | unknown-version | unknown-namespace
	Namespace  string   `json:"namespace,omitempty"` // "" = the configured namespace
	Anchor     string   `json:"anchor"`
	Time       uint64   `json:"time"`
	Number     uint64   `json:"number"`
	Version    uint64   `json:"protocolVersion"`
	Canonical  string   `json:"canonicalReference"`
	Equivalent []string `json:"equivalentReferences"`
	Expect     []OpID   `json:"expect"` // operations a fault-free run stores for it (empty for bad ones)
	// Dup lists the operations a stub provider returns for a duplicates-carrying transaction
	Dup []OpID `json:"dup,omitempty"`
}

// Case is a sequence of transactions over one CAS, one fault and the way it is processed.
type Case struct {
	Code   uint64            `json:"code"`
	Files  map[string][]byte `json:"files"`
	Txns   []Txn             `json:"txns"`
	Fault  string            `json:"fault"`            // "" | cas-read | store-put | unpublished-delete
	K      int               `json:"k"`                // 1-based index of the failing call
	Via    string            `json:"via"`              // observer | direct
	Chunks []int             `json:"chunks,omitempty"` // sizes of the notification slices (observer)
	// MinGenesis is the genesis time of the first protocol version (0 by default); transactions stamped with a lower
	// protocol version cannot be resolved by the protocol client
	MinGenesis uint64 `json:"minGenesis,omitempty"`
}

func nsOf(t Txn) string {
	if t.Namespace != "" {
		return t.Namespace
	}
	return ns
}

func init() {
	ev.RegisterReplay(chkTxn, replay)
	ev.RegisterReplay(chkIntake, replayIntake)
	ev.Assume("the operation store's Put is atomic (a failing call stores nothing); a failure to delete unpublished operations happens after the write and is only required not to stop later transactions")
	ev.Assume("observer completion is observed through a sentinel transaction, not a sleep; a 30 s wait bound is an inconclusive harness failure, not a verdict")
}

// TestReplay runs first.
func TestReplay(t *testing.T) { ev.ReplayMain(t) }

func replay(raw json.RawMessage) (string, string) {
	var c Case
	if err := json.Unmarshal(raw, &c); err != nil {
		return "bad-replay", err.Error()
	}
	k, m, _ := evalCase(&c)
	return k, m
}

func js(v interface{}) string {
	b, _ := json.Marshal(v)
	return string(b)
}

// stubProvider serves duplicates-carrying transactions; everything else goes to the real provider.
type stubProvider struct {
	real protocol.OperationProvider
	dup  map[string][]OpID
}

func (s *stubProvider) GetTxnOperations(t *txn.SidetreeTxn) ([]*operation.AnchoredOperation, error) {
	if ids, ok := s.dup[t.AnchorString]; ok {
		var out []*operation.AnchoredOperation
		for i, id := range ids {
			out = append(out, &operation.AnchoredOperation{Type: operation.Type(id.Type), UniqueSuffix: id.Suffix, OperationRequest: []byte(fmt.Sprintf(`{"n":%d}`, i))})
		}
		return out, nil
	}
	return s.real.GetTxnOperations(t)
}

type ledger struct{ ch chan []txn.SidetreeTxn }

func (l *ledger) RegisterForSidetreeTxn() <-chan []txn.SidetreeTxn { return l.ch }

type sentinelProvider struct {
	inner protocol.ClientProvider
	seen  chan struct{}
}

func (s *sentinelProvider) ForNamespace(n string) (protocol.Client, error) {
	if n == "sentinel" {
		select {
		case s.seen <- struct{}{}:
		default:
		}
		return nil, errors.New("sentinel")
	}
	return s.inner.ForNamespace(n)
}

type env struct {
	cas   *wire.MemCAS
	store *wire.OpStore
	unpub *wire.UnpubStore
	pc    *wire.Client
	// a second registered namespace with its own operation store (same CAS, same version numbers)
	store2 *wire.OpStore
	pc2    *wire.Client
}

// ns2 is the second namespace the node serves.
const ns2 = "did:second"

// nsProvider serves the protocol clients of both namespaces.
type nsProvider struct{ e *env }

func (p nsProvider) ForNamespace(n string) (protocol.Client, error) {
	switch n {
	case ns:
		return p.e.pc, nil
	case ns2:
		return p.e.pc2, nil
	}
	return nil, fmt.Errorf("protocol client not found for namespace [%s]", n)
}

func (e *env) clientFor(n string) *wire.Client {
	switch n {
	case ns:
		return e.pc
	case ns2:
		return e.pc2
	}
	return nil
}

func newEnv(c *Case) *env {
	e := &env{cas: wire.NewMemCAS(), store: wire.NewOpStore(), unpub: wire.NewUnpubStore(), store2: wire.NewOpStore()}
	for a, b := range c.Files {
		e.cas.Put(a, b)
	}
	dup := map[string][]OpID{}
	for _, t := range c.Txns {
		if t.Kind == "duplicates" {
			dup[t.Anchor] = t.Dup
		}
	}
	var vs []protocol.Version
	for _, g := range []uint64{c.MinGenesis, 100} {
		p := wire.BaseProtocol()
		p.GenesisTime = g
		p.MultihashAlgorithms = []uint{uint(c.Code)}
		v := wire.Build(p, wire.Deps{CAS: e.cas, OpStore: e.store, TxnProcOpts: []txnprocessor.Option{
			txnprocessor.WithUnpublishedOperationStore(e.unpub, []operation.Type{operation.TypeCreate, operation.TypeUpdate, operation.TypeRecover, operation.TypeDeactivate})}})
		v.Provider = &stubProvider{real: v.Provider, dup: dup}
		vs = append(vs, v)
	}
	e.pc = wire.NewClient(vs...)
	var vs2 []protocol.Version
	for _, g := range []uint64{c.MinGenesis, 100} {
		p := wire.BaseProtocol()
		p.GenesisTime = g
		p.MultihashAlgorithms = []uint{uint(c.Code)}
		v := wire.Build(p, wire.Deps{CAS: e.cas, OpStore: e.store2})
		v.Provider = &stubProvider{real: v.Provider, dup: dup}
		vs2 = append(vs2, v)
	}
	e.pc2 = wire.NewClient(vs2...)
	return e
}

// run processes the sequence and returns the log of successful Put calls.
func run(c *Case, fault string, k int) (puts [][]*operation.AnchoredOperation, casReads int64, putCalls, delCalls int, harnessErr string) {
	puts, _, casReads, putCalls, delCalls, harnessErr = run2(c, fault, k)
	return
}

// run2 is run, returning the write logs of both namespaces' stores.
func run2(c *Case, fault string, k int) (puts, puts2 [][]*operation.AnchoredOperation, casReads int64, putCalls, delCalls int, harnessErr string) {
	e := newEnv(c)
	switch fault {
	case "cas-read":
		e.cas.FailRead = func(n int64, _ string) error {
			if int(n) == k {
				return errors.New("injected CAS read failure")
			}
			return nil
		}
	case "store-put":
		e.store.FailPut = func(n int, _ []*operation.AnchoredOperation) error {
			if n == k {
				return errors.New("injected store failure")
			}
			return nil
		}
	case "unpublished-delete":
		e.unpub.FailDelAll = func(n int) error {
			if n == k {
				return errors.New("injected unpublished-store failure")
			}
			return nil
		}
	}
	var txns []txn.SidetreeTxn
	for _, t := range c.Txns {
		txns = append(txns, txn.SidetreeTxn{TransactionTime: t.Time, TransactionNumber: t.Number, AnchorString: t.Anchor, Namespace: nsOf(t), ProtocolVersion: t.Version,
			CanonicalReference: t.Canonical, EquivalentReferences: append([]string{}, t.Equivalent...)})
	}
	if c.Via == "direct" {
		for _, t := range txns {
			pc := e.clientFor(t.Namespace)
			if pc == nil {
				continue // no protocol client for that namespace
			}
			v, err := pc.Get(t.ProtocolVersion)
			if err != nil {
				continue
			}
			_, _ = v.TransactionProcessor().Process(t)
		}
	} else {
		l := &ledger{ch: make(chan []txn.SidetreeTxn)}
		sp := &sentinelProvider{inner: nsProvider{e}, seen: make(chan struct{}, 1)}
		o := observer.New(&observer.Providers{Ledger: l, ProtocolClientProvider: sp})
		o.Start()
		i := 0
		chunks := c.Chunks
		if len(chunks) == 0 {
			chunks = []int{len(txns)}
		}
		for _, n := range chunks {
			if i >= len(txns) {
				break
			}
			j := i + n
			if j > len(txns) {
				j = len(txns)
			}
			l.ch <- txns[i:j]
			i = j
		}
		if i < len(txns) {
			l.ch <- txns[i:]
		}
		l.ch <- []txn.SidetreeTxn{{Namespace: "sentinel"}}
		select {
		case <-sp.seen:
		case <-time.After(30 * time.Second):
			harnessErr = "observer did not reach the sentinel transaction within 30 s"
		}
		o.Stop()
	}
	return e.store.Puts, e.store2.Puts, e.cas.Reads, e.store.PutCalls(), e.unpub.DelAllCalls(), harnessErr
}

// evalCase returns (kind, message, inconclusive).
func evalCase(c *Case) (string, string, string) {
	// dry run without faults: what the operation provider returns for each transaction on this CAS (that defines
	// whether the transaction is readable and what it holds: first operation per suffix), and how many CAS reads /
	// which Put call each transaction makes
	type span struct{ readsFrom, readsTo, put int }
	spans := make([]span, len(c.Txns))
	expect := make([][]OpID, len(c.Txns))
	{
		ea, eb := newEnv(c), newEnv(c)
		var reads int64
		puts := 0
		for i, t := range c.Txns {
			st := txn.SidetreeTxn{TransactionTime: t.Time, TransactionNumber: t.Number, AnchorString: t.Anchor, Namespace: ns, ProtocolVersion: t.Version}
			if ca := ea.clientFor(nsOf(t)); ca == nil {
				// unknown namespace: nothing is read
			} else if va, err := ca.Get(t.Version); err == nil {
				var ops []*operation.AnchoredOperation
				var perr error
				if pn := ev.Catch(func() { ops, perr = va.OperationProvider().GetTxnOperations(&st) }); pn != "" {
					return "", "", "operation provider panicked in the dry run (C14's subject): " + pn
				}
				if perr == nil {
					seen := map[string]bool{}
					for _, op := range ops {
						if !seen[op.UniqueSuffix] {
							seen[op.UniqueSuffix] = true
							expect[i] = append(expect[i], OpID{string(op.Type), op.UniqueSuffix})
						}
					}
				}
			}
			spans[i].readsFrom = int(reads) + 1
			if cb := eb.clientFor(nsOf(t)); cb == nil {
				// unknown namespace
			} else if vb, err := cb.Get(t.Version); err == nil {
				_, _ = vb.TransactionProcessor().Process(st)
			}
			reads = eb.cas.Reads
			spans[i].readsTo = int(reads)
			if eb.store.PutCalls() > puts {
				puts = eb.store.PutCalls()
				spans[i].put = puts
			}
		}
	}
	var pn string
	var puts, puts2 [][]*operation.AnchoredOperation
	var herr string
	pn = ev.Catch(func() { puts, puts2, _, _, _, herr = run2(c, c.Fault, c.K) })
	if pn != "" {
		return "C15/panic", "processing panicked: " + pn, ""
	}
	if herr != "" {
		return "", "", herr
	}
	// expected log
	var want, want2 [][]OpID
	var wantTxn, wantTxn2 []int
	for i := range c.Txns {
		if len(expect[i]) == 0 {
			continue
		}
		second := nsOf(c.Txns[i]) == ns2
		faulted := false
		switch c.Fault {
		case "cas-read":
			faulted = c.K >= spans[i].readsFrom && c.K <= spans[i].readsTo
		case "store-put":
			faulted = !second && spans[i].put == c.K
		}
		if faulted {
			continue
		}
		if second {
			want2 = append(want2, expect[i])
			wantTxn2 = append(wantTxn2, i)
		} else {
			want = append(want, expect[i])
			wantTxn = append(wantTxn, i)
		}
	}
	// the second namespace's store: exactly its own good transactions, in order
	if len(puts2) != len(want2) {
		return "C15/store-log", fmt.Sprintf("the operation store of namespace %s received %d successful writes, expected %d (its good transactions %v); the first namespace's store received %d, expected %d; fault %s k=%d via %s; txns %s",
			ns2, len(puts2), len(want2), wantTxn2, len(puts), len(want), c.Fault, c.K, c.Via, kinds(c)), ""
	}
	for wi, p := range puts2 {
		var got []OpID
		for _, op := range p {
			got = append(got, OpID{string(op.Type), op.UniqueSuffix})
		}
		if !reflect.DeepEqual(got, want2[wi]) {
			return "C15/store-log", fmt.Sprintf("write %d to the store of namespace %s holds %v, expected the operations of transaction %d: %v", wi, ns2, got, wantTxn2[wi], want2[wi]), ""
		}
	}
	if len(puts) != len(want) {
		return "C15/store-log", fmt.Sprintf("operation store received %d successful writes, expected %d (one per good transaction %v, none for bad or faulted ones); fault %s k=%d via %s chunks %v; txns %s; got %s",
			len(puts), len(want), wantTxn, c.Fault, c.K, c.Via, c.Chunks, kinds(c), putSummary(puts)), ""
	}
	for wi, p := range puts {
		t := c.Txns[wantTxn[wi]]
		var got []OpID
		seen := map[string]bool{}
		for _, op := range p {
			got = append(got, OpID{string(op.Type), op.UniqueSuffix})
			if seen[op.UniqueSuffix] {
				return "C15/duplicate-suffix-stored", fmt.Sprintf("transaction %d stored two operations for suffix %s", wantTxn[wi], op.UniqueSuffix), ""
			}
			seen[op.UniqueSuffix] = true
			if op.TransactionTime != t.Time || op.TransactionNumber != t.Number || op.ProtocolVersion != t.Version {
				return "C15/stamp", fmt.Sprintf("operation %s %s of transaction %d is stamped (time %d, number %d, version %d), transaction has (%d, %d, %d)", op.Type, op.UniqueSuffix, wantTxn[wi],
					op.TransactionTime, op.TransactionNumber, op.ProtocolVersion, t.Time, t.Number, t.Version), ""
			}
			if op.CanonicalReference != t.Canonical || !sameStrings(op.EquivalentReferences, t.Equivalent) {
				return "C15/stamp-references", fmt.Sprintf("operation %s %s of transaction %d is stamped with canonical reference %q and equivalent references %v, transaction has %q and %v", op.Type, op.UniqueSuffix, wantTxn[wi],
					op.CanonicalReference, op.EquivalentReferences, t.Canonical, t.Equivalent), ""
			}
		}
		if !reflect.DeepEqual(got, want[wi]) {
			return "C15/store-log", fmt.Sprintf("write %d holds %v, expected the operations of transaction %d: %v", wi, got, wantTxn[wi], want[wi]), ""
		}
	}
	return "", "", ""
}

func sameStrings(a, b []string) bool {
	if len(a) == 0 && len(b) == 0 {
		return true
	}
	return reflect.DeepEqual(a, b)
}

func kinds(c *Case) string {
	var out []string
	for _, t := range c.Txns {
		out = append(out, t.Kind)
	}
	return strings.Join(out, ",")
}

func putSummary(puts [][]*operation.AnchoredOperation) string {
	var out []string
	for _, p := range puts {
		var l []string
		for _, op := range p {
			l = append(l, fmt.Sprintf("%s@%d/%d", op.Type, op.TransactionTime, op.TransactionNumber))
		}
		out = append(out, "["+strings.Join(l, " ")+"]")
	}
	return strings.Join(out, " ")
}

var typeRank = map[string]int{"create": 0, "recover": 1, "update": 2, "deactivate": 3}

func TestTransactionsWithFaults(t *testing.T) {
	ev.Rule(chkTxn, "rapid sequences of 1-8 transactions: valid (files written by the real handler for a generated batch, possibly with repeated suffixes queued; one batch in thirty holds 101-260 operations for as many DIDs), unreadable (malformed anchor string, missing file, corrupt file: junk, gzip stream cut in its data or trailer, wrong CRC / length, truncated second member), duplicate-carrying (stub provider returning one suffix twice), a protocol version the protocol client cannot resolve, a namespace without protocol client, a second registered namespace with its own operation store (runs of equal kinds and versions are frequent); distinct time / number / version / canonical / equivalent references; processed through the real Observer (drawn notification slicing, completion via a sentinel transaction) and directly through TxnProcessor.Process; for each sequence EVERY fault position is enumerated: each CAS read k, each OpStore.Put call k, each unpublished DeleteAll call k, plus the fault-free run; oracle (store-state): the log of successful atomic writes == one write per good, un-faulted transaction, in order, holding exactly the first operation per suffix, each stamped with the transaction's time, number, protocol version, canonical and equivalent references; nothing for bad transactions; non-trivial = a bad transaction followed by a good one, or a fault, or a duplicate suffix")
	ev.Rapid(t, chkTxn, 150, 1500, func(t *rapid.T) {
		code := rapid.SampledFrom([]uint64{asm.SHA256, asm.SHA512}).Draw(t, "hash")
		c := &Case{Code: code, Files: map[string][]byte{}, MinGenesis: uint64(rapid.SampledFrom([]int{0, 10}).Draw(t, "minGenesis"))}
		n := rapid.IntRange(1, 8).Draw(t, "txns")
		prevKind, prevVersion := "", uint64(0)
		p := wire.BaseProtocol()
		p.MultihashAlgorithms = []uint{uint(code)}
		for i := 0; i < n; i++ {
			kind := rapid.SampledFrom([]string{"valid", "valid", "valid", "bad-anchor", "missing-file", "corrupt-file", "duplicates", "unknown-version", "unknown-namespace", "second-namespace", "second-namespace"}).Draw(t, "txnKind")
			version := uint64(rapid.SampledFrom([]int{int(c.MinGenesis), 100}).Draw(t, "version"))
			if kind == "unknown-version" && c.MinGenesis > 0 {
				version = uint64(rapid.SampledFrom([]int{3, 5}).Draw(t, "unresolvableVersion"))
			}
			// runs: now and then the next transaction repeats the kind (and version) of its predecessor
			if i > 0 && rapid.IntRange(0, 3).Draw(t, "repeatPrevious") == 0 {
				kind, version = prevKind, prevVersion
			}
			prevKind, prevVersion = kind, version
			tx := Txn{Kind: kind, Time: uint64(1000 + 10*i + rapid.IntRange(0, 5).Draw(t, "dt")), Number: uint64(rapid.IntRange(0, 50).Draw(t, "number")), Version: version,
				Canonical: fmt.Sprintf("canon-%d", i), Equivalent: []string{fmt.Sprintf("eq-%d-a", i), fmt.Sprintf("eq-%d-b", i)}[:rapid.IntRange(0, 2).Draw(t, "equivalents")]}
			cas := wire.NewMemCAS()
			v := wire.Build(p, wire.Deps{CAS: cas})
			batch := gen.Batch(t, code, 6, false, fmt.Sprintf("c15-%d", i))
			if rapid.IntRange(0, 29).Draw(t, "hugeTransaction") == 0 {
				// a transaction far beyond hand-written sizes: 101-260 operations for as many DIDs
				batch = gen.BulkCreates(code, rapid.IntRange(101, 260).Draw(t, "hugeOps"), fmt.Sprintf("c15-%d", i))
			}
			var q []*operation.QueuedOperation
			for _, o := range batch {
				q = append(q, &operation.QueuedOperation{Type: operation.Type(o.Type), OperationRequest: o.Request, UniqueSuffix: o.Suffix, Namespace: ns, AnchorOrigin: o.QueuedAO})
			}
			ai, err := v.Handler.PrepareTxnFiles(q)
			if err != nil {
				t.Fatalf("harness: %v", err)
			}
			tx.Anchor = ai.AnchorString
			files := cas.Snapshot()
			var included []OpID
			seen := map[string]bool{}
			for _, o := range batch {
				if !seen[o.Suffix] {
					seen[o.Suffix] = true
					included = append(included, OpID{o.Type, o.Suffix})
				}
			}
			sort.SliceStable(included, func(a, b int) bool { return typeRank[included[a].Type] < typeRank[included[b].Type] })
			switch kind {
			case "valid":
				tx.Expect = included
			case "bad-anchor":
				tx.Anchor = rapid.SampledFrom([]string{"", "garbage", "0." + strings.Split(ai.AnchorString, ".")[1], "1.2.3", "x.y"}).Draw(t, "badAnchor")
			case "missing-file":
				var as []string
				for a := range files {
					as = append(as, a)
				}
				sort.Strings(as)
				delete(files, as[rapid.IntRange(0, len(as)-1).Draw(t, "missing")])
			case "corrupt-file":
				var as []string
				for a := range files {
					as = append(as, a)
				}
				sort.Strings(as)
				addr := as[rapid.IntRange(0, len(as)-1).Draw(t, "corrupt")]
				orig := files[addr]
				switch rapid.IntRange(0, 7).Draw(t, "corruption") {
				case 0, 1, 2:
					files[addr] = []byte(rapid.SampledFrom([]string{"", "not gzip", "\x1f\x8b\x08\x00garbage"}).Draw(t, "junk"))
				case 3: // gzip stream cut inside its trailer: all content is delivered before the error
					files[addr] = append([]byte{}, orig[:len(orig)-rapid.IntRange(1, 7).Draw(t, "trailerCut")]...)
				case 4: // cut inside the deflate data
					files[addr] = append([]byte{}, orig[:len(orig)/2+rapid.IntRange(0, len(orig)/4).Draw(t, "dataCut")]...)
				case 5: // wrong CRC
					b := append([]byte{}, orig...)
					b[len(b)-6] ^= 0x5a
					files[addr] = b
				case 6: // wrong length field
					b := append([]byte{}, orig...)
					b[len(b)-1] ^= 0x01
					files[addr] = b
				default: // a second, truncated member after the genuine one
					files[addr] = append(append([]byte{}, orig...), orig[:len(orig)/2]...)
				}
			case "duplicates":
				tx.Anchor = fmt.Sprintf("3.dup-%d", i)
				tx.Dup = []OpID{{"update", "sfx-a"}, {"create", "sfx-b"}, {"deactivate", "sfx-a"}}
				tx.Expect = []OpID{{"update", "sfx-a"}, {"create", "sfx-b"}}
			case "unknown-version":
				if c.MinGenesis == 0 {
					tx.Expect = included // every version number resolves: a valid one under the first version
					tx.Kind = "valid"
				}
			case "unknown-namespace":
				tx.Namespace = "did:othermethod"
			case "second-namespace":
				// a valid transaction of the second namespace the node serves: its operations belong in that
				// namespace's own store
				tx.Namespace = ns2
				tx.Expect = included
			}
			for a, b := range files {
				c.Files[a] = b
			}
			c.Txns = append(c.Txns, tx)
		}
		c.Via = rapid.SampledFrom([]string{"observer", "direct"}).Draw(t, "via")
		if c.Via == "observer" {
			left := n
			for left > 0 {
				k := rapid.IntRange(1, left).Draw(t, "chunk")
				c.Chunks = append(c.Chunks, k)
				left -= k
			}
		}
		// fault-free run to learn the number of fault positions
		_, reads, putCalls, delCalls, herr := run(c, "", 0)
		if herr != "" {
			t.Skip(herr)
		}
		type fp struct {
			kind string
			k    int
		}
		fps := []fp{{"", 0}}
		for k := 1; k <= int(reads); k++ {
			fps = append(fps, fp{"cas-read", k})
		}
		for k := 1; k <= putCalls; k++ {
			fps = append(fps, fp{"store-put", k})
		}
		for k := 1; k <= delCalls; k++ {
			fps = append(fps, fp{"unpublished-delete", k})
		}
		badThenGood, dup := false, false
		for i, tx := range c.Txns {
			if tx.Kind == "duplicates" {
				dup = true
			}
			if len(tx.Expect) == 0 {
				for _, later := range c.Txns[i+1:] {
					if len(later.Expect) > 0 {
						badThenGood = true
					}
				}
			}
		}
		for _, f := range fps {
			cc := *c
			cc.Fault, cc.K = f.kind, f.k
			kind, msg, inconclusive := evalCase(&cc)
			if inconclusive != "" {
				t.Skip(inconclusive)
			}
			ev.Record(chkTxn, badThenGood || dup || f.kind != "", ev.Hash(c.Txns, c.Via, c.Chunks, f), "fault:"+f.kind, "via:"+c.Via)
			ev.SampleFn(chkTxn, func() interface{} {
				return map[string]interface{}{"txns": kinds(c), "via": c.Via, "chunks": c.Chunks, "fault": f.kind, "k": f.k}
			})
			if kind != "" {
				ev.Fail(t, chkTxn, kind, kind, &cc, "%s", msg)
			}
		}
	})
}

// ---- intake --------------------------------------------------------------------------------------------------------

// IntakeStep is one ProcessOperation call.
type IntakeStep struct {
	Request   []byte `json:"request"`
	Kind      string `json:"kind"` // valid-create | valid-update | invalid | deactivated-did | unknown-did
	FailUnpub bool   `json:"failUnpublishedPut,omitempty"`
	FailQueue bool   `json:"failQueueAdd,omitempty"`
}

// IntakeCase is a sequence of calls against a store pre-populated with Seed operations.
type IntakeCase struct {
	Code  uint64        `json:"code"`
	Seed  []hist.CaseOp `json:"seed"`
	Sfx   []string      `json:"seedSuffixes"`
	Steps []IntakeStep  `json:"steps"`
}

type faultyWriter struct {
	adds []*operation.QueuedOperation
	fail bool
}

func (w *faultyWriter) Add(op *operation.QueuedOperation, _ uint64) error {
	if w.fail {
		return errors.New("injected queue failure")
	}
	w.adds = append(w.adds, op)
	return nil
}

func evalIntake(c *IntakeCase) (string, string) {
	p := wire.BaseProtocol()
	p.MultihashAlgorithms = []uint{uint(c.Code)}
	pc := wire.NewClient(wire.Build(p, wire.Deps{}))
	store := wire.NewOpStore()
	for i, o := range c.Seed {
		store.Add(&operation.AnchoredOperation{Type: operation.Type(o.Desc.Type), UniqueSuffix: c.Sfx[i], OperationRequest: o.Request, TransactionTime: o.Desc.Time, TransactionNumber: o.Desc.Num, CanonicalReference: o.Desc.Ref})
	}
	unpub := wire.NewUnpubStore()
	w := &faultyWriter{}
	types := []operation.Type{operation.TypeCreate, operation.TypeUpdate, operation.TypeRecover, operation.TypeDeactivate}
	h := dochandler.New(ns, nil, pc, w, processor.New("verif", store, pc), wire.DocMetrics{}, dochandler.WithUnpublishedOperationStore(unpub, types))
	wantQueue, wantUnpub := 0, 0
	for i, s := range c.Steps {
		w.fail = s.FailQueue
		if s.FailUnpub {
			unpub.FailPut = func(int) error { return errors.New("injected unpublished-store failure") }
		} else {
			unpub.FailPut = nil
		}
		var err error
		if pn := ev.Catch(func() { _, err = h.ProcessOperation(s.Request, 0) }); pn != "" {
			return "C15/intake-panic", fmt.Sprintf("step %d (%s): ProcessOperation panicked: %s", i, s.Kind, pn)
		}
		if err == nil {
			wantQueue++
			wantUnpub++
			if s.FailQueue || s.FailUnpub {
				return "C15/intake-fault-swallowed", fmt.Sprintf("step %d (%s): ProcessOperation succeeded although a store/queue fault was injected", i, s.Kind)
			}
		}
		if (s.Kind == "invalid" || s.Kind == "deactivated-did" || s.Kind == "unknown-did" || s.Kind == "create-failing-patch") && err == nil {
			return "C15/intake-accepted-bad-request", fmt.Sprintf("step %d: %s request accepted", i, s.Kind)
		}
		if len(w.adds) != wantQueue || unpub.Count() != wantUnpub {
			return "C15/intake-trace", fmt.Sprintf("step %d (%s, error=%v, queue fault %v, unpublished fault %v): queue holds %d operations (model %d), unpublished store %d (model %d)", i, s.Kind, err, s.FailQueue, s.FailUnpub,
				len(w.adds), wantQueue, unpub.Count(), wantUnpub)
		}
	}
	return "", ""
}

func replayIntake(raw json.RawMessage) (string, string) {
	var c IntakeCase
	if err := json.Unmarshal(raw, &c); err != nil {
		return "bad-replay", err.Error()
	}
	return evalIntake(&c)
}

func TestIntakeLeavesNoTrace(t *testing.T) {
	ev.Rule(chkIntake, "rapid: an operation store seeded with 2 active DIDs and 1 deactivated DID; sequences of 1-10 DocumentHandler.ProcessOperation calls over valid creates, valid updates / deactivates for active DIDs, invalid requests (broken JSON, unknown type, bad hash), creates whose patches fail to apply or leave the document empty (refused only after parsing and validation), requests for the deactivated and for an unknown DID, with faults injected at the unpublished-store Put and at the batch-writer Add; oracle: after every call the recording queue and the unpublished store equal the model (only accepted-and-enqueued operations); a faulted call must return an error; non-trivial = a sequence with a refused or faulted call followed by an accepted one")
	ev.Rapid(t, chkIntake, 300, 3000, func(t *rapid.T) {
		code := rapid.SampledFrom([]uint64{asm.SHA256, asm.SHA512}).Draw(t, "hash")
		kt := rapid.SampledFrom(keys.AllTypes).Draw(t, "keyType")
		c := &IntakeCase{Code: code}
		type did struct {
			suffix   string
			upd, rec *keys.Key
		}
		var dids []did
		for i := 0; i < 3; i++ {
			rec, upd := keys.Get(kt, "c15i", 10*i), keys.Get(kt, "c15i", 10*i+1)
			cr := hist.NewCreate(hist.CreateSpec{Name: "create", Code: code, Recovery: rec, Update: upd, Markers: map[string]interface{}{"d": fmt.Sprint(i)}})
			a := cr.At(uint64(10+i), 0, fmt.Sprintf("ref-c%d", i), 0)
			c.Seed, c.Sfx = append(c.Seed, hist.CaseOp{Desc: a.Desc, Request: cr.Request}), append(c.Sfx, cr.Suffix)
			if i == 2 {
				d := hist.NewSigned(hist.SignedSpec{Name: "deactivate", Type: "deactivate", Suffix: cr.Suffix, Code: code, Reveal: rec})
				ad := d.At(50, 0, "ref-d", 0)
				c.Seed, c.Sfx = append(c.Seed, hist.CaseOp{Desc: ad.Desc, Request: d.Request}), append(c.Sfx, cr.Suffix)
			}
			dids = append(dids, did{cr.Suffix, upd, rec})
		}
		n := rapid.IntRange(1, 10).Draw(t, "calls")
		refusedThenAccepted, refused := false, false
		for i := 0; i < n; i++ {
			kind := rapid.SampledFrom([]string{"valid-create", "valid-update", "valid-update", "valid-deactivate", "invalid", "deactivated-did", "unknown-did", "create-failing-patch", "create-empty-document", "create-key-material-mismatch"}).Draw(t, "callKind")
			s := IntakeStep{Kind: kind}
			mk := map[string]interface{}{fmt.Sprintf("m%d", i): "v"}
			switch kind {
			case "valid-create":
				s.Request = hist.NewCreate(hist.CreateSpec{Name: "c", Code: code, Recovery: keys.Get(kt, "c15n", 2*i), Update: keys.Get(kt, "c15n", 2*i+1), Markers: mk}).Request
			case "create-failing-patch":
				// parses and validates, but its patches cannot be applied: intake refuses it (empty document)
				s.Request = hist.NewCreate(hist.CreateSpec{Name: "c", Code: code, Recovery: keys.Get(kt, "c15n", 2*i), Update: keys.Get(kt, "c15n", 2*i+1), Opt: hist.Opt{Delta: refmodel.DeltaFailPatch}}).Request
			case "create-empty-document":
				// valid patches that leave the document empty: intake refuses it
				cr := &asm.Create{Code: code, RecoveryCommit: asm.Commit(keys.Get(kt, "c15n", 2*i), code),
					Delta: asm.Delta(asm.Commit(keys.Get(kt, "c15n", 2*i+1), code), []interface{}{map[string]interface{}{"action": "remove-public-keys", "ids": []interface{}{"k1"}}})}
				s.Request = cr.Bytes()
			case "create-key-material-mismatch":
				// a key whose type demands other key material than its JWK holds (an Ed25519 verification key with a
				// P-256 or a 3-byte OKP JWK): whether intake refuses it or accepts it, it must not do both
				jwk := rapid.SampledFrom([]interface{}{
					map[string]interface{}{"kty": "EC", "crv": "P-256", "x": "urgvYcEe6u3JFGEdiXafvK8jwdJB52aOHBVQef3MFOk", "y": "UUJv4kE49CaRoSvgi9QI7V5J1pSqIUKWGoyPHEZ400s"},
					map[string]interface{}{"kty": "OKP", "crv": "Ed25519", "x": "AAAA"},
				}).Draw(t, "foreignJwk")
				key := map[string]interface{}{"id": "k1", "type": rapid.SampledFrom([]string{"Ed25519VerificationKey2018", "Ed25519VerificationKey2020"}).Draw(t, "edType"), "purposes": []interface{}{"authentication"}, "publicKeyJwk": jwk}
				cr := &asm.Create{Code: code, RecoveryCommit: asm.Commit(keys.Get(kt, "c15n", 2*i), code),
					Delta: asm.Delta(asm.Commit(keys.Get(kt, "c15n", 2*i+1), code), []interface{}{map[string]interface{}{"action": "add-public-keys", "publicKeys": []interface{}{key}}})}
				s.Request = cr.Bytes()
			case "valid-update":
				d := dids[rapid.IntRange(0, 1).Draw(t, "did")]
				s.Request = hist.NewSigned(hist.SignedSpec{Name: "u", Type: "update", Suffix: d.suffix, Code: code, Reveal: d.upd, NextUpd: keys.Get(kt, "c15n", 100+i), Markers: mk}).Request
			case "valid-deactivate":
				d := dids[rapid.IntRange(0, 1).Draw(t, "did")]
				s.Request = hist.NewSigned(hist.SignedSpec{Name: "d", Type: "deactivate", Suffix: d.suffix, Code: code, Reveal: d.rec}).Request
			case "invalid":
				s.Request = []byte(rapid.SampledFrom([]string{"{", `{"type":"frobnicate"}`, `{"type":"update","didSuffix":"x","revealValue":"AAAA","signedData":"a.b.c"}`, `{"type":"create","suffixData":{"deltaHash":"x","recoveryCommitment":"y"},"delta":{"patches":[]}}`, ""}).Draw(t, "invalid"))
			case "deactivated-did":
				s.Request = hist.NewSigned(hist.SignedSpec{Name: "u", Type: "update", Suffix: dids[2].suffix, Code: code, Reveal: dids[2].upd, NextUpd: keys.Get(kt, "c15n", 200+i), Markers: mk}).Request
			default:
				s.Request = hist.NewSigned(hist.SignedSpec{Name: "u", Type: "update", Suffix: asm.Multihash(code, []byte("unknown did")), Code: code, Reveal: dids[0].upd, NextUpd: keys.Get(kt, "c15n", 300+i), Markers: mk}).Request
			}
			switch rapid.IntRange(0, 5).Draw(t, "fault") {
			case 0:
				s.FailQueue = true
			case 1:
				s.FailUnpub = true
			}
			bad := s.FailQueue || s.FailUnpub || kind == "invalid" || kind == "deactivated-did" || kind == "unknown-did" || kind == "create-failing-patch" || kind == "create-empty-document" || kind == "create-key-material-mismatch"
			if refused && !bad {
				refusedThenAccepted = true
			}
			refused = refused || bad
			c.Steps = append(c.Steps, s)
		}
		kind, msg := evalIntake(c)
		ev.Record(chkIntake, refusedThenAccepted, ev.Hash(c), fmt.Sprintf("calls:%d", n))
		ev.SampleFn(chkIntake, func() interface{} {
			var l []string
			for _, s := range c.Steps {
				l = append(l, fmt.Sprintf("%s queueFault=%v unpubFault=%v", s.Kind, s.FailQueue, s.FailUnpub))
			}
			return l
		})
		if kind != "" {
			ev.Fail(t, chkIntake, kind, kind, c, "%s", msg)
		}
	})
}
