// Package c05 decides property C05: a signed operation takes effect only inside its signed anchoring
// window [anchorFrom, anchorUntil], a missing anchorUntil defaults to anchorFrom + MaxOperationTimeDelta, the
// same effective window is handed to the intake time validator, and no other parameter matters.
package c05

import (
	"encoding/json"
	"fmt"
	"math"
	"math/big"
	"testing"

	"github.com/trustbloc/sidetree-core-go/pkg/api/protocol"
	"github.com/trustbloc/sidetree-core-go/pkg/versions/1_0/operationparser"
	"pgregory.net/rapid"

	"verifharness/kit/asm"
	"verifharness/kit/ev"
	"verifharness/kit/hist"
	"verifharness/kit/keys"
	"verifharness/kit/refmodel"
	"verifharness/kit/res"
	"verifharness/kit/wire"
)

func TestMain(m *testing.M) { ev.Main(m, "C05") }

const (
	chkSweep  = "boundary-sweep"
	chkIntake = "intake-time-validator"
	chkRapid  = "rapid-triples"
)

// Params are the protocol parameters varied independently.
type Params struct {
	TimeDelta     uint64 `json:"maxOperationTimeDelta"`
	DeltaSize     uint   `json:"maxDeltaSize"`
	OperationSize uint   `json:"maxOperationSize"`
	HashLength    uint   `json:"maxOperationHashLength"`
	NonceSize     uint64 `json:"nonceSize"`
	OpCount       uint   `json:"maxOperationCount"`
}

func (p Params) protocol(code uint64) protocol.Protocol {
	b := wire.BaseProtocol()
	b.MultihashAlgorithms = []uint{uint(code)}
	b.MaxOperationTimeDelta = p.TimeDelta
	b.MaxDeltaSize = p.DeltaSize
	b.MaxOperationSize = p.OperationSize
	b.MaxOperationHashLength = p.HashLength
	b.NonceSize = p.NonceSize
	b.MaxOperationCount = p.OpCount
	return b
}

func baseParams() Params {
	b := wire.BaseProtocol()
	return Params{TimeDelta: b.MaxOperationTimeDelta, DeltaSize: b.MaxDeltaSize, OperationSize: b.MaxOperationSize, HashLength: b.MaxOperationHashLength, NonceSize: b.NonceSize, OpCount: b.MaxOperationCount}
}

// Case: create at time 10, then one signed operation of Type with window (From, Until) anchored at T.
type Case struct {
	Type    string `json:"type"`
	KeyType int    `json:"keyType"`
	Code    uint64 `json:"code"`
	From    int64  `json:"from"`
	Until   int64  `json:"until"`
	T       uint64 `json:"t"`
	P       Params `json:"params"`
	// Alt, if set, is a second configuration differing from P in unrelated parameters only
	Alt *Params `json:"alt,omitempty"`
	// V2Delta != 0: a second protocol version with genesis V2Genesis (> 0) and that maximum operation time delta is in
	// force next to the first one (genesis 0, P); StampV2 says under which of the two the operation was accepted
	// (its protocol-version stamp) - that version's delta governs a missing anchorUntil, whatever the anchoring time
	V2Delta   uint64 `json:"v2TimeDelta,omitempty"`
	V2Genesis uint64 `json:"v2Genesis,omitempty"`
	StampV2   bool   `json:"stampV2,omitempty"`
	// CreateOrigin / OpOrigin: anchor origins declared by the create and (for a recover) by the operation; an
	// out-of-window recover still consumes its commitment whatever origin it names
	CreateOrigin interface{} `json:"createOrigin,omitempty"`
	OpOrigin     interface{} `json:"opOrigin,omitempty"`
}

// delta is the maximum operation time delta that governs the case's operation.
func (c *Case) delta() uint64 {
	if c.V2Delta != 0 && c.StampV2 {
		return c.V2Delta
	}
	return c.P.TimeDelta
}

func init() {
	ev.RegisterReplay(chkSweep, replay)
	ev.RegisterReplay(chkRapid, replay)
	ev.RegisterReplay(chkIntake, replayIntake)
	ev.Assume("anchoring times and time deltas may be any uint64, signed window bounds any integer that JSON carries exactly (|x| <= 2^53, pre-epoch ones included); the reference evaluates the window predicate in unbounded integers")
}

// TestReplay runs first.
func TestReplay(t *testing.T) { ev.ReplayMain(t) }

func js(v interface{}) string {
	b, _ := json.Marshal(v)
	return string(b)
}

func replay(raw json.RawMessage) (string, string) {
	var c Case
	if err := json.Unmarshal(raw, &c); err != nil {
		return "bad-replay", err.Error()
	}
	k, _, m := evalCase(&c)
	return k, m
}

func build(c *Case) (string, []*hist.Anchored) {
	kt := keys.Type(c.KeyType)
	k := func(i int) *keys.Key { return keys.Get(kt, "c05", i) }
	cr := hist.NewCreate(hist.CreateSpec{Name: "create", Code: c.Code, Recovery: k(0), Update: k(1), Markers: map[string]interface{}{"c": "0"}, Opt: hist.Opt{AnchorOrigin: c.CreateOrigin}})
	spec := hist.SignedSpec{Name: c.Type, Type: c.Type, Suffix: cr.Suffix, Code: c.Code, Markers: map[string]interface{}{"w": "applied"}, Opt: hist.Opt{From: c.From, Until: c.Until}}
	if c.Type == "recover" {
		spec.Opt.AnchorOrigin = c.OpOrigin
	}
	switch c.Type {
	case "update":
		spec.Reveal, spec.NextUpd = k(1), k(2)
	case "recover":
		spec.Reveal, spec.NextUpd, spec.NextRec = k(0), k(3), k(4)
	default:
		spec.Reveal = k(0)
	}
	op := hist.NewSigned(spec)
	createTime := uint64(1)
	if c.T <= 1 {
		createTime = 0
	}
	pv := uint64(0)
	if c.V2Delta != 0 && c.StampV2 {
		pv = c.V2Genesis
	}
	return cr.Suffix, []*hist.Anchored{cr.At(createTime, 0, "ref-c", 0), op.At(c.T, 5, "ref-op", pv)}
}

func resolveUnder(c *Case, p Params, suffix string, h []*hist.Anchored) *res.Outcome {
	pc := wire.NewClient(wire.Build(p.protocol(c.Code), wire.Deps{}))
	if c.V2Delta != 0 {
		p2 := p.protocol(c.Code)
		p2.GenesisTime, p2.MaxOperationTimeDelta = c.V2Genesis, c.V2Delta
		pc = wire.NewClient(wire.Build(p.protocol(c.Code), wire.Deps{}), wire.Build(p2, wire.Deps{}))
	}
	_, ops := hist.Split(h)
	return res.Resolve(pc, suffix, ops, nil)
}

// evalCase checks the per-type effect against the statement's window predicate, and (if Alt is set) that an
// unrelated parameter change leaves the outcome unchanged.
func evalCase(c *Case) (kind, sig, msg string) {
	suffix, h := build(c)
	got := resolveUnder(c, c.P, suffix, h)
	if got.Panic != "" {
		return "C05/panic", "panic", got.Panic
	}
	ds, _ := hist.Split(h)
	m := refmodel.Resolve(ds, refmodel.Params{MaxTimeDelta: c.delta()})
	in := refmodel.InWindow(c.From, c.Until, c.T, c.delta())
	if v, _ := res.VsModel(got, m); len(v) > 0 {
		return "C05/window-effect", "window-effect/" + c.Type, fmt.Sprintf("%s with window (from=%d, until=%d) anchored at %d under maxOperationTimeDelta=%d (in window: %v; second version: genesis %d delta %d, stamped with it: %v) resolves differently from the statement on %v: implementation=%s expected=%s; params=%s",
			c.Type, c.From, c.Until, c.T, c.delta(), in, c.V2Genesis, c.V2Delta, c.StampV2, v, js(got), js(m), js(c.P))
	}
	if c.Alt != nil {
		alt := resolveUnder(c, *c.Alt, suffix, h)
		if d := res.SameState(got, alt); len(d) > 0 {
			return "C05/parameter-bleed", "parameter-bleed/" + c.Type, fmt.Sprintf("%s with window (from=%d, until=%d) anchored at %d: outcome changes on %v when only unrelated parameters change (%s -> %s): %s vs %s",
				c.Type, c.From, c.Until, c.T, d, js(c.P), js(*c.Alt), js(got), js(alt))
		}
	}
	return "", "", ""
}

func min64(a, b int64) int64 {
	if a < b {
		return a
	}
	return b
}

var types = []string{"update", "recover", "deactivate"}

func nearBoundary(c *Case) bool {
	if c.From == 0 && c.Until == 0 {
		return c.Alt != nil
	}
	eff := c.Until
	if eff == 0 {
		eff = c.From + int64(c.delta())
	}
	d := func(a, b int64) int64 {
		if a > b {
			return a - b
		}
		return b - a
	}
	return d(int64(c.T), c.From) <= 1 || d(int64(c.T), eff) <= 1 || c.Alt != nil
}

// altConfigs returns configurations that differ from p in exactly one unrelated parameter.
func altConfigs(p Params) []Params {
	var out []Params
	a := p
	a.DeltaSize = p.DeltaSize + 4001
	out = append(out, a)
	a = p
	a.OperationSize = p.OperationSize + 3001
	out = append(out, a)
	a = p
	a.HashLength = p.HashLength + 37
	out = append(out, a)
	a = p
	a.NonceSize = p.NonceSize + 8
	out = append(out, a)
	a = p
	a.OpCount = p.OpCount + 13
	out = append(out, a)
	return out
}

func TestBoundarySweep(t *testing.T) {
	ev.Rule(chkSweep, "deterministic sweep: type in {update, recover, deactivate} x window in {(0,0), (a,0), (a,u), (0,u)} x anchoring time in {a-1, a, a+1, e-1, e, e+1} (e = effective until) x maxOperationTimeDelta in 5 pairwise distinct values (none equal to any other parameter) x {base configuration, 5 configurations differing in exactly one unrelated parameter: maxDeltaSize, maxOperationSize, maxOperationHashLength, nonceSize, maxOperationCount} x 2 key types; recovers additionally with an anchor origin that differs from the create's (or where the create names none); oracle: per-type effect from the statement's window predicate (via kit/refmodel) and outcome identical across unrelated configurations; non-trivial = anchoring time within 1 of a window boundary or a configuration pair")
	const a, u = int64(100000), int64(150000)
	deltas := []uint64{1, 61, 7207, 30011, 86413}
	item := 0
	for _, kt := range []keys.Type{keys.Ed25519, keys.P256} {
		for _, typ := range types {
			for _, delta := range deltas {
				for _, w := range [][2]int64{{0, 0}, {a, 0}, {a, u}, {0, u}, {u, a}, {a, a}, {a, a - 1}} {
					p := baseParams()
					p.TimeDelta = delta
					eff := w[1]
					if w[0] != 0 && w[1] == 0 {
						eff = w[0] + int64(delta)
					}
					tset := map[uint64]bool{}
					for _, d := range []int64{-1, 0, 1} {
						if w[0] != 0 {
							tset[uint64(w[0]+d)] = true
						}
						if eff != 0 {
							tset[uint64(eff+d)] = true
						}
					}
					if len(tset) == 0 {
						tset[50] = true
						tset[uint64(a)] = true
					}
					for tm := range tset {
						cfgs := append([]*Params{nil}, func() []*Params {
							var o []*Params
							for _, ac := range altConfigs(p) {
								ac := ac
								o = append(o, &ac)
							}
							return o
						}()...)
						origins := [][2]interface{}{{nil, nil}}
						if typ == "recover" {
							origins = append(origins, [2]interface{}{"origin-a", "origin-b"}, [2]interface{}{nil, "origin-b"})
						}
						for ci, alt := range cfgs {
							for oi, org := range origins {
								if oi > 0 && ci > 1 {
									continue // origin variants under the base configuration and one alternative only
								}
								item++
								if !ev.Mine(item) {
									continue
								}
								c := &Case{Type: typ, KeyType: int(kt), Code: asm.SHA256, From: w[0], Until: w[1], T: tm, P: p, Alt: alt, CreateOrigin: org[0], OpOrigin: org[1]}
								kind, sig, msg := evalCase(c)
								ev.Record(chkSweep, nearBoundary(c), ev.Hash(c), "type:"+typ, fmt.Sprintf("window:from=%v,until=%v", w[0] != 0, w[1] != 0), fmt.Sprintf("in-window:%v", refmodel.InWindow(c.From, c.Until, c.T, delta)))
								ev.SampleFn(chkSweep, func() interface{} { return c })
								if kind != "" {
									ev.Fail(t, chkSweep, kind, sig, c, "%s", msg)
								}
							}
						}
					}
				}
			}
		}
	}
	ev.Exhaustive(chkSweep)
}

func TestRapidTriples(t *testing.T) {
	ev.Rule(chkRapid, "rapid: (anchorFrom, anchorUntil, anchoring time) triples drawn around the boundaries (incl. empty windows: anchorUntil before anchorFrom) with drawn maxOperationTimeDelta and drawn unrelated parameters (pairwise distinct), all 5 key types and both hash algorithms; in one case of three a second protocol version with another delta is in force (genesis at or just after the anchoring time) and the operation is stamped with either version - the stamped version's delta governs; in one case of five the far ends of the ranges (anchoring time up to 2^64-1, bounds up to +-2^53 (the largest integers JSON carries exactly), delta up to 2^64-1); in one case of three create and recover name drawn (equal, different, absent, object-valued) anchor origins; same oracle")
	ev.Rapid(t, chkRapid, 600, 6000, func(t *rapid.T) {
		p := baseParams()
		p.TimeDelta = uint64(rapid.IntRange(1, 200000).Draw(t, "timeDelta"))
		p.DeltaSize = uint(rapid.IntRange(2000, 40000).Draw(t, "deltaSize"))
		p.OperationSize = p.DeltaSize + uint(rapid.IntRange(4000, 20000).Draw(t, "opSizeExtra"))
		p.HashLength = uint(rapid.IntRange(100, 200).Draw(t, "hashLength"))
		from := int64(rapid.SampledFrom([]int{0, 0, 1000, 50000, 1 << 40, -10, -(1 << 40)}).Draw(t, "from")) // pre-epoch bounds are legal int64 values
		until := int64(0)
		if rapid.Bool().Draw(t, "hasUntil") {
			until = from + int64(rapid.IntRange(1, 300000).Draw(t, "untilOffset"))
			if rapid.IntRange(0, 9).Draw(t, "preEpochUntil") == 0 {
				until = -int64(rapid.IntRange(1, 100000).Draw(t, "negUntil")) // expired before the epoch
			} else if from > 1 && rapid.IntRange(0, 4).Draw(t, "emptyWindow") == 0 {
				// an empty window (anchorUntil before anchorFrom): no anchoring time is inside it
				until = from - int64(rapid.IntRange(1, int(min64(from-1, 5000))).Draw(t, "untilBefore"))
			}
		}
		eff := until
		if from != 0 && until == 0 {
			eff = from + int64(p.TimeDelta)
		}
		anchorPoints := []int64{5, from, eff, from + int64(p.DeltaSize), from + int64(p.OperationSize), from + int64(p.TimeDelta)}
		tm := rapid.SampledFrom(anchorPoints).Draw(t, "anchorBase") + int64(rapid.IntRange(-2, 2).Draw(t, "anchorOffset"))
		if tm < 0 {
			tm = 0
		}
		c := &Case{Type: rapid.SampledFrom(types).Draw(t, "type"), KeyType: int(rapid.SampledFrom(keys.AllTypes).Draw(t, "keyType")),
			Code: rapid.SampledFrom([]uint64{asm.SHA256, asm.SHA512}).Draw(t, "hash"), From: from, Until: until, T: uint64(tm), P: p}
		if rapid.IntRange(0, 4).Draw(t, "extremeValues") == 0 {
			// the far ends of the value ranges: anchoring times up to 2^64-1, window bounds up to +-2^53 (JSON numbers are doubles), time deltas up to
			// 2^64-1 - the window predicate is a statement about integers, not about 64-bit arithmetic
			c.T = rapid.SampledFrom([]uint64{1<<63 - 1, 1 << 63, 1<<63 + 1, 1<<64 - 50, 1<<64 - 1, 2000, 1 << 62}).Draw(t, "extremeTime")
			c.From = rapid.SampledFrom([]int64{-100, -(1 << 53), 1<<53 - 11, 1 << 53, 1700000000, 0, -5}).Draw(t, "extremeFrom")
			c.Until = rapid.SampledFrom([]int64{0, 0, -1, -50, 1 << 53, 5, -(1 << 53)}).Draw(t, "extremeUntil")
			c.P.TimeDelta = rapid.SampledFrom([]uint64{600, 1<<63 - 1, 1 << 63, 1<<64 - 1, 1<<63 + 5}).Draw(t, "extremeDelta")
		}
		if rapid.IntRange(0, 2).Draw(t, "origins") == 0 {
			org := []interface{}{nil, "origin-a", "origin-b", map[string]interface{}{"o": "c"}}
			c.CreateOrigin = rapid.SampledFrom(org).Draw(t, "createOrigin")
			c.OpOrigin = rapid.SampledFrom(org).Draw(t, "opOrigin")
		}
		if rapid.Bool().Draw(t, "withAlt") {
			alt := rapid.SampledFrom(altConfigs(c.P)).Draw(t, "alt")
			c.Alt = &alt
		}
		if rapid.IntRange(0, 2).Draw(t, "secondVersion") == 0 {
			// a second protocol version with another delta; its genesis lies at or just after the anchoring time, and
			// the operation carries the stamp of either version
			c.V2Delta = uint64(rapid.IntRange(1, 200000).Draw(t, "v2TimeDelta"))
			c.V2Genesis = c.T + uint64(rapid.IntRange(0, 1).Draw(t, "v2GenesisAfter"))
			if c.V2Genesis == 0 {
				c.V2Genesis = 1
			}
			c.StampV2 = rapid.Bool().Draw(t, "stampV2")
			if rapid.Bool().Draw(t, "anchorAtV2Boundary") {
				// move the anchoring time to the boundary of the window that the governing version defines
				if from != 0 && until == 0 {
					nt := from + int64(c.delta()) + int64(rapid.IntRange(-1, 1).Draw(t, "v2AnchorOffset"))
					if nt > 0 {
						c.T = uint64(nt)
						c.V2Genesis = c.T + uint64(rapid.IntRange(0, 1).Draw(t, "v2GenesisAfter2"))
					}
				}
			}
		}
		kind, sig, msg := evalCase(c)
		ev.Record(chkRapid, nearBoundary(c), ev.Hash(c), "type:"+c.Type, fmt.Sprintf("in-window:%v", refmodel.InWindow(c.From, c.Until, c.T, c.delta())), fmt.Sprintf("two-versions:%v", c.V2Delta != 0))
		ev.SampleFn(chkRapid, func() interface{} { return c })
		if kind != "" {
			ev.Fail(t, chkRapid, kind, sig, c, "%s", msg)
		}
	})
}

// ---- intake: the time validator receives (anchorFrom, effective anchorUntil) -------------------------

type recValidator struct {
	calls [][2]int64
}

func (r *recValidator) Validate(from, until int64) error {
	r.calls = append(r.calls, [2]int64{from, until})
	return nil
}

type intakeParser struct {
	rv *recValidator
	p  *operationparser.Parser
}

var intakeParsers = map[string]*intakeParser{}

func evalIntake(c *Case) (kind, sig, msg string) {
	_, h := build(c)
	// one long-lived parser (and its recording validator) per protocol configuration, as on a real node
	pk := js(c.P) + fmt.Sprint(c.Code)
	ip, ok := intakeParsers[pk]
	if !ok {
		if len(intakeParsers) > 256 {
			intakeParsers = map[string]*intakeParser{}
		}
		v := &recValidator{}
		ip = &intakeParser{rv: v, p: operationparser.New(c.P.protocol(c.Code), operationparser.WithAnchorTimeValidator(v))}
		intakeParsers[pk] = ip
	}
	rv, parser := ip.rv, ip.p
	rv.calls = nil
	var err error
	pn := ev.Catch(func() { _, err = parser.Parse("did:sidetree", h[1].Op.OperationRequest) })
	if pn != "" {
		return "C05/intake-panic", "intake-panic", pn
	}
	if err != nil {
		return "C05/intake-rejected", "intake-rejected", fmt.Sprintf("valid %s request with window (from=%d, until=%d) rejected at intake: %v", c.Type, c.From, c.Until, err)
	}
	eff := c.Until
	if c.From != 0 && c.Until == 0 {
		// anchorFrom + delta in unbounded integers; the validator takes a signed 64-bit value, so a sum beyond its range
		// can only be handed over as the largest one (which keeps the verdict "not yet expired" for every clock)
		sum := new(big.Int).Add(big.NewInt(c.From), new(big.Int).SetUint64(c.P.TimeDelta))
		if sum.IsInt64() {
			eff = sum.Int64()
		} else {
			eff = math.MaxInt64
		}
	}
	want := [2]int64{c.From, eff}
	if len(rv.calls) != 1 || rv.calls[0] != want {
		return "C05/intake-window", "intake-window/" + c.Type, fmt.Sprintf("intake handed %v to the time validator for a %s with signed window (from=%d, until=%d) under maxOperationTimeDelta=%d; want exactly one call with %v; params=%s",
			rv.calls, c.Type, c.From, c.Until, c.P.TimeDelta, want, js(c.P))
	}
	return "", "", ""
}

func replayIntake(raw json.RawMessage) (string, string) {
	var c Case
	if err := json.Unmarshal(raw, &c); err != nil {
		return "bad-replay", err.Error()
	}
	k, _, m := evalIntake(&c)
	return k, m
}

func TestIntakeTimeValidator(t *testing.T) {
	ev.Rule(chkIntake, "deterministic sweep: type x window shape {(0,0),(a,0),(a,u),(0,u),(u,a) empty,(a,a),(a,a-1) empty} x 5 maxOperationTimeDelta values x {base, 5 single-parameter variations} x 5 key types, plus deltas 2^63-1, 2^63, 2^64-1 and bounds -a, 2^53-11 under the base configuration (a sum beyond the signed 64-bit range must arrive as the largest value); a recording TimeValidator installed with WithAnchorTimeValidator must receive exactly (anchorFrom, effective anchorUntil); non-trivial = anchorUntil defaulted (from set, until missing)")
	const a, u = int64(100000), int64(150000)
	item := 0
	for _, kt := range keys.AllTypes {
		for _, typ := range types {
			for _, delta := range []uint64{1, 61, 7207, 30011, 86413, 1<<63 - 1, 1 << 63, 1<<64 - 1} {
				for _, w := range [][2]int64{{0, 0}, {a, 0}, {a, u}, {0, u}, {u, a}, {a, a}, {a, a - 1}, {-a, 0}, {1<<53 - 11, 0}} {
					p := baseParams()
					p.TimeDelta = delta
					cfgs := append([]Params{p}, altConfigs(p)...)
					if delta > 100000 || w[0] < 0 || w[0] > u {
						cfgs = cfgs[:1] // the far ends of the ranges under the base configuration only
					}
					for _, cfg := range cfgs {
						item++
						if !ev.Mine(item) {
							continue
						}
						c := &Case{Type: typ, KeyType: int(kt), Code: asm.SHA256, From: w[0], Until: w[1], T: 20, P: cfg}
						kind, sig, msg := evalIntake(c)
						ev.Record(chkIntake, w[0] != 0 && w[1] == 0, ev.Hash(c), "type:"+typ)
						ev.SampleFn(chkIntake, func() interface{} { return c })
						if kind != "" {
							ev.Fail(t, chkIntake, kind, sig, c, "%s", msg)
						}
					}
				}
			}
		}
	}
	ev.Exhaustive(chkIntake)
}
