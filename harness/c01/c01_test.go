// Package c01 decides property C01: only operations that reveal the key of the commitment in force and are
// validly signed by it change the resolved state; unauthorised operations and later duplicate creates,
// inserted anywhere, leave the resolution result unchanged.
package c01

import (
	"encoding/json"
	"fmt"
	"testing"

	"pgregory.net/rapid"

	"verifharness/kit/asm"
	"verifharness/kit/ev"
	"verifharness/kit/gen"
	"verifharness/kit/hist"
	"verifharness/kit/keys"
	"verifharness/kit/refmodel"
	"verifharness/kit/res"
)

func TestMain(m *testing.M) { ev.Main(m, "C01") }

const (
	chkRapid = "rapid-forgeries"
	chkSweep = "sweep-class-position-keytype"
)

// Case is a legitimate history plus the indexes of the operations that form the unauthorised multiset F.
type Case struct {
	hist.Case
	Forged []int `json:"forged"` // indexes into Ops of unauthorised operations and duplicate creates
}

func init() {
	ev.RegisterReplay(chkRapid, replay)
	ev.RegisterReplay(chkSweep, replay)
	ev.Assume("forgeries are structural (other key, random / foreign-key / bit-flipped / truncated / empty signature, altered signed payload, reveal value not matching the signing key, signed for another DID, signed data removed); the ECDSA twin (r, n-s) of a genuine signature is never generated as a forgery; cryptanalytic forgeries are out of reach")
	ev.Assume("duplicate creates are anchored after the first create's coordinates, as the statement says")
}

// TestReplay runs first.
func TestReplay(t *testing.T) { ev.ReplayMain(t) }

func replay(raw json.RawMessage) (string, string) {
	var c Case
	if err := json.Unmarshal(raw, &c); err != nil {
		return "bad-replay", err.Error()
	}
	k, _, m := evalCase(&c)
	return k, m
}

func js(v interface{}) string {
	b, _ := json.Marshal(v)
	return string(b)
}

// evalCase: Resolve(H u F) must equal Resolve(H) on the whole resolved state.
func evalCase(c *Case) (kind, sig, msg string) {
	pc := c.Client()
	pub, unpub := c.Stores()
	with := res.Resolve(pc, c.Suffix, pub, unpub)
	if with.Panic != "" {
		return "C01/panic", "panic", "Resolve panicked with unauthorised operations present: " + with.Panic
	}
	forged := map[int]bool{}
	for _, i := range c.Forged {
		forged[i] = true
	}
	legit := c.Case
	legit.Ops = nil
	legit.StoreOrder, legit.UnpubOrder = nil, nil
	for i, o := range c.Ops {
		if !forged[i] {
			legit.Ops = append(legit.Ops, o)
		}
	}
	lp, lu := legit.Stores()
	without := res.Resolve(pc, c.Suffix, lp, lu)
	if d := res.SameState(with, without); len(d) > 0 {
		var names []string
		for _, i := range c.Forged {
			names = append(names, c.Ops[i].Desc.Name)
		}
		return "C01/forgery-changed-state", "forgery-changed-state", fmt.Sprintf("adding unauthorised operations / duplicate creates %v changed the resolution result on %v: with=%s without=%s", names, d, js(with), js(without))
	}
	return "", "", ""
}

// tried counts forged operations that are actually candidates for a commitment that is in force at some
// point of the legitimate history (or are duplicate creates).
func tried(c *Case) int {
	inForce := map[string]bool{}
	forged := map[int]bool{}
	for _, i := range c.Forged {
		forged[i] = true
	}
	for i, o := range c.Ops {
		if forged[i] {
			continue
		}
		d := o.Desc
		if d.NextUpdate != "" {
			inForce[d.NextUpdate] = true
		}
		if d.NextRecovery != "" {
			inForce[d.NextRecovery] = true
		}
	}
	n := 0
	for _, i := range c.Forged {
		d := c.Ops[i].Desc
		if d.Type == "create" || inForce[d.Consumes] {
			n++
		}
	}
	return n
}

func caseID(c *Case) uint64 {
	var parts []interface{}
	for _, o := range c.Ops {
		parts = append(parts, o.Desc.Name, o.Desc.Time, o.Desc.Num, o.Desc.Published)
	}
	parts = append(parts, c.Code, c.Forged, c.Note)
	return ev.Hash(parts...)
}

func summary(c *Case) interface{} {
	s := c.Case.Summary()
	var names []string
	for _, i := range c.Forged {
		names = append(names, c.Ops[i].Desc.Name)
	}
	s["forged"] = names
	return s
}

func TestRapidForgeries(t *testing.T) {
	ev.Rule(chkRapid, "rapid: a legitimate history (tree-generated: 1 create, up to 12 updates/recovers/deactivates, all 5 key types, both hash algorithms, bad deltas, windows, forks) interleaved with 1-10 unauthorised operations of all forgery classes targeting the commitments of the history, and duplicate creates (same and other delta) anchored after the first create, at drawn coordinates (numbers independent of times, optional unpublished operations); oracle: Resolve(H u F) == Resolve(H) on document, both commitments, deactivated, anchor origin, version id, canonical reference, times, last-operation coordinates; non-trivial = F holds >= 1 operation whose reveal value maps to a commitment in force somewhere in H, or a duplicate create")
	ev.Rapid(t, chkRapid, 500, 5000, func(t *rapid.T) {
		h := gen.Hist(t, gen.HistOpts{MinOps: 2, MaxOps: 14, Forks: true, BadDeltas: true, Windows: true, Forges: true, DupCreates: true, Pool: "c01"})
		anch := gen.Anchor(t, h, gen.AnchorOpts{Unpublished: true, DupAfterOrig: true})
		c := &Case{Case: *hist.NewCase(h.Suffix, h.Code, 0, anch)}
		classes := []string{}
		for i, op := range h.Ops {
			isDupCreate := op.Dup && op.Desc.Type == "create"
			if op.Forge != "" || isDupCreate {
				c.Forged = append(c.Forged, i)
				if op.Forge != "" {
					classes = append(classes, "forge:"+op.Forge, "target:"+op.Desc.Type)
				} else {
					classes = append(classes, "dup-create:"+op.Desc.Delta)
				}
			}
		}
		if len(c.Forged) == 0 {
			t.Skip("no unauthorised operation drawn")
		}
		kind, sig, msg := evalCase(c)
		n := tried(c)
		ev.Record(chkRapid, n > 0, caseID(c), append(classes, fmt.Sprintf("tried:%d", min(n, 4)))...)
		ev.SampleFn(chkRapid, func() interface{} { return summary(c) })
		if kind != "" {
			ev.Fail(t, chkRapid, kind, sig, c, "%s", msg)
		}
	})
}

// TestSweep: a fixed chain (create, update, recover, update) of every key type; one unauthorised operation
// of every forgery class aimed at every commitment of the chain (and a duplicate create), inserted at every
// anchoring position.
func TestSweep(t *testing.T) {
	ev.Rule(chkSweep, "deterministic sweep: chain create/update/recover/update for each of the 5 key types x both hash algorithms; one unauthorised operation of each forgery class (10 classes) x each target (update on initial / post-update / post-recover commitment, recover and deactivate on initial / post-recover recovery commitment) or a duplicate create (same / other delta), inserted at each of the 5 anchoring positions (before, between, after); oracle as above; every case is non-trivial (the forgery targets a commitment of the chain)")
	item := 0
	for _, code := range []uint64{asm.SHA256, asm.SHA512} {
		for _, kt := range keys.AllTypes {
			k := func(i int) *keys.Key { return keys.Get(kt, "c01-sweep", i) }
			att := keys.Get(kt, "c01-sweep/attacker", 1)
			mk := func(n string) map[string]interface{} { return map[string]interface{}{n: "1"} }
			cr := hist.NewCreate(hist.CreateSpec{Name: "C", Code: code, Recovery: k(0), Update: k(1), Markers: mk("c")})
			s := cr.Suffix
			chain := []*hist.Op{
				cr,
				hist.NewSigned(hist.SignedSpec{Name: "U1", Type: "update", Suffix: s, Code: code, Reveal: k(1), NextUpd: k(2), Markers: mk("u1")}),
				hist.NewSigned(hist.SignedSpec{Name: "R", Type: "recover", Suffix: s, Code: code, Reveal: k(0), NextUpd: k(4), NextRec: k(3), Markers: mk("r")}),
				hist.NewSigned(hist.SignedSpec{Name: "U2", Type: "update", Suffix: s, Code: code, Reveal: k(4), NextUpd: k(5), Markers: mk("u2")}),
			}
			type target struct {
				typ    string
				reveal *keys.Key
			}
			targets := []target{
				{"update", k(1)}, {"update", k(2)}, {"update", k(4)}, {"update", k(5)},
				{"recover", k(0)}, {"recover", k(3)}, {"deactivate", k(0)}, {"deactivate", k(3)},
			}
			var forged []*hist.Op
			for _, tg := range targets {
				cls := append([]string{}, hist.AllForges...)
				if tg.typ == "deactivate" {
					cls = append(cls, hist.ForgeOtherDID)
				}
				for _, f := range cls {
					spec := hist.SignedSpec{Name: "F-" + tg.typ + "-" + tg.reveal.ID(), Type: tg.typ, Suffix: s, Code: code, Reveal: tg.reveal, Markers: mk("pwned"), Opt: hist.Opt{Forge: f, Attacker: att}}
					if tg.typ != "deactivate" {
						spec.NextUpd = keys.Get(kt, "c01-sweep/attacker", 2)
					}
					if tg.typ == "recover" {
						spec.NextRec = keys.Get(kt, "c01-sweep/attacker", 3)
					}
					forged = append(forged, hist.NewSigned(spec))
				}
			}
			dupSame := *cr
			dupSame.Desc.Name = "C/dup"
			dupSame.Dup = true
			forged = append(forged, &dupSame, hist.DupCreateOtherDelta(cr, "C/other-delta", code))
			for _, f := range forged {
				for pos := 0; pos <= len(chain); pos++ {
					if f.Desc.Type == "create" && pos == 0 {
						continue // duplicate creates only after the first create
					}
					item++
					if !ev.Mine(item) {
						continue
					}
					var h []*hist.Anchored
					for i, op := range chain {
						if i == pos {
							h = append(h, f.At(uint64(20+2*i-1), 50, "ref-f", 0))
						}
						h = append(h, op.At(uint64(20+2*i), uint64(40-i), fmt.Sprintf("ref-%d", i), 0))
					}
					if pos == len(chain) {
						h = append(h, f.At(uint64(20+2*pos), 1, "ref-f", 0))
					}
					c := &Case{Case: *hist.NewCase(s, code, 0, h)}
					c.Note = kt.String()
					for i, o := range c.Ops {
						if o.Desc.Ref == "ref-f" {
							c.Forged = []int{i}
						}
					}
					kind, sig, msg := evalCase(c)
					cl := "forge:" + f.Forge
					if f.Forge == "" {
						cl = "dup-create:" + f.Desc.Delta
					}
					ev.Record(chkSweep, true, caseID(c), cl, "keytype:"+kt.String(), fmt.Sprintf("position:%d", pos))
					ev.SampleFn(chkSweep, func() interface{} { return summary(c) })
					if kind != "" {
						ev.Fail(t, chkSweep, kind, sig, c, "%s", msg)
					}
				}
			}
		}
	}
	ev.Exhaustive(chkSweep)
	_ = refmodel.DeltaGood
}
