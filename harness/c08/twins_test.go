package c08

import (
	"encoding/json"
	"fmt"
	"strings"
	"testing"

	"verifharness/kit/asm"
	"verifharness/kit/ev"
	"verifharness/kit/keys"
)

const chkTwins = "case-variant-twin-members"

// TwinCase: two create requests made of the same members, one of which occurs twice under names that differ in
// letter case only; the two requests differ in nothing but the order of those two members.
type TwinCase struct {
	Code uint64 `json:"code"`
	A    []byte `json:"a"`
	B    []byte `json:"b"`
	Note string `json:"note"`
}

func init() { ev.RegisterReplay(chkTwins, replayTwins) }

func evalTwins(c *TwinCase) (string, string) {
	v := parserFor(uint(c.Code))
	oa, ea := v.Parser.Parse(ns, c.A)
	ob, eb := v.Parser.Parse(ns, c.B)
	switch {
	case ea != nil && eb != nil:
		return "", ""
	case (ea == nil) != (eb == nil):
		return "C08/twin-members-order-dependent", fmt.Sprintf("%s: two requests with the same members in another order: one is accepted, the other rejected (%v / %v): %s vs %s", c.Note, ea, eb, ev.Trunc(string(c.A), 300), ev.Trunc(string(c.B), 300))
	case oa.UniqueSuffix != ob.UniqueSuffix:
		return "C08/twin-members-order-dependent", fmt.Sprintf("%s: two requests with the same members in another order get different identifiers %s / %s: %s vs %s", c.Note, oa.UniqueSuffix, ob.UniqueSuffix, ev.Trunc(string(c.A), 300), ev.Trunc(string(c.B), 300))
	}
	return "", ""
}

func replayTwins(raw json.RawMessage) (string, string) {
	var c TwinCase
	if err := json.Unmarshal(raw, &c); err != nil {
		return "bad-replay", err.Error()
	}
	return evalTwins(&c)
}

// TestCaseVariantTwins: member order must not matter, also when an object holds two members whose names differ in
// letter case only (they are different members of the JSON value; a decoder that binds names case-insensitively
// sees them as one and lets the later one win).
func TestCaseVariantTwins(t *testing.T) {
	ev.Rule(chkTwins, "deterministic: create requests (both hash algorithms) in which recoveryCommitment / deltaHash / updateCommitment / anchorOrigin occurs a second time under another letter case (first letter upper case, all upper case, a Unicode case fold) with another value, in both orders of the twin pair; oracle: both orders are rejected, or both are accepted with the same identifier; non-trivial = every case")
	item := 0
	for _, code := range []uint64{asm.SHA256, asm.SHA512} {
		rk, uk, ok2 := keys.Get(keys.P256, "c08tw", 0), keys.Get(keys.P256, "c08tw", 1), keys.Get(keys.P256, "c08tw", 2)
		cr := &asm.Create{Code: code, RecoveryCommit: asm.Commit(rk, code), Delta: asm.Delta(asm.Commit(uk, code), []interface{}{map[string]interface{}{"action": "add-also-known-as", "uris": []interface{}{"https://a.example/1"}}}), AnchorOrigin: "origin-a"}
		canon := string(cr.Bytes())
		other := asm.Commit(ok2, code)
		for _, tw := range []struct{ member, value, altValue string }{
			{"recoveryCommitment", asm.Commit(rk, code), other}, {"updateCommitment", asm.Commit(uk, code), other}, {"anchorOrigin", "origin-a", "origin-b"},
			{"deltaHash", asm.HashModel(code, cr.Delta), other},
		} {
			for _, variant := range []string{strings.ToUpper(tw.member[:1]) + tw.member[1:], strings.ToUpper(tw.member), strings.Replace(tw.member, "s", "ſ", 1), strings.Replace(tw.member, "k", "K", 1)} {
				if variant == tw.member {
					continue
				}
				item++
				if !ev.Mine(item) {
					continue
				}
				genuine := fmt.Sprintf("%q:%q", tw.member, tw.value)
				if !strings.Contains(canon, genuine) {
					t.Fatalf("harness: %s not found in %s", genuine, canon)
				}
				twin := fmt.Sprintf("%q:%q", variant, tw.altValue)
				c := &TwinCase{Code: code, Note: fmt.Sprintf("%s twinned as %s", tw.member, variant),
					A: []byte(strings.Replace(canon, genuine, genuine+","+twin, 1)), B: []byte(strings.Replace(canon, genuine, twin+","+genuine, 1))}
				kind, msg := evalTwins(c)
				ev.Record(chkTwins, true, ev.Hash(c.A), "member:"+tw.member)
				ev.SampleFn(chkTwins, func() interface{} { return map[string]string{"a": ev.Trunc(string(c.A), 200), "note": c.Note} })
				if kind != "" {
					ev.Fail(t, chkTwins, kind, kind, c, "%s", msg)
				}
			}
		}
	}
	ev.Exhaustive(chkTwins)
}
