package c08

import (
	"encoding/json"
	"fmt"
	"strings"
	"testing"

	"github.com/trustbloc/sidetree-core-go/pkg/api/operation"

	"verifharness/kit/asm"
	"verifharness/kit/ev"
	"verifharness/kit/keys"
	"verifharness/kit/refjcs"
	"verifharness/kit/res"
	"verifharness/kit/wire"
)

const chkTwins = "case-variant-twin-members"

// TwinCase: two create requests made of the same members, one of which occurs twice under names that differ in
// letter case only; the two requests differ in nothing but the order of those two members.
type TwinCase struct {
	Code uint64 `json:"code"`
	A    []byte `json:"a"`
	B    []byte `json:"b"`
	Note string `json:"note"`
}

func init() { ev.RegisterReplay(chkTwins, replayTwins) }

func evalTwins(c *TwinCase) (string, string) {
	v := parserFor(uint(c.Code))
	oa, ea := v.Parser.Parse(ns, c.A)
	ob, eb := v.Parser.Parse(ns, c.B)
	switch {
	case ea != nil && eb != nil:
		return "", ""
	case (ea == nil) != (eb == nil):
		return "C08/twin-members-order-dependent", fmt.Sprintf("%s: two requests with the same members in another order: one is accepted, the other rejected (%v / %v): %s vs %s", c.Note, ea, eb, ev.Trunc(string(c.A), 300), ev.Trunc(string(c.B), 300))
	case oa.UniqueSuffix != ob.UniqueSuffix:
		return "C08/twin-members-order-dependent", fmt.Sprintf("%s: two requests with the same members in another order get different identifiers %s / %s: %s vs %s", c.Note, oa.UniqueSuffix, ob.UniqueSuffix, ev.Trunc(string(c.A), 300), ev.Trunc(string(c.B), 300))
	}
	return "", ""
}

func replayTwins(raw json.RawMessage) (string, string) {
	var c TwinCase
	if err := json.Unmarshal(raw, &c); err != nil {
		return "bad-replay", err.Error()
	}
	return evalTwins(&c)
}

// TestCaseVariantTwins: member order must not matter, also when an object holds two members whose names differ in
// letter case only (they are different members of the JSON value; a decoder that binds names case-insensitively
// sees them as one and lets the later one win).
func TestCaseVariantTwins(t *testing.T) {
	ev.Rule(chkTwins, "deterministic: create requests (both hash algorithms) in which recoveryCommitment / deltaHash / updateCommitment / anchorOrigin occurs a second time under another letter case (first letter upper case, all upper case, a Unicode case fold) with another value, in both orders of the twin pair; oracle: both orders are rejected, or both are accepted with the same identifier; non-trivial = every case")
	item := 0
	for _, code := range []uint64{asm.SHA256, asm.SHA512} {
		rk, uk, ok2 := keys.Get(keys.P256, "c08tw", 0), keys.Get(keys.P256, "c08tw", 1), keys.Get(keys.P256, "c08tw", 2)
		cr := &asm.Create{Code: code, RecoveryCommit: asm.Commit(rk, code), Delta: asm.Delta(asm.Commit(uk, code), []interface{}{map[string]interface{}{"action": "add-also-known-as", "uris": []interface{}{"https://a.example/1"}}}), AnchorOrigin: "origin-a"}
		canon := string(cr.Bytes())
		other := asm.Commit(ok2, code)
		for _, tw := range []struct{ member, value, altValue string }{
			{"recoveryCommitment", asm.Commit(rk, code), other}, {"updateCommitment", asm.Commit(uk, code), other}, {"anchorOrigin", "origin-a", "origin-b"},
			{"deltaHash", asm.HashModel(code, cr.Delta), other},
		} {
			for _, variant := range []string{strings.ToUpper(tw.member[:1]) + tw.member[1:], strings.ToUpper(tw.member), strings.Replace(tw.member, "s", "ſ", 1), strings.Replace(tw.member, "k", "K", 1)} {
				if variant == tw.member {
					continue
				}
				item++
				if !ev.Mine(item) {
					continue
				}
				genuine := fmt.Sprintf("%q:%q", tw.member, tw.value)
				if !strings.Contains(canon, genuine) {
					t.Fatalf("harness: %s not found in %s", genuine, canon)
				}
				twin := fmt.Sprintf("%q:%q", variant, tw.altValue)
				c := &TwinCase{Code: code, Note: fmt.Sprintf("%s twinned as %s", tw.member, variant),
					A: []byte(strings.Replace(canon, genuine, genuine+","+twin, 1)), B: []byte(strings.Replace(canon, genuine, twin+","+genuine, 1))}
				kind, msg := evalTwins(c)
				ev.Record(chkTwins, true, ev.Hash(c.A), "member:"+tw.member)
				ev.SampleFn(chkTwins, func() interface{} { return map[string]string{"a": ev.Trunc(string(c.A), 200), "note": c.Note} })
				if kind != "" {
					ev.Fail(t, chkTwins, kind, kind, c, "%s", msg)
				}
			}
		}
	}
	ev.Exhaustive(chkTwins)
}

// ---- twin members inside a revealed key ----------------------------------------------------------------------

const chkKeyTwins = "twin-members-inside-a-revealed-key"

// KeyTwinCase: a DID whose update commitment is derived from the reveal value Reveal; two update requests that reveal
// "the same" JWK - members x, y of one key and X, Y of another, in the two orders - each signed by the key that a
// case-insensitive reader ends up with.
type KeyTwinCase struct {
	Code    uint64    `json:"code"`
	KeyType keys.Type `json:"keyType"`
	Reveal  string    `json:"reveal"` // transmitted | model-first | model-second: which hash the DID commits to
}

func init() { ev.RegisterReplay(chkKeyTwins, replayKeyTwins) }

func evalKeyTwins(c *KeyTwinCase) (string, string) {
	k1, k2 := keys.Get(c.KeyType, "c08kt", 1), keys.Get(c.KeyType, "c08kt", 2)
	j1, j2 := k1.JWKMap(), k2.JWKMap()
	member := func(name string, v interface{}) string { return fmt.Sprintf("%q:%q", name, v) }
	head := member("crv", j1["crv"]) + "," + member("kty", j1["kty"])
	lower := member("x", j1["x"]) + "," + member("y", j1["y"])
	upper := member("X", j2["x"]) + "," + member("Y", j2["y"])
	textA := "{" + head + "," + lower + "," + upper + "}" // a reader that folds case ends up with the second key
	textB := "{" + head + "," + upper + "," + lower + "}" // ... with the first key
	var reveal string
	switch c.Reveal {
	case "transmitted":
		reveal = asm.Multihash(c.Code, refjcsCanon([]byte(textA)))
	case "model-first":
		reveal = asm.Reveal(k1, c.Code)
	default:
		reveal = asm.Reveal(k2, c.Code)
	}
	commitment, ok := asm.CommitFromReveal(reveal)
	if !ok {
		return "harness", "no commitment for " + reveal
	}
	rk := keys.Get(c.KeyType, "c08kt", 0)
	cr := &asm.Create{Code: c.Code, RecoveryCommit: asm.Commit(rk, c.Code), Delta: asm.Delta(commitment, []interface{}{map[string]interface{}{"action": "add-also-known-as", "uris": []interface{}{"https://a.example/created"}}})}
	suffix := cr.Suffix()
	update := func(keyText string, signer *keys.Key, tag string) []byte {
		delta := asm.Delta(asm.Commit(keys.Get(c.KeyType, "c08kt", 9), c.Code), []interface{}{map[string]interface{}{"action": "add-also-known-as", "uris": []interface{}{"https://a.example/" + tag}}})
		payload := []byte(`{"deltaHash":"` + asm.HashModel(c.Code, delta) + `","updateKey":` + keyText + `}`)
		req := map[string]interface{}{"type": "update", "didSuffix": suffix, "revealValue": reveal, "signedData": asm.SignCompact(signer, nil, payload), "delta": delta}
		return asm.BytesOf(req)
	}
	applied := func(req []byte, tag string) (bool, string) {
		v := parserFor(uint(c.Code))
		ops := []*operation.AnchoredOperation{
			{Type: operation.TypeCreate, UniqueSuffix: suffix, OperationRequest: cr.Bytes(), TransactionTime: 10, TransactionNumber: 0, CanonicalReference: "ref-c"},
			{Type: operation.TypeUpdate, UniqueSuffix: suffix, OperationRequest: req, TransactionTime: 11, TransactionNumber: 1, CanonicalReference: "ref-u"},
		}
		got := res.Resolve(wire.NewClient(v), suffix, ops, nil)
		if got.Panic != "" || got.Err != "" {
			return false, got.Panic + got.Err
		}
		aka, _ := got.Doc["alsoKnownAs"].([]interface{})
		for _, u := range aka {
			if u == "https://a.example/"+tag {
				return true, ""
			}
		}
		return false, ""
	}
	okSecond, e1 := applied(update(textA, k2, "second"), "second")
	okFirst, e2 := applied(update(textB, k1, "first"), "first")
	if e1 != "" || e2 != "" {
		return "harness", "resolution failed: " + e1 + " / " + e2
	}
	if okFirst && okSecond {
		return "C08/commitment-opened-by-two-keys", fmt.Sprintf("the update commitment %s (reveal value %s = hash of %s) is opened by two different keys: an update revealing %s signed by key 2 is applied, and so is one revealing %s signed by key 1", commitment, reveal, c.Reveal, textA, textB)
	}
	return "", ""
}

func refjcsCanon(text []byte) []byte {
	v, err := refjcs.Parse(text)
	if err != nil {
		panic(err.Msg)
	}
	out, cerr := refjcs.Canonical(v)
	if cerr != nil {
		panic(cerr)
	}
	return out
}

func replayKeyTwins(raw json.RawMessage) (string, string) {
	var c KeyTwinCase
	if err := json.Unmarshal(raw, &c); err != nil {
		return "bad-replay", err.Error()
	}
	return evalKeyTwins(&c)
}

// TestTwinMembersInsideARevealedKey: a commitment binds one key. A revealed JWK that carries the coordinates of two
// keys under names differing in case only is one JSON value in two member orders (one canonical form, one hash), while
// a reader that folds case sees the first key in one order and the second in the other.
func TestTwinMembersInsideARevealedKey(t *testing.T) {
	ev.Rule(chkKeyTwins, "deterministic: a DID whose update commitment belongs to the reveal value of {crv, kty, x, y of key 1, X, Y of key 2} - taken as the hash of that JSON value, of key 1's model or of key 2's model - and two anchored updates revealing that JWK in the two member orders, each signed by the key a case-folding reader ends up with; 4 EC key types x 2 hash algorithms x 3 reveal values; oracle: one commitment is not opened by two different keys (at most one of the two updates takes effect); every case non-trivial")
	item := 0
	for _, kt := range keys.AllTypes {
		if kt == keys.Ed25519 {
			continue
		}
		for _, code := range []uint64{asm.SHA256, asm.SHA512} {
			for _, rv := range []string{"transmitted", "model-first", "model-second"} {
				item++
				if !ev.Mine(item) {
					continue
				}
				c := &KeyTwinCase{Code: code, KeyType: kt, Reveal: rv}
				kind, msg := evalKeyTwins(c)
				ev.Record(chkKeyTwins, true, ev.Hash(int(kt), code, rv), "reveal:"+rv)
				ev.SampleFn(chkKeyTwins, func() interface{} { return c })
				if kind != "" {
					ev.Fail(t, chkKeyTwins, kind, kind, c, "%s", msg)
				}
			}
		}
	}
	ev.Exhaustive(chkKeyTwins)
}
