// Package c08 decides property C08: identifiers and hashes depend only on the JSON value of the hashed model
// and bind their content; a model is accepted against a multihash exactly when the multihash is the hash of
// its canonical form under the algorithm it names; an unanchored long-form DID resolves only if its initial
// state is canonical, self-certifying and unaltered.
package c08

import (
	"bytes"
	"encoding/json"
	"fmt"
	"github.com/trustbloc/sidetree-core-go/pkg/document"
	"strings"
	"testing"

	"github.com/trustbloc/sidetree-core-go/pkg/api/operation"
	"github.com/trustbloc/sidetree-core-go/pkg/commitment"
	"github.com/trustbloc/sidetree-core-go/pkg/dochandler"
	"github.com/trustbloc/sidetree-core-go/pkg/hashing"
	"github.com/trustbloc/sidetree-core-go/pkg/jws"
	"github.com/trustbloc/sidetree-core-go/pkg/processor"
	"pgregory.net/rapid"

	"verifharness/kit/asm"
	"verifharness/kit/ev"
	"verifharness/kit/gen"
	"verifharness/kit/keys"
	"verifharness/kit/refjcs"
	"verifharness/kit/wire"
)

func TestMain(m *testing.M) { ev.Main(m, "C08") }

const (
	chkInvariance = "reserialization-invariance"
	chkMultihash  = "multihash-acceptance"
	chkLongForm   = "long-form-alterations"
)

const ns = "did:sidetree"

func init() {
	ev.RegisterReplay(chkInvariance, replayInv)
	ev.RegisterReplay(chkMultihash, replayMH)
	ev.RegisterReplay(chkLongForm, replayLF)
	ev.Assume("multihash strings that differ from the canonical base64url spelling only in unused trailing bits are not judged; unknown members dropped by struct decoding are not claimed to change an identifier")
}

// TestReplay runs first.
func TestReplay(t *testing.T) { ev.ReplayMain(t) }

func parserFor(codes ...uint) *wire.Version {
	p := wire.BaseProtocol()
	p.MultihashAlgorithms = codes
	return wire.Build(p, wire.Deps{})
}

type noWriter struct{}

func (noWriter) Add(*operation.QueuedOperation, uint64) error { return nil }

// handlers are long-lived: one document handler (with its processor over an empty, never changing store) per hash
// algorithm for the whole process, as on a real node.
var handlers = map[uint]*dochandler.DocumentHandler{}

func handlerFor(code uint) *dochandler.DocumentHandler {
	if h, ok := handlers[code]; ok {
		return h
	}
	pc := wire.NewClient(parserFor(code))
	proc := processor.New("verif", wire.NewOpStore(), pc)
	handlers[code] = dochandler.New(ns, []string{aliasNS}, pc, noWriter{}, proc, wire.DocMetrics{})
	return handlers[code]
}

// genCreate draws a create request (as asm.Create) with varied suffix data and delta.
func genCreate(t *rapid.T) *asm.Create {
	code := rapid.SampledFrom([]uint64{asm.SHA256, asm.SHA512}).Draw(t, "hash")
	kt := rapid.SampledFrom(keys.AllTypes).Draw(t, "keyType")
	rk, uk := keys.Get(kt, "c08", rapid.IntRange(0, 20).Draw(t, "recKey")), keys.Get(kt, "c08u", rapid.IntRange(0, 20).Draw(t, "updKey"))
	var patches []interface{}
	n := rapid.IntRange(1, 3).Draw(t, "patches")
	for i := 0; i < n; i++ {
		var ops []interface{}
		m := rapid.IntRange(1, 3).Draw(t, "jsonPatchOps")
		for j := 0; j < m; j++ {
			ops = append(ops, map[string]interface{}{"op": "add", "path": "/" + rapid.StringMatching(`[a-z]{1,6}`).Draw(t, "member") + fmt.Sprint(i, j),
				"value": refjcs.ToGo(noNull(gen.JSONValue(t, 2)))})
		}
		patches = append(patches, map[string]interface{}{"action": "ietf-json-patch", "patches": ops})
	}
	if rapid.Bool().Draw(t, "aka") {
		patches = append(patches, map[string]interface{}{"action": "add-also-known-as", "uris": []interface{}{"https://example.com/" + rapid.StringMatching(`[a-z<>&]{0,6}`).Draw(t, "uri")}})
	}
	c := &asm.Create{Code: code, RecoveryCommit: asm.Commit(rk, code), Delta: asm.Delta(asm.Commit(uk, code), patches)}
	switch rapid.IntRange(0, 5).Draw(t, "originKind") {
	case 0:
	case 1:
		c.AnchorOrigin = gen.JSONString(t) + "x"
	case 2:
		c.AnchorOrigin = refjcs.ToGo(gen.JSONObject(t, 2))
	case 3:
		c.AnchorOrigin = refjcs.ToGo(gen.JSONArray(t, 1))
	case 4:
		c.AnchorOrigin = gen.Double(t)
	default:
		c.AnchorOrigin = true
	}
	if rapid.Bool().Draw(t, "didType") {
		c.DIDType = rapid.StringMatching(`[a-z]{1,5}`).Draw(t, "type")
	}
	return c
}

// noNull replaces null values (json-patch engines treat an added null specially; that is C18's subject).
func noNull(v *refjcs.Value) *refjcs.Value {
	switch v.Kind {
	case refjcs.Null:
		return &refjcs.Value{Kind: refjcs.String, Str: "was-null"}
	case refjcs.Array:
		for i := range v.Arr {
			v.Arr[i] = noNull(v.Arr[i])
		}
	case refjcs.Object:
		for i := range v.Obj {
			v.Obj[i].Val = noNull(v.Obj[i].Val)
		}
	}
	return v
}

// ---- (1) identifiers depend only on the JSON value --------------------------------------------------------

// InvCase: a create request in one spelling plus a signing key JWK in one spelling.
type InvCase struct {
	Code        uint64 `json:"code"`
	Request     []byte `json:"request"`     // some spelling of the create request
	Canonical   []byte `json:"canonical"`   // canonical spelling of the same request
	JWK         []byte `json:"jwk"`         // some spelling of a JWK
	JWKCanon    []byte `json:"jwkCanon"`    // canonical spelling of the same JWK
	Model       []byte `json:"model"`       // some spelling of the delta object
	ModelCanon  []byte `json:"modelCanon"`  // canonical spelling of the same delta
	WantSuffix  string `json:"wantSuffix"`  // reference: multihash of JCS(suffix data)
	WantReveal  string `json:"wantReveal"`  // reference reveal value of the JWK
	WantCommit  string `json:"wantCommit"`  // reference commitment of the JWK
	WantModelMH string `json:"wantModelMh"` // reference multihash of the delta
}

func evalInv(c *InvCase) (string, string) {
	v := parserFor(uint(c.Code))
	for _, in := range [][]byte{c.Request, c.Canonical} {
		op, err := v.Parser.Parse(ns, in)
		if err != nil {
			return "C08/valid-create-rejected", fmt.Sprintf("valid create request rejected in spelling %q: %v", ev.Trunc(string(in), 300), err)
		}
		if op.UniqueSuffix != c.WantSuffix {
			return "C08/suffix-depends-on-spelling", fmt.Sprintf("unique suffix %s differs from the hash of the canonical suffix data %s for spelling %q", op.UniqueSuffix, c.WantSuffix, ev.Trunc(string(in), 300))
		}
	}
	// the same request under a protocol version that enables both algorithms with the request's own one in second
	// place: every hash field names its algorithm, so the request stays valid (the suffix is then computed with the
	// version's first algorithm and is not compared here)
	v2 := parserFor(uint(asm.SHA256+asm.SHA512)-uint(c.Code), uint(c.Code))
	for _, in := range [][]byte{c.Request, c.Canonical} {
		if _, err := v2.Parser.Parse(ns, in); err != nil {
			return "C08/valid-create-rejected", fmt.Sprintf("valid create request whose hashes use the second of two enabled algorithms rejected in spelling %q: %v", ev.Trunc(string(in), 300), err)
		}
	}
	for _, in := range [][]byte{c.Model, c.ModelCanon} {
		mh, err := hashing.CalculateModelMultihash(in, uint(c.Code))
		if err != nil || mh != c.WantModelMH {
			return "C08/hash-depends-on-spelling", fmt.Sprintf("CalculateModelMultihash(%q) = %s (%v), want %s", ev.Trunc(string(in), 300), mh, err, c.WantModelMH)
		}
		// as a generic Go value too
		// (not for literals that encoding/json - used here by the harness itself - misreads)
		var g interface{}
		if !hasLongNumber(in) && json.Unmarshal(in, &g) == nil {
			mh2, err2 := hashing.CalculateModelMultihash(g, uint(c.Code))
			if err2 != nil || mh2 != c.WantModelMH {
				return "C08/hash-depends-on-spelling", fmt.Sprintf("CalculateModelMultihash(decoded %q) = %s (%v), want %s", ev.Trunc(string(in), 300), mh2, err2, c.WantModelMH)
			}
		}
		if err := hashing.IsValidModelMultihash(in, c.WantModelMH); err != nil {
			return "C08/valid-model-rejected", fmt.Sprintf("IsValidModelMultihash rejects the right hash for spelling %q: %v", ev.Trunc(string(in), 300), err)
		}
	}
	for _, in := range [][]byte{c.JWK, c.JWKCanon} {
		var k jws.JWK
		if err := json.Unmarshal(in, &k); err != nil {
			return "bad-case", err.Error()
		}
		rv, err := commitment.GetRevealValue(&k, uint(c.Code))
		if err != nil || rv != c.WantReveal {
			return "C08/reveal-depends-on-spelling", fmt.Sprintf("GetRevealValue = %s (%v), want %s for JWK %q", rv, err, c.WantReveal, in)
		}
		cm, err := commitment.GetCommitment(&k, uint(c.Code))
		if err != nil || cm != c.WantCommit {
			return "C08/commitment-depends-on-spelling", fmt.Sprintf("GetCommitment = %s (%v), want %s for JWK %q", cm, err, c.WantCommit, in)
		}
		cm2, err := commitment.GetCommitmentFromRevealValue(rv)
		if err != nil || cm2 != cm {
			return "C08/commitment-reveal-disagree", fmt.Sprintf("GetCommitmentFromRevealValue(GetRevealValue(k)) = %s (%v) but GetCommitment(k) = %s", cm2, err, cm)
		}
	}
	return "", ""
}

func replayInv(raw json.RawMessage) (string, string) {
	var c InvCase
	if err := json.Unmarshal(raw, &c); err != nil {
		return "bad-replay", err.Error()
	}
	return evalInv(&c)
}

func TestReserializationInvariance(t *testing.T) {
	ev.Rule(chkInvariance, "rapid: create requests (both hash algorithms, 5 key types, anchor origins of every JSON type, optional type, json-patch values with arbitrary nested JSON) and signing-key JWKs (with/without nonce), each in a drawn re-serialization (member order, whitespace, escapes, number spelling); oracle: Parse(...).UniqueSuffix, CalculateModelMultihash, GetRevealValue, GetCommitment equal the kit/asm recomputation from the canonical form, and GetCommitment(k) == GetCommitmentFromRevealValue(GetRevealValue(k)); non-trivial = the re-serialization differs from the canonical bytes")
	ev.Rapid(t, chkInvariance, 500, 5000, func(t *rapid.T) {
		cr := genCreate(t)
		ch := gen.RapidChooser{T: t, Label: "spell"}
		reqV := refjcs.FromGo(cr.Request())
		k := keys.Get(rapid.SampledFrom(keys.AllTypes).Draw(t, "jwkType"), "c08k", rapid.IntRange(0, 30).Draw(t, "jwkIndex"))
		if rapid.Bool().Draw(t, "nonce") {
			k = k.WithNonce(16, "n")
		}
		jv := refjcs.FromGo(k.JWKMap())
		c := &InvCase{Code: cr.Code,
			Request: refjcs.Spell(reqV, ch, refjcs.AllSpell), Canonical: cr.Bytes(),
			JWK: refjcs.Spell(jv, ch, refjcs.SpellOpts{Order: true, Whitespace: true, Escapes: true}), JWKCanon: refjcs.MustCanonicalGo(k.JWKMap()),
			Model: refjcs.Spell(refjcs.FromGo(cr.Delta), ch, refjcs.AllSpell), ModelCanon: refjcs.MustCanonicalGo(cr.Delta),
			WantSuffix: cr.Suffix(), WantReveal: asm.Reveal(k, cr.Code), WantCommit: asm.Commit(k, cr.Code), WantModelMH: asm.HashModel(cr.Code, cr.Delta)}
		kind, msg := evalInv(c)
		ev.Record(chkInvariance, !bytes.Equal(c.Request, c.Canonical), ev.Hash(c.Request, c.JWK), "keytype:"+k.Type.String(), fmt.Sprintf("hash:%d", cr.Code))
		ev.SampleFn(chkInvariance, func() interface{} {
			return map[string]string{"request": ev.Trunc(string(c.Request), 240), "jwk": ev.Trunc(string(c.JWK), 160), "suffix": c.WantSuffix}
		})
		if kind != "" {
			sig := kind
			if (kind == "C08/valid-create-rejected" || kind == "C08/suffix-depends-on-spelling") && hasLongNumber(c.Request) {
				// known finding (known-findings.json): the request is decoded with encoding/json, which misreads number
				// literals of more than 800 digits
				sig = "C08/request-number-literal-over-800-digits"
			}
			ev.Fail(t, chkInvariance, kind, sig, c, "%s", msg)
		}
	})
}

// hasLongNumber reports a run of more than 300 characters from the number alphabet.
func hasLongNumber(b []byte) bool {
	run := 0
	for _, c := range b {
		if (c >= '0' && c <= '9') || c == '.' || c == '-' || c == '+' || c == 'e' || c == 'E' {
			run++
			if run > 300 {
				return true
			}
		} else {
			run = 0
		}
	}
	return false
}

// ---- (2) IsValidModelMultihash accepts iff the multihash is the hash of the canonical form ---------------

// MHCase is a (model, multihash) pair with the reference verdict.
type MHCase struct {
	Model  []byte `json:"model"`
	MH     string `json:"multihash"`
	Accept bool   `json:"accept"`
	Note   string `json:"note"`
}

// refAccept: mh decodes to a well-formed multihash naming sha2-256 or sha2-512 whose digest is the hash of the
// canonical form of the model under that algorithm. judged=false when mh is a non-canonical base64 spelling.
func refAccept(model []byte, mh string) (accept, judged bool) {
	raw, err := asm.UnB64(mh)
	if err != nil {
		return false, true
	}
	if asm.B64(raw) != mh {
		return false, false
	}
	code, digest, ok := asm.DecodeMultihash(mh)
	if !ok || (code != asm.SHA256 && code != asm.SHA512) {
		return false, true
	}
	canon, cerr := refjcs.Transform(model)
	if cerr != nil {
		return false, true
	}
	return bytes.Equal(digest, asm.Digest(code, canon)), true
}

func evalMH(c *MHCase) (string, string) {
	var err error
	if p := ev.Catch(func() { err = hashing.IsValidModelMultihash(c.Model, c.MH) }); p != "" {
		return "C08/multihash-panic", p
	}
	if c.Accept && err != nil {
		return "C08/right-multihash-rejected", fmt.Sprintf("IsValidModelMultihash rejected the correct multihash (%s): %v", c.Note, err)
	}
	if !c.Accept && err == nil {
		return "C08/wrong-multihash-accepted", fmt.Sprintf("IsValidModelMultihash accepted a multihash that is not the hash of the model under the algorithm it names (%s): model %q multihash %s", c.Note, ev.Trunc(string(c.Model), 200), c.MH)
	}
	return "", ""
}

func replayMH(raw json.RawMessage) (string, string) {
	var c MHCase
	if err := json.Unmarshal(raw, &c); err != nil {
		return "bad-replay", err.Error()
	}
	return evalMH(&c)
}

func TestMultihashAcceptance(t *testing.T) {
	ev.Rule(chkMultihash, "rapid: a model (drawn JSON object in a drawn spelling) paired with: its hash under sha2-256 / sha2-512; the digest of one algorithm framed under the other's code; every single bit of code, length and digest flipped (drawn position); truncated / extended framing; the hash of a slightly different model; an unsupported code; oracle: independent predicate 'decodes to a well-formed multihash of code 18/19 whose digest == H(JCS(model))'; non-trivial = a wrong multihash")
	ev.Rapid(t, chkMultihash, 1500, 15000, func(t *rapid.T) {
		mv := gen.JSONObject(t, 3)
		model := refjcs.Spell(mv, gen.RapidChooser{T: t, Label: "spell"}, refjcs.AllSpell)
		canon, _ := refjcs.Canonical(mv)
		code := rapid.SampledFrom([]uint64{asm.SHA256, asm.SHA512}).Draw(t, "hash")
		other := asm.SHA256 + asm.SHA512 - code
		good := asm.FrameMultihash(code, asm.Digest(code, canon))
		var raw []byte
		note := rapid.SampledFrom([]string{"correct", "correct", "cross-framed", "bitflip", "truncated", "extended", "other-model", "unsupported-code", "length-lie", "identity-code", "short-digest", "short-digest", "long-digest"}).Draw(t, "variant")
		switch note {
		case "correct":
			raw = good
		case "cross-framed":
			raw = asm.FrameMultihash(code, asm.Digest(other, canon))
		case "bitflip":
			raw = append([]byte{}, good...)
			i := rapid.IntRange(0, len(raw)*8-1).Draw(t, "bit")
			raw[i/8] ^= 1 << (i % 8)
		case "truncated":
			raw = good[:rapid.IntRange(0, len(good)-1).Draw(t, "len")]
		case "extended":
			raw = append(append([]byte{}, good...), byte(rapid.IntRange(0, 255).Draw(t, "extra")))
		case "other-model":
			raw = asm.FrameMultihash(code, asm.Digest(code, append(append([]byte{}, canon...), ' ')))
		case "unsupported-code":
			raw = asm.FrameMultihash(uint64(rapid.SampledFrom([]int{0x11, 0x14, 0x16, 0x1b, 0xb220}).Draw(t, "code")), asm.Digest(code, canon))
		case "length-lie":
			raw = append([]byte{}, good...)
			raw[1] ^= byte(rapid.IntRange(1, 127).Draw(t, "lenXor"))
		case "identity-code":
			raw = asm.FrameMultihash(0, canon)
		case "short-digest":
			// well-formed framing (length field consistent) around a prefix of the right digest
			d := asm.Digest(code, canon)
			raw = asm.FrameMultihash(code, d[:rapid.IntRange(0, len(d)-1).Draw(t, "digestLen")])
		case "long-digest":
			d := asm.Digest(code, canon)
			raw = asm.FrameMultihash(code, append(append([]byte{}, d...), d[:rapid.IntRange(1, 8).Draw(t, "extraLen")]...))
		}
		mh := asm.B64(raw)
		acc, judged := refAccept(model, mh)
		if !judged {
			t.Skip("non-canonical base64")
		}
		c := &MHCase{Model: model, MH: mh, Accept: acc, Note: note}
		kind, msg := evalMH(c)
		ev.Record(chkMultihash, !acc, ev.Hash(model, mh), "variant:"+note, fmt.Sprintf("accept:%v", acc))
		ev.SampleFn(chkMultihash, func() interface{} {
			return map[string]interface{}{"model": ev.Trunc(string(model), 120), "multihash": mh, "accept": acc, "variant": note}
		})
		if kind != "" {
			ev.Fail(t, chkMultihash, kind, kind, c, "%s", msg)
		}
	})
}

// ---- (3) long-form DIDs ------------------------------------------------------------------------------------

// LFCase is a long-form DID with the reference verdict.
type LFCase struct {
	Code    uint64 `json:"code"`
	DID     string `json:"did"`
	Resolve bool   `json:"resolve"`
	Note    string `json:"note"`
	// Warm, if set, is a DID the same long-lived handler resolves first (outcome not judged): the genuine long-form
	// DID the alteration was derived from
	Warm string `json:"warm,omitempty"`
}

func evalLF(c *LFCase) (string, string) {
	h := handlerFor(uint(c.Code))
	var err error
	var rr *document.ResolutionResult
	if c.Warm != "" {
		if p := ev.Catch(func() { _, _ = h.ResolveDocument(c.Warm) }); p != "" {
			return "C08/long-form-panic", "ResolveDocument panicked on " + ev.Trunc(c.Warm, 300) + ": " + p
		}
	}
	if p := ev.Catch(func() { rr, err = h.ResolveDocument(c.DID) }); p != "" {
		return "C08/long-form-panic", "ResolveDocument panicked on " + ev.Trunc(c.DID, 300) + ": " + p
	}
	if c.Resolve && err != nil {
		return "C08/valid-long-form-rejected", fmt.Sprintf("canonical, self-certifying long-form DID does not resolve (%s): %v", c.Note, err)
	}
	if c.Resolve && (rr == nil || rr.Document == nil) {
		return "C08/valid-long-form-rejected", fmt.Sprintf("canonical, self-certifying long-form DID does not resolve (%s): ResolveDocument returned neither a document nor an error", c.Note)
	}
	if !c.Resolve && err == nil {
		return "C08/altered-long-form-resolved", fmt.Sprintf("long-form DID with altered initial state resolved (%s): %s", c.Note, ev.Trunc(c.DID, 400))
	}
	return "", ""
}

func replayLF(raw json.RawMessage) (string, string) {
	var c LFCase
	if err := json.Unmarshal(raw, &c); err != nil {
		return "bad-replay", err.Error()
	}
	return evalLF(&c)
}

// aliasNS is a second namespace the long-lived handlers answer under.
const aliasNS = "did:alias"

const b64alphabet = "ABCDEFGHIJKLMNOPQRSTUVWXYZabcdefghijklmnopqrstuvwxyz0123456789-_"

func TestLongFormAlterations(t *testing.T) {
	ev.Rule(chkLongForm, "rapid: for a drawn create request, the canonical long-form DID (control: must resolve on an empty store) and alterations (one time in two resolved right after the same long-lived handler resolved the genuine DID): a single character of the encoded segment substituted (drawn position and replacement; separately the last character, whose unused trailing bits make several spellings decode to the same bytes), a CR / LF / space / = / tab inserted at a drawn position, a single character of the suffix substituted, one member of suffix data or delta altered / removed / added and re-encoded canonically, the unchanged value in a non-canonical encoding (member order, whitespace, escapes), suffix of another create; one alteration in four additionally carries label / domain hint segments between method and suffix, one in four is asked for under the handler's alias namespace; oracle: resolves iff canonical, suffix == hash(suffix data), delta matches delta hash; non-trivial = an alteration")
	ev.Rapid(t, chkLongForm, 500, 5000, func(t *rapid.T) {
		cr := genCreate(t)
		good := cr.LongForm(ns)
		parts := strings.Split(good, ":")
		seg := parts[len(parts)-1]
		suffix := parts[len(parts)-2]
		init := map[string]interface{}{"suffixData": cr.SuffixData(), "delta": cr.Delta}
		variant := rapid.SampledFrom([]string{"control", "segment-char", "segment-char", "suffix-char", "member-altered", "member-removed", "member-added", "non-canonical", "other-suffix", "segment-truncated", "short-delta-hash", "segment-last-char", "segment-last-char", "segment-insert", "segment-insert"}).Draw(t, "variant")
		c := &LFCase{Code: cr.Code, DID: good, Resolve: true, Note: variant}
		reenc := func(v interface{}) string { return ns + ":" + suffix + ":" + asm.B64(refjcs.MustCanonicalGo(v)) }
		switch variant {
		case "control":
		case "segment-char":
			i := rapid.IntRange(0, len(seg)-1).Draw(t, "pos")
			r := b64alphabet[rapid.IntRange(0, 63).Draw(t, "char")]
			if r == seg[i] {
				r = b64alphabet[(strings.IndexByte(b64alphabet, r)+1)%64]
			}
			c.DID = ns + ":" + suffix + ":" + seg[:i] + string(r) + seg[i+1:]
			c.Resolve = false
		case "segment-last-char":
			// the last character carries unused trailing bits: several characters decode to the same bytes
			r := b64alphabet[rapid.IntRange(0, 63).Draw(t, "char")]
			if r == seg[len(seg)-1] {
				r = b64alphabet[(strings.IndexByte(b64alphabet, r)+1)%64]
			}
			c.DID = ns + ":" + suffix + ":" + seg[:len(seg)-1] + string(r)
			c.Resolve = false
		case "segment-insert":
			// characters a lenient base64 decoder skips or tolerates
			i := rapid.IntRange(0, len(seg)).Draw(t, "pos")
			ins := rapid.SampledFrom([]string{"\r", "\n", "\r\n", " ", "=", "\t"}).Draw(t, "inserted")
			c.DID = ns + ":" + suffix + ":" + seg[:i] + ins + seg[i:]
			c.Resolve = false
		case "segment-truncated":
			c.DID = ns + ":" + suffix + ":" + seg[:rapid.IntRange(1, len(seg)-1).Draw(t, "cut")]
			c.Resolve = false
		case "suffix-char":
			i := rapid.IntRange(0, len(suffix)-1).Draw(t, "pos")
			r := b64alphabet[rapid.IntRange(0, 63).Draw(t, "char")]
			if r == suffix[i] {
				r = b64alphabet[(strings.IndexByte(b64alphabet, r)+1)%64]
			}
			c.DID = ns + ":" + suffix[:i] + string(r) + suffix[i+1:] + ":" + seg
			c.Resolve = false
		case "member-altered":
			switch rapid.IntRange(0, 3).Draw(t, "which") {
			case 0:
				sd := cr.SuffixData()
				sd["recoveryCommitment"] = asm.Commit(keys.Get(keys.P256, "c08alt", 1), cr.Code)
				init["suffixData"] = sd
			case 1:
				d := asm.Delta(asm.Commit(keys.Get(keys.P256, "c08alt", 2), cr.Code), cr.Delta["patches"].([]interface{}))
				init["delta"] = d
			case 2:
				sd := cr.SuffixData()
				sd["anchorOrigin"] = "altered-origin"
				init["suffixData"] = sd
			default:
				ps := append([]interface{}{}, cr.Delta["patches"].([]interface{})...)
				ps = append(ps, map[string]interface{}{"action": "add-also-known-as", "uris": []interface{}{"https://attacker.example"}})
				init["delta"] = asm.Delta(cr.Delta["updateCommitment"].(string), ps)
			}
			c.DID, c.Resolve = reenc(init), false
		case "member-removed":
			if rapid.Bool().Draw(t, "which") {
				delete(init, "delta")
			} else {
				sd := cr.SuffixData()
				delete(sd, "deltaHash")
				init["suffixData"] = sd
			}
			c.DID, c.Resolve = reenc(init), false
		case "member-added":
			// (a top-level "type" member is part of the create request model itself and is not generated: the
			// statement's three conditions still hold with it and the DID's meaning is unchanged)
			if rapid.Bool().Draw(t, "which") {
				init["extra"] = "x"
			} else {
				sd := cr.SuffixData()
				sd["extra"] = "x"
				init["suffixData"] = sd
			}
			c.DID, c.Resolve = reenc(init), false
		case "non-canonical":
			alt := refjcs.Spell(refjcs.FromGo(init), gen.RapidChooser{T: t, Label: "spell"}, refjcs.AllSpell)
			if bytes.Equal(alt, refjcs.MustCanonicalGo(init)) {
				alt = append(alt, ' ')
			}
			c.DID, c.Resolve = ns+":"+suffix+":"+asm.B64(alt), false
		case "short-delta-hash":
			// self-consistent initial state whose delta hash is a well-formed multihash carrying only a prefix
			// (possibly empty) of the digest, paired with another delta: the delta does not match the delta hash
			d := asm.Digest(cr.Code, refjcs.MustCanonicalGo(cr.Delta))
			alt := *cr
			alt.DeltaHash = asm.B64(asm.FrameMultihash(cr.Code, d[:rapid.IntRange(0, 3).Draw(t, "digestLen")]))
			if rapid.Bool().Draw(t, "otherDelta") {
				alt.Delta = asm.Delta(asm.Commit(keys.Get(keys.P256, "c08alt", 3), cr.Code), cr.Delta["patches"].([]interface{}))
			}
			c.DID, c.Resolve = alt.LongForm(ns), false
		case "other-suffix":
			o := genCreate(t)
			if o.Suffix() == suffix {
				t.Skip("same create drawn twice")
			}
			c.DID, c.Resolve = ns+":"+o.Suffix()+":"+seg, false
		}
		if variant != "control" && rapid.IntRange(0, 3).Draw(t, "hinted") == 0 {
			// label / domain hint segments between method and suffix (the form interim DIDs are handed out in): the
			// altered DID must still not resolve; whether the hinted genuine DID resolves is not stated and not judged
			hint := rapid.SampledFrom([]string{"interim", "example.com:interim", "uAAA", "ipfs:uEiAbc"}).Draw(t, "hint")
			c.DID = ns + ":" + hint + ":" + strings.TrimPrefix(c.DID, ns+":")
			variant += "+hint"
			c.Note = variant
		}
		if variant != "control" && rapid.IntRange(0, 3).Draw(t, "aliased") == 0 {
			// the same alteration asked for under the handler's alias namespace
			c.DID = aliasNS + ":" + strings.TrimPrefix(c.DID, ns+":")
			variant += "+alias"
			c.Note = variant
		}
		if !strings.HasPrefix(variant, "control") && rapid.Bool().Draw(t, "handlerKnowsGenuine") {
			// the same long-lived handler has resolved the genuine long-form DID just before
			c.Warm = good
		}
		kind, msg := evalLF(c)
		ev.Record(chkLongForm, !c.Resolve, ev.Hash(c.DID), "variant:"+variant)
		ev.SampleFn(chkLongForm, func() interface{} {
			return map[string]interface{}{"did": ev.Trunc(c.DID, 200), "resolve": c.Resolve, "variant": variant}
		})
		if kind != "" {
			ev.Fail(t, chkLongForm, kind, kind, c, "%s", msg)
		}
	})
}
