package c08

import (
	"encoding/json"
	"fmt"
	"testing"

	"verifharness/kit/asm"
	"verifharness/kit/ev"
	"verifharness/kit/keys"
)

// The key an update, recover or deactivate reveals is a model like any other: its reveal value is the hash of the
// canonical form of the JSON value that stands in the signed data - not of what a typed key model makes of it (which
// may add an empty coordinate to a key that has none, or leave out a member it does not know).

const chkRevealed = "revealed-key-as-transmitted"

type RevealedCase struct {
	Code    uint64                 `json:"code"`
	KeyType keys.Type              `json:"keyType"`
	Op      string                 `json:"op"`
	Key     map[string]interface{} `json:"key"`    // the key member as transmitted
	Hashed  map[string]interface{} `json:"hashed"` // the JSON value whose hash is sent as reveal value
	Same    bool                   `json:"same"`   // Hashed is Key (the request is right)
	Note    string                 `json:"note"`
}

func init() { ev.RegisterReplay(chkRevealed, replayRevealed) }

func (c *RevealedCase) request() []byte {
	k := keys.Get(c.KeyType, "c08rk", 0)
	member := "recoveryKey"
	if c.Op == "update" {
		member = "updateKey"
	}
	sg := &asm.Signed{Type: c.Op, Suffix: asm.Multihash(c.Code, []byte("c08 revealed key")), Code: c.Code, RevealKey: k,
		RevealValue: asm.HashModel(c.Code, c.Hashed), ExtraSigned: map[string]interface{}{member: c.Key}}
	if c.Op != "deactivate" {
		sg.Delta = asm.Delta(asm.Commit(keys.Get(c.KeyType, "c08rk", 1), c.Code), []interface{}{map[string]interface{}{"action": "add-also-known-as", "uris": []interface{}{"https://a.example/1"}}})
	}
	if c.Op == "recover" {
		sg.NextRecoveryCommit = asm.Commit(keys.Get(c.KeyType, "c08rk", 2), c.Code)
	}
	return sg.Bytes()
}

func evalRevealed(c *RevealedCase) (string, string) {
	v := parserFor(uint(c.Code))
	req := c.request()
	_, errIntake := v.Parser.Parse(ns, req)
	_, errBatch := v.RealParser.ParseOperation(ns, req, true)
	for mode, err := range map[string]error{"intake": errIntake, "batch mode": errBatch} {
		if c.Same && err != nil {
			return "C08/right-multihash-rejected", fmt.Sprintf("%s (%s, %s): the reveal value is the hash of the key as it stands in the signed data, the request is refused: %v; key %s", c.Note, c.Op, mode, err, js(c.Key))
		}
		if !c.Same && err == nil {
			return "C08/wrong-multihash-accepted", fmt.Sprintf("%s (%s, %s): the reveal value is the hash of %s, which is not the key in the signed data (%s), and the request is accepted", c.Note, c.Op, mode, js(c.Hashed), js(c.Key))
		}
	}
	return "", ""
}

func js(v interface{}) string {
	b, _ := json.Marshal(v)
	return string(b)
}

func replayRevealed(raw json.RawMessage) (string, string) {
	var c RevealedCase
	if err := json.Unmarshal(raw, &c); err != nil {
		return "bad-replay", err.Error()
	}
	return evalRevealed(&c)
}

func without(m map[string]interface{}, name string) map[string]interface{} {
	out := map[string]interface{}{}
	for k, v := range m {
		if k != name {
			out[k] = v
		}
	}
	return out
}

func with(m map[string]interface{}, name string, v interface{}) map[string]interface{} {
	out := without(m, name)
	out[name] = v
	return out
}

func TestRevealedKeyAsTransmitted(t *testing.T) {
	ev.Rule(chkRevealed, "deterministic: update / recover / deactivate requests (5 key types, both hash algorithms), genuinely signed, whose revealed key stands in the signed data (a) as the library's own client writes it, (b) for Ed25519 without the 'y' member (RFC 8037 defines none), (c) with a member the key model does not know ('kid'), each time with the reveal value being the hash of the key as transmitted (must be accepted, at intake and in batch mode) and being the hash of the other form of the same key (must be refused); oracle: accepted exactly when the reveal value is the hash of the canonical form of the JSON value in the signed data; every case non-trivial")
	item := 0
	for _, kt := range keys.AllTypes {
		for _, code := range []uint64{asm.SHA256, asm.SHA512} {
			for _, op := range []string{"update", "recover", "deactivate"} {
				lib := keys.Get(kt, "c08rk", 0).JWKMap()
				var cases []*RevealedCase
				add := func(key, hashed map[string]interface{}, same bool, note string) {
					cases = append(cases, &RevealedCase{Code: code, KeyType: kt, Op: op, Key: key, Hashed: hashed, Same: same, Note: note})
				}
				add(lib, lib, true, "key as the library's client writes it")
				withKid := with(lib, "kid", "key-1")
				add(withKid, withKid, true, "key with a member the model does not know")
				add(withKid, lib, false, "key with a member the model does not know, hash of the key without it")
				if kt == keys.Ed25519 {
					bare := without(lib, "y")
					add(bare, bare, true, "Ed25519 key without y")
					add(bare, lib, false, "Ed25519 key without y, hash of the key with an empty y")
					add(lib, bare, false, "Ed25519 key with an empty y, hash of the key without y")
				}
				for _, c := range cases {
					item++
					if !ev.Mine(item) {
						continue
					}
					kind, msg := evalRevealed(c)
					ev.Record(chkRevealed, true, ev.Hash(int(kt), code, op, c.Note), "op:"+op, fmt.Sprintf("right:%v", c.Same))
					ev.SampleFn(chkRevealed, func() interface{} { return c })
					if kind != "" {
						ev.Fail(t, chkRevealed, kind, kind+"/revealed-key", c, "%s", msg)
					}
				}
			}
		}
	}
	ev.Exhaustive(chkRevealed)
}
