package c20

import (
	"bytes"
	"fmt"
	"testing"

	"verifharness/kit/asm"
	"verifharness/kit/ev"
	"verifharness/kit/keys"
)

const chkSize = "respelled-request-at-size-limit"

func init() { ev.RegisterReplay(chkSize, replay) }

// TestRespelledRequestAtSizeLimit: the maximum operation size is a limit on the request as it is submitted. The
// pipeline stores an accepted operation in re-encoded (canonical) form, which can be longer than the request - a
// number written 1e20 comes back as 100000000000000000000. A request that was within the limit when it was accepted
// must still take effect when the DID is resolved.
func TestRespelledRequestAtSizeLimit(t *testing.T) {
	ev.Rule(chkSize, "deterministic: for 3 key types x 1..6 numbers written 1e20 in a JSON-patch value x every maximum operation size L with len(request) <= L < len(canonical re-encoding): create, then the update submitted in the short spelling through the whole pipeline (DocumentHandler -> batch writer -> CAS -> ledger -> observer -> store -> resolution); oracle as in pipeline-vs-reference: the accepted update is anchored and the resolved document contains its patch; non-trivial = every case")
	item := 0
	for _, kt := range []keys.Type{keys.Ed25519, keys.P256, keys.Secp256k1} {
		for n := 1; n <= 6; n++ {
			rec, upd, next := keys.Get(kt, "c20-size", 0), keys.Get(kt, "c20-size", 1), keys.Get(kt, "c20-size", 2)
			code := uint64(asm.SHA256)
			createPatches := []interface{}{map[string]interface{}{"action": "add-also-known-as", "uris": []interface{}{"https://a.example/1"}}}
			cr := &asm.Create{Code: code, RecoveryCommit: asm.Commit(rec, code), Delta: asm.Delta(asm.Commit(upd, code), createPatches)}
			var nums []interface{}
			for i := 0; i < n; i++ {
				nums = append(nums, float64(1e20))
			}
			patches := []interface{}{map[string]interface{}{"action": "ietf-json-patch", "patches": []interface{}{map[string]interface{}{"op": "add", "path": "/big", "value": nums}}}}
			sg := &asm.Signed{Type: "update", Suffix: cr.Suffix(), Code: code, RevealKey: upd, Delta: asm.Delta(asm.Commit(next, code), patches)}
			canonical := sg.Bytes()
			short := bytes.ReplaceAll(canonical, []byte("100000000000000000000"), []byte("1e20"))
			if len(short) >= len(canonical) || len(cr.Bytes()) > len(short) {
				t.Fatalf("harness: expected the respelled update (%d bytes) to be shorter than its canonical form (%d) and longer than the create (%d)", len(short), len(canonical), len(cr.Bytes()))
			}
			for limit := len(short); limit < len(canonical); limit += 1 + (len(canonical)-len(short))/4 {
				item++
				if !ev.Mine(item) {
					continue
				}
				c := &Case{Max: 2, OpSize: uint(limit), Actions: []Action{
					{Kind: "submit", DID: 0, Type: "create", Request: cr.Bytes(), Patches: createPatches, NextUpdate: asm.Commit(upd, code), NextRecovery: asm.Commit(rec, code), LongForm: cr.LongForm(ns)},
					{Kind: "timeout-tick"},
					{Kind: "submit", DID: 0, Type: "update", Request: short, Patches: patches, NextUpdate: asm.Commit(next, code), Consumes: asm.Commit(upd, code)},
					{Kind: "timeout-tick"},
				}}
				p := newPipeline(c)
				kind, msg := "", ""
				for i := range c.Actions {
					if kind, msg = p.step(&c.Actions[i]); kind != "" {
						break
					}
				}
				if kind == "" {
					if d := p.dids[0]; d == nil || len(d.accepted) != 2 {
						p.close()
						t.Fatalf("harness: the request within the size limit was not accepted (limit %d, request %d bytes)", limit, len(short))
					}
					kind, msg = p.finish()
				} else {
					p.close()
				}
				ev.Record(chkSize, true, ev.Hash(c), "keytype:"+kt.String(), fmt.Sprintf("numbers:%d", n))
				ev.SampleFn(chkSize, func() interface{} {
					return map[string]interface{}{"maxOperationSize": limit, "request": len(short), "canonical": len(canonical), "keyType": kt.String()}
				})
				if kind != "" {
					ev.Fail(t, chkSize, kind, sigOf(kind, msg), c, "maximum operation size %d, request %d bytes, canonical re-encoding %d bytes: %s", limit, len(short), len(canonical), msg)
				}
			}
		}
	}
	ev.Exhaustive(chkSize)
}
