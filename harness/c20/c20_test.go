// Package c20 decides property C20: end to end - operations submitted through the document handler, batched,
// written to CAS, anchored, observed and stored - every DID resolves to the document and commitments that the
// reference state machine predicts from its accepted operations in anchoring order, each under the protocol
// version in force when it was accepted; a create's response, its long-form resolution before anchoring and
// its short-form resolution afterwards agree.
package c20

import (
	"bytes"
	"encoding/json"
	"errors"
	"fmt"
	"net/http"
	"net/http/httptest"
	"sort"
	"strings"
	"testing"
	"time"

	"github.com/trustbloc/sidetree-core-go/pkg/api/operation"
	"github.com/trustbloc/sidetree-core-go/pkg/api/protocol"
	"github.com/trustbloc/sidetree-core-go/pkg/api/txn"
	"github.com/trustbloc/sidetree-core-go/pkg/batch"
	"github.com/trustbloc/sidetree-core-go/pkg/batch/cutter"
	"github.com/trustbloc/sidetree-core-go/pkg/batch/opqueue"
	"github.com/trustbloc/sidetree-core-go/pkg/dochandler"
	"github.com/trustbloc/sidetree-core-go/pkg/document"
	"github.com/trustbloc/sidetree-core-go/pkg/observer"
	"github.com/trustbloc/sidetree-core-go/pkg/processor"
	restdoc "github.com/trustbloc/sidetree-core-go/pkg/restapi/dochandler"
	"github.com/trustbloc/sidetree-core-go/pkg/versions/1_0/doctransformer/didtransformer"
	"github.com/trustbloc/sidetree-core-go/pkg/versions/1_0/txnprocessor"
	"pgregory.net/rapid"

	"verifharness/kit/asm"
	"verifharness/kit/ev"
	"verifharness/kit/gen"
	"verifharness/kit/keys"
	"verifharness/kit/refdoc"
	"verifharness/kit/refjcs"
	"verifharness/kit/refmodel"
	"verifharness/kit/wire"
)

func TestMain(m *testing.M) { ev.Main(m, "C20") }

const chk = "pipeline-vs-reference"

const ns = "did:sidetree"

// Action is one step of a workload (the concrete request is stored, so a replay needs no generator).
type Action struct {
	Kind    string `json:"kind"` // submit | monitor-tick | timeout-tick
	DID     int    `json:"did"`
	Type    string `json:"type,omitempty"`
	Request []byte `json:"request,omitempty"`
	// what the reference model needs if the request is accepted
	Patches      []interface{} `json:"patches,omitempty"`
	NextUpdate   string        `json:"nextUpdate,omitempty"`
	NextRecovery string        `json:"nextRecovery,omitempty"`
	Consumes     string        `json:"consumes,omitempty"` // commitment of the key the operation reveals
	LongForm     string        `json:"longForm,omitempty"`
	From         int64         `json:"anchorFrom,omitempty"` // signed anchoring window of the request (0, 0 = none)
	Until        int64         `json:"anchorUntil,omitempty"`
	// UnpubFault: the node's unpublished-operation store fails while this request is being taken in (a transient
	// fault: the store works again for the next request). Whatever the node answers, only an accepted request may
	// ever take effect.
	UnpubFault bool `json:"unpublishedStoreFault,omitempty"`
	// Recommits: an update that names a commitment its own chain has already consumed as its next update commitment.
	// The state machine skips such an operation wherever it is anchored; the client notices and retries with the same
	// key and a fresh commitment, so a valid operation for the commitment follows the skipped one.
	Recommits bool `json:"recommitsConsumed,omitempty"`
	// acceptedUnder (run time): genesis time of the protocol version in force when the request was accepted
	acceptedUnder uint64
}

// Case is a workload.
type Case struct {
	Max         uint     `json:"maxOperationCount"`
	TwoVersions bool     `json:"twoVersions"`
	Unpublished bool     `json:"unpublishedStore"`
	Actions     []Action `json:"actions"`
	// MethodContexts: the node's DID transformers are configured with two method contexts
	MethodContexts bool `json:"methodContexts,omitempty"`
	// ViaREST: operations are submitted through the REST operations endpoint instead of the document handler directly
	ViaREST bool `json:"viaRest,omitempty"`
	// Label / Domain: the document handler hands out interim DIDs with that label (and names the domain in equivalent
	// ids); Alias: the handler also answers under a second namespace. Only the DID string may depend on them.
	Label  string `json:"label,omitempty"`
	Domain string `json:"domain,omitempty"`
	Alias  bool   `json:"alias,omitempty"`
	// OpSize, if non-zero, is the protocol's maximum operation size (the request size limit applied at intake)
	OpSize uint `json:"maxOperationSize,omitempty"`
}

const aliasNS = "did:alias"

// didForm checks that a DID string the node put into a document names the DID with the given suffix under the
// namespace or its alias, optionally with hint segments in front of the suffix and, where tail is given (the
// ":<initial state>" part of the long-form DID that was asked for), optionally with that tail behind it.
func didForm(id, suffix, tail string) bool {
	rest := ""
	switch {
	case strings.HasPrefix(id, ns+":"):
		rest = strings.TrimPrefix(id, ns+":")
	case strings.HasPrefix(id, aliasNS+":"):
		rest = strings.TrimPrefix(id, aliasNS+":")
	default:
		return false
	}
	if tail != "" {
		rest = strings.TrimSuffix(rest, tail)
	}
	return rest == suffix || strings.HasSuffix(rest, ":"+suffix)
}

// askAs spells the DID a resolution asks for: the plain form, or (by turns, where configured) under the alias
// namespace or with the label as a hint segment.
func (p *pipeline) askAs(suffix, longFormTail string) string {
	p.asked++
	nsUsed, hint := ns, ""
	switch p.asked % 3 {
	case 1:
		if p.c.Alias {
			nsUsed = aliasNS
			p.feat["asked-under-alias"] = true
		}
	case 2:
		// (only long-form DIDs: the library's DID parser takes a hinted short-form DID for a long-form one)
		if p.c.Label != "" && longFormTail != "" {
			hint = p.c.Label + ":"
			p.feat["asked-with-hint"] = true
		}
	}
	return nsUsed + ":" + hint + suffix + longFormTail
}

type restMetrics struct{}

func (restMetrics) HTTPCreateUpdateTime(time.Duration) {}

var methodContexts = []string{"https://w3id.org/did/v1/method", "https://second.example/ctx"}

func init() {
	ev.RegisterReplay(chk, replay)
	ev.Assume("acceptance of a request is observed, not predicted; interim (pre-anchoring) resolutions are compared only while the DID has at most one unpublished operation")
	ev.Assume("no faults are injected here (C15 / C16 cover faults); per-DID anchoring order equals submission order because the queue is FIFO")
}

// TestReplay runs first.
func TestReplay(t *testing.T) { ev.ReplayMain(t) }

func replay(raw json.RawMessage) (string, string) {
	var c Case
	if err := json.Unmarshal(raw, &c); err != nil {
		return "bad-replay", err.Error()
	}
	p := newPipeline(&c)
	for i := range c.Actions {
		if kind, msg := p.step(&c.Actions[i]); kind != "" {
			return kind, fmt.Sprintf("action %d: %s", i, msg)
		}
	}
	return p.finish()
}

func js(v interface{}) string {
	b, _ := json.Marshal(v)
	return string(b)
}

// ---- the pipeline of real components ----------------------------------------------------------------------------

type switchClient struct {
	versions []protocol.Version
	now      func() uint64
}

func (s *switchClient) Get(t uint64) (protocol.Version, error) {
	for i := len(s.versions) - 1; i >= 0; i-- {
		if t >= s.versions[i].Protocol().GenesisTime {
			return s.versions[i], nil
		}
	}
	return nil, fmt.Errorf("protocol parameters are not defined for anchoring time: %d", t)
}

func (s *switchClient) Current() (protocol.Version, error) { return s.Get(s.now()) }

type ledgerT struct {
	clock   uint64
	txns    []txn.SidetreeTxn
	pending []txn.SidetreeTxn
}

func (l *ledgerT) Read(int) (bool, *txn.SidetreeTxn) { return false, nil }

func (l *ledgerT) WriteAnchor(anchor string, _ []*protocol.AnchorDocument, _ []*operation.Reference, version uint64) error {
	n := uint64(len(l.txns))
	t := txn.SidetreeTxn{TransactionTime: l.clock, TransactionNumber: (n*7 + 3) % 11, AnchorString: anchor, Namespace: ns, ProtocolVersion: version,
		CanonicalReference: fmt.Sprintf("canon%d", n), EquivalentReferences: []string{fmt.Sprintf("eq%d", n)}}
	l.clock++
	l.txns = append(l.txns, t)
	l.pending = append(l.pending, t)
	return nil
}

type wctx struct {
	pc protocol.Client
	l  *ledgerT
	q  *opqueue.MemQueue
}

func (c wctx) Protocol() protocol.Client             { return c.pc }
func (c wctx) Anchor() batch.AnchorWriter            { return c.l }
func (c wctx) OperationQueue() cutter.OperationQueue { return c.q }

type obsLedger struct{ ch chan []txn.SidetreeTxn }

func (l *obsLedger) RegisterForSidetreeTxn() <-chan []txn.SidetreeTxn { return l.ch }

type sentinelProvider struct {
	pc   protocol.Client
	seen chan struct{}
}

func (s *sentinelProvider) ForNamespace(n string) (protocol.Client, error) {
	if n == "sentinel" {
		select {
		case s.seen <- struct{}{}:
		default:
		}
		return nil, errors.New("sentinel")
	}
	if n != ns {
		return nil, errors.New("unknown namespace")
	}
	return s.pc, nil
}

// didModel is the reference state of one DID.
type didModel struct {
	unresolvable bool // hit the known finding "key type over a foreign JWK" (see compareAll)
	suffix       string
	accepted     []*Action // accepted operations in submission (= anchoring) order
	anchoredN    int       // how many of them are anchored
	longForm     string
	createReply  map[string]interface{}
}

type pipeline struct {
	asked   int
	c       *Case
	pc      *switchClient
	ledger  *ledgerT
	writer  *batch.Writer
	handler *dochandler.DocumentHandler
	obs     *observer.Observer
	obsCh   *obsLedger
	sp      *sentinelProvider
	store   *wire.OpStore
	unpub   *wire.UnpubStore
	dids    map[int]*didModel
	feat    map[string]bool
	queued  map[string]int // suffix -> operations currently queued
	// results the node handed out and a caller still holds (live object + JSON at the time it was returned)
	held      []heldResult
	methodCtx []string
	stampErr  string // first accepted operation found stored under another version than the one in force at acceptance
}

type heldResult struct {
	live *document.ResolutionResult
	snap string
	what string
}

func (p *pipeline) hold(rr *document.ResolutionResult, what string) {
	if rr == nil {
		return
	}
	p.held = append(p.held, heldResult{live: rr, snap: js(rr), what: what})
	if len(p.held) > 16 {
		p.held = p.held[1:]
	}
}

// heldIntact: results handed out earlier must not change when the node serves later requests.
func (p *pipeline) heldIntact() (string, string) {
	for _, h := range p.held {
		if now := js(h.live); now != h.snap {
			return "C20/earlier-result-changed", fmt.Sprintf("the %s changed after the node served later requests: was %s, now %s", h.what, h.snap, now)
		}
	}
	return "", ""
}

// GenesisB is the ledger time at which the second protocol version comes into force.
const GenesisB = 1004

func newPipeline(c *Case) *pipeline {
	p := &pipeline{c: c, ledger: &ledgerT{clock: 1000}, store: wire.NewOpStore(), unpub: wire.NewUnpubStore(), dids: map[int]*didModel{}, feat: map[string]bool{}, queued: map[string]int{}}
	curMethodCtx = nil
	if c.MethodContexts {
		curMethodCtx = methodContexts
	}
	cas := wire.NewMemCAS()
	types := []operation.Type{operation.TypeCreate, operation.TypeUpdate, operation.TypeRecover, operation.TypeDeactivate}
	var tpOpts []txnprocessor.Option
	if c.Unpublished {
		tpOpts = append(tpOpts, txnprocessor.WithUnpublishedOperationStore(p.unpub, types))
	}
	a := wire.BaseProtocol()
	a.MaxOperationCount = c.Max
	if c.OpSize != 0 {
		a.MaxOperationSize = c.OpSize
	}
	var trOpts []didtransformer.Option
	if c.MethodContexts {
		trOpts = append(trOpts, didtransformer.WithMethodContext(methodContexts))
		p.methodCtx = methodContexts
	}
	vs := []protocol.Version{wire.Build(a, wire.Deps{CAS: cas, OpStore: p.store, TxnProcOpts: tpOpts, TransformerOpts: trOpts})}
	if c.TwoVersions {
		b := wire.BaseProtocol()
		b.GenesisTime = GenesisB
		b.MaxOperationCount = c.Max
		b.MultihashAlgorithms = []uint{19, 18}
		b.Patches = []string{"replace", "add-public-keys", "remove-public-keys", "add-services", "remove-services", "ietf-json-patch"}
		vs = append(vs, wire.Build(b, wire.Deps{CAS: cas, OpStore: p.store, TxnProcOpts: tpOpts, TransformerOpts: trOpts}))
	}
	p.pc = &switchClient{versions: vs, now: func() uint64 { return p.ledger.clock }}
	q := &opqueue.MemQueue{}
	w, err := batch.New(ns, wctx{pc: p.pc, l: p.ledger, q: q}, batch.WithBatchTimeout(time.Hour), batch.WithMonitorInterval(time.Hour))
	if err != nil {
		panic(err)
	}
	p.writer = w
	var popts []processor.Option
	var hopts []dochandler.Option
	if c.Unpublished {
		popts = append(popts, processor.WithUnpublishedOperationStore(p.unpub))
		hopts = append(hopts, dochandler.WithUnpublishedOperationStore(p.unpub, types))
	}
	if c.Label != "" {
		hopts = append(hopts, dochandler.WithLabel(c.Label))
	}
	if c.Domain != "" {
		hopts = append(hopts, dochandler.WithDomain(c.Domain))
	}
	var aliases []string
	if c.Alias {
		aliases = []string{aliasNS}
	}
	proc := processor.New("verif", p.store, p.pc, popts...)
	p.handler = dochandler.New(ns, aliases, p.pc, w, proc, wire.DocMetrics{}, hopts...)
	p.obsCh = &obsLedger{ch: make(chan []txn.SidetreeTxn)}
	p.sp = &sentinelProvider{pc: p.pc, seen: make(chan struct{}, 1)}
	p.obs = observer.New(&observer.Providers{Ledger: p.obsCh, ProtocolClientProvider: p.sp})
	p.obs.Start()
	return p
}

func (p *pipeline) close() { p.obs.Stop() }

// currentCode is the multihash code new DIDs use under the version in force.
func (p *pipeline) currentCode() uint64 {
	v, _ := p.pc.Current()
	return uint64(v.Protocol().MultihashAlgorithms[0])
}

func external(doc *refdoc.Doc, did string) map[string]interface{} {
	m, err := refdoc.Project(doc, did, refdoc.ProjectOpts{MethodContext: curMethodCtx})
	if err != nil {
		return map[string]interface{}{"projection-error": err.Error()}
	}
	return norm(m).(map[string]interface{})
}

// curMethodCtx is the method-context configuration of the pipeline under evaluation.
var curMethodCtx []string

func norm(v interface{}) interface{} {
	b, _ := json.Marshal(v)
	var o interface{}
	_ = json.Unmarshal(b, &o)
	return o
}

// expected runs the reference state machine (kit/refmodel decides which operations apply, in which order, from
// commitments and anchoring coordinates; kit/refdoc applies their patches) over the accepted operations of a DID
// that are anchored (coordinates taken from the operation store) plus, optionally, the unpublished ones.
func (p *pipeline) expected(d *didModel, withUnpublished bool) (doc *refdoc.Doc, update, recovery string, deactivated bool, applied []string, ok bool) {
	stored := p.store.All()[d.suffix]
	used := make([]bool, len(stored))
	var descs []*refmodel.Op
	byName := map[string]*Action{}
	descByName := map[string]*refmodel.Op{}
	for i, a := range d.accepted {
		name := fmt.Sprintf("%d:%s", i, a.Type)
		byName[name] = a
		o := &refmodel.Op{Name: name, Type: a.Type, Consumes: a.Consumes, Authorised: true, NextUpdate: a.NextUpdate, NextRecovery: a.NextRecovery, Delta: refmodel.DeltaGood, From: a.From, Until: a.Until}
		found := false
		for j, so := range stored {
			if !used[j] && string(so.Type) == a.Type && sameJSON(so.OperationRequest, a.Request) {
				used[j], found = true, true
				o.Time, o.Num, o.Published, o.Ref = so.TransactionTime, so.TransactionNumber, true, so.CanonicalReference
				// the stamp selects the version the operation is applied under: it must select the one in force at acceptance
				// (any time inside that version does; the writer uses its genesis time)
				if sv, verr := p.pc.Get(so.ProtocolVersion); (verr != nil || sv.Protocol().GenesisTime != a.acceptedUnder) && p.stampErr == "" {
					p.stampErr = fmt.Sprintf("%s operation %d of DID %s was accepted while the protocol version with genesis %d was in force, but is stored (and therefore applied) under protocol version %d", a.Type, i, d.suffix, a.acceptedUnder, so.ProtocolVersion)
				}
				break
			}
		}
		if !found {
			if !withUnpublished {
				continue
			}
			o.Time = 1 << 40
		}
		descs = append(descs, o)
		descByName[name] = o
	}
	st := refmodel.Resolve(descs, refmodel.Params{MaxTimeDelta: 7207})
	if !st.Found {
		return nil, "", "", false, nil, false
	}
	doc = refdoc.New()
	for _, n := range st.Applied {
		a := byName[n]
		// outside its signed window an update or recover consumes its commitment without changing / populating the
		// document (the anchoring time of a pending copy is the node's wall clock)
		if o := descByName[n]; a.Type != "create" && !refmodel.InWindow(o.From, o.Until, o.Time, 7207) {
			if a.Type == "recover" {
				doc = refdoc.New()
			}
			continue
		}
		switch a.Type {
		case "create", "recover":
			nd, err := refdoc.Apply(refdoc.New(), a.Patches)
			if err != nil {
				return nil, "", "", false, nil, false
			}
			doc = nd
		case "update":
			nd, err := refdoc.Apply(doc, a.Patches)
			if err != nil {
				return nil, "", "", false, nil, false
			}
			doc = nd
		case "deactivate":
			doc = refdoc.New()
		}
	}
	return doc, st.Update, st.Recovery, st.Deactivated, st.Applied, true
}

func sameJSON(a, b []byte) bool {
	va, e1 := refjcs.Parse(a)
	vb, e2 := refjcs.Parse(b)
	return e1 == nil && e2 == nil && refjcs.Equal(va, vb)
}

func (p *pipeline) step(a *Action) (string, string) {
	switch a.Kind {
	case "submit":
		return p.submit(a)
	case "monitor-tick":
		return p.flush(false)
	case "timeout-tick":
		return p.flush(true)
	}
	return "", ""
}

func (p *pipeline) submit(a *Action) (string, string) {
	var rr *document.ResolutionResult
	var err error
	if a.UnpubFault {
		p.unpub.FailPut = func(int) error { return errors.New("injected unpublished-store failure") }
		defer func() { p.unpub.FailPut = nil }()
		p.feat["unpublished-store-fault"] = true
	}
	if p.c.ViaREST {
		// through the REST operations endpoint (update handler -> document handler)
		uh := restdoc.NewUpdateHandler(p.handler, p.pc, restMetrics{})
		req := httptest.NewRequest(http.MethodPost, "/operations", bytes.NewReader(a.Request))
		rw := httptest.NewRecorder()
		if pn := ev.Catch(func() { uh.Update(rw, req) }); pn != "" {
			return "C20/panic", "REST update handler panicked: " + pn
		}
		if rw.Code != http.StatusOK {
			err = fmt.Errorf("HTTP %d: %s", rw.Code, ev.Trunc(rw.Body.String(), 200))
		} else {
			rr = &document.ResolutionResult{}
			if jerr := json.Unmarshal(rw.Body.Bytes(), rr); jerr != nil {
				return "C20/create-response", "REST operations endpoint answered 200 with a body that is not a resolution result: " + jerr.Error()
			}
		}
	} else if pn := ev.Catch(func() { rr, err = p.handler.ProcessOperation(a.Request, p.ledger.clock) }); pn != "" {
		return "C20/panic", "ProcessOperation panicked: " + pn
	}
	if err != nil {
		p.feat["rejected-at-intake"] = true
		return "", ""
	}
	if cv, cerr := p.pc.Current(); cerr == nil {
		a.acceptedUnder = cv.Protocol().GenesisTime
	}
	d := p.dids[a.DID]
	if a.Type == "create" {
		d = &didModel{longForm: a.LongForm}
		p.dids[a.DID] = d
		root := map[string]interface{}{}
		_ = json.Unmarshal(a.Request, &root)
		code := p.currentCode()
		d.suffix = asm.HashModel(code, root["suffixData"])
		if rr == nil {
			return "C20/create-response", "accepted create returned no document"
		}
		d.createReply = norm(rr.Document).(map[string]interface{})
		p.hold(rr, "create response of DID "+d.suffix)
		doc, aerr := refdoc.Apply(refdoc.New(), a.Patches)
		ok := aerr == nil
		if ok {
			// the DID string of the response may carry the node's label; everything else is fixed by the request
			rid, _ := d.createReply["id"].(string)
			if !didForm(rid, d.suffix, "") {
				return "C20/create-response", fmt.Sprintf("create response returns a document for %q (suffix %s)", rid, d.suffix)
			}
			want := external(doc, rid)
			if df := refdoc.DiffExternal(d.createReply, want); len(df) > 0 {
				return "C20/create-response", fmt.Sprintf("create response document %s differs from the reference projection %s on %v", js(d.createReply), js(want), df)
			}
			// long-form resolution before anchoring must show the same content
			var lr *document.ResolutionResult
			var lerr error
			askLF := p.askAs(d.suffix, strings.TrimPrefix(a.LongForm, ns+":"+d.suffix))
			if pn := ev.Catch(func() { lr, lerr = p.handler.ResolveDocument(askLF) }); pn != "" {
				return "C20/panic", "long-form ResolveDocument panicked: " + pn
			}
			if lerr != nil {
				return "C20/long-form", fmt.Sprintf("long-form DID of an accepted create (asked as %s) does not resolve before anchoring: %v", ev.Trunc(askLF, 120), lerr)
			}
			if lr == nil || lr.Document == nil {
				return "C20/long-form", "long-form DID of an accepted create does not resolve before anchoring: ResolveDocument returned neither a document nor an error"
			}
			p.hold(lr, "long-form resolution result of DID "+d.suffix)
			if k, m := p.heldIntact(); k != "" {
				return k, m
			}
			got := norm(lr.Document).(map[string]interface{})
			// the DID string may be the long or the short form (the statement allows it to differ); everything else must agree
			gid, _ := got["id"].(string)
			if !didForm(gid, d.suffix, strings.TrimPrefix(a.LongForm, ns+":"+d.suffix)) {
				return "C20/long-form", fmt.Sprintf("long-form resolution returns a document for %q", gid)
			}
			wantLF := external(doc, gid)
			if df := refdoc.DiffExternal(got, wantLF); len(df) > 0 {
				return "C20/long-form", fmt.Sprintf("long-form resolution before anchoring %s differs from the reference projection %s on %v", js(got), js(wantLF), df)
			}
			p.feat["long-form-checked"] = true
		}
	}
	if d == nil {
		return "C20/accepted-without-create", fmt.Sprintf("a %s for a DID without accepted create was accepted", a.Type)
	}
	if p.queued[d.suffix] > 0 {
		p.feat["submitted-while-queued"] = true
	}
	p.queued[d.suffix]++
	d.accepted = append(d.accepted, a)
	return "", ""
}

func (p *pipeline) flush(force bool) (string, string) {
	before := len(p.ledger.txns)
	if pn := ev.Catch(func() { p.writer.VerifProcessAvailable(force) }); pn != "" {
		return "C20/panic", "batch writer panicked: " + pn
	}
	// observe the new transactions
	if len(p.ledger.pending) > 0 {
		p.obsCh.ch <- p.ledger.pending
		p.ledger.pending = nil
	}
	p.obsCh.ch <- []txn.SidetreeTxn{{Namespace: "sentinel"}}
	select {
	case <-p.sp.seen:
	case <-time.After(30 * time.Second):
		return "", "inconclusive: observer did not reach the sentinel"
	}
	if len(p.ledger.txns) > before {
		p.feat["flushed"] = true
	}
	// what is anchored now: per suffix the number of stored operations
	stored := p.store.All()
	for _, d := range p.dids {
		n := len(stored[d.suffix])
		if n > len(d.accepted) {
			return "C20/stored-more-than-accepted", fmt.Sprintf("DID %s has %d stored operations but only %d were accepted", d.suffix, n, len(d.accepted))
		}
		p.queued[d.suffix] -= n - d.anchoredN
		d.anchoredN = n
	}
	return p.compareAll()
}

func (p *pipeline) compareAll() (string, string) {
	var idx []int
	for i := range p.dids {
		idx = append(idx, i)
	}
	sort.Ints(idx)
	for _, i := range idx {
		d := p.dids[i]
		if d.unresolvable {
			continue
		}
		n := d.anchoredN
		unpubN := 0
		if p.c.Unpublished {
			unpubN = len(d.accepted) - n
			if unpubN > 1 {
				continue // several unpublished operations: interim state is not compared
			}
			n += unpubN
		}
		if n == 0 {
			continue
		}
		doc, upd, rec, deact, applied, ok := p.expected(d, unpubN > 0)
		if p.stampErr != "" {
			return "C20/accepted-under-other-version", p.stampErr
		}
		if !ok {
			continue
		}
		did := p.askAs(d.suffix, "")
		var rr *document.ResolutionResult
		var err error
		if pn := ev.Catch(func() { rr, err = p.handler.ResolveDocument(did) }); pn != "" {
			return "C20/panic", "ResolveDocument panicked: " + pn
		}
		if err != nil {
			if strings.Contains(err.Error(), "failed to transform public keys for did document") {
				// known finding (known-findings.json): an accepted operation carried an Ed25519 verification key type over a JWK
				// that is no Ed25519 key; this DID is not compared any further
				d.unresolvable = true
				// whatever keeps the anchored state from being shown: the long-form DID must not be answered with the create
				// operation's document and commitments as if nothing had been anchored since
				if d.longForm != "" && d.anchoredN > 1 {
					var lr *document.ResolutionResult
					var lerr error
					if pn := ev.Catch(func() { lr, lerr = p.handler.ResolveDocument(d.longForm) }); pn != "" {
						return "C20/panic", "ResolveDocument panicked: " + pn
					}
					if lerr == nil && lr != nil && lr.Document != nil {
						return "C20/long-form-answers-initial-state", fmt.Sprintf("DID %d has %d anchored operations and its short form fails with %q; its long form is answered from the initial state: %s", i, d.anchoredN, err.Error(), js(lr))
					}
				}
			}
			return "C20/resolution", fmt.Sprintf("DID %d (%s) with %d anchored and %d unpublished accepted operations does not resolve: %v", i, did, d.anchoredN, unpubN, err)
		}
		if rr == nil || rr.Document == nil {
			return "C20/resolution", fmt.Sprintf("DID %d (%s) with %d anchored and %d unpublished accepted operations does not resolve: ResolveDocument returned neither a document nor an error", i, did, d.anchoredN, unpubN)
		}
		p.hold(rr, "resolution result of DID "+d.suffix)
		if k, m := p.heldIntact(); k != "" {
			return k, m
		}
		got := norm(rr.Document).(map[string]interface{})
		gid, _ := got["id"].(string)
		if !didForm(gid, d.suffix, "") {
			return "C20/resolution", fmt.Sprintf("DID %d asked as %s: the resolved document is for %q", i, did, gid)
		}
		want := external(doc, gid)
		md := norm(rr.DocumentMetadata).(map[string]interface{})
		method, _ := md["method"].(map[string]interface{})
		gu, _ := method["updateCommitment"].(string)
		gr, _ := method["recoveryCommitment"].(string)
		gd, _ := md["deactivated"].(bool)
		if len(refdoc.DiffExternal(got, want)) > 0 || gu != upd || gr != rec || gd != deact {
			types := applied
			return "C20/resolution", fmt.Sprintf("DID %d (%s): reference applies %v (anchored %d, unpublished %d): resolved document %s commitments (%s,%s) deactivated %v; reference predicts %s (%s,%s) %v",
				i, did, types, d.anchoredN, unpubN, js(got), gu, gr, gd, js(want), upd, rec, deact)
		}
		if d.anchoredN >= 1 && unpubN == 0 {
			if pub, _ := method["published"].(bool); !pub {
				return "C20/publication-metadata", fmt.Sprintf("DID %d with %d anchored operations resolves with published=false (metadata %s)", i, d.anchoredN, js(md))
			}
			if cid, _ := md["canonicalId"].(string); !strings.HasPrefix(cid, ns+":canon") || !strings.HasSuffix(cid, ":"+d.suffix) {
				return "C20/publication-metadata", fmt.Sprintf("DID %d: canonical id %q does not carry the canonical reference the ledger assigned", i, cid)
			}
		}
		if d.anchoredN == 1 && unpubN == 0 && d.createReply != nil {
			// create response vs short-form resolution after anchoring: same content
			// modulo the DID string: the response's own DID is replaced by the resolved one before comparing
			reply := d.createReply
			if rid, _ := reply["id"].(string); rid != gid && rid != "" {
				var o map[string]interface{}
				if json.Unmarshal([]byte(strings.ReplaceAll(js(reply), rid, gid)), &o) == nil {
					reply = o
				}
			}
			if len(refdoc.DiffExternal(reply, got)) > 0 {
				return "C20/create-vs-short-form", fmt.Sprintf("create response %s and short-form resolution after anchoring %s differ", js(d.createReply), js(got))
			}
			p.feat["create-vs-short-form"] = true
		}
		if len(applied) >= 3 {
			for _, n := range applied {
				if strings.HasSuffix(n, ":recover") || strings.HasSuffix(n, ":deactivate") {
					p.feat["long-chain"] = true
				}
			}
		}
		if len(applied) < n {
			p.feat["accepted-but-not-applicable"] = true
		}
	}
	return "", ""
}

func (p *pipeline) finish() (string, string) {
	defer p.close()
	for i := 0; i < 200; i++ {
		pending := 0
		for _, d := range p.dids {
			pending += len(d.accepted) - d.anchoredN
		}
		if pending == 0 {
			break
		}
		if k, m := p.flush(true); k != "" || m != "" {
			return k, m
		}
	}
	for i, d := range p.dids {
		if d.anchoredN != len(d.accepted) {
			return "C20/not-anchored", fmt.Sprintf("DID %d: %d of %d accepted operations are stored after draining", i, d.anchoredN, len(d.accepted))
		}
	}
	return p.compareAll()
}

// ---- client side of the generator ----------------------------------------------------------------------------------

type clientDID struct {
	code     uint64
	suffix   string
	upd, rec *keys.Key
	dead     bool
	n        int
	pastUpd  []*keys.Key // update keys revealed (consumed) since the create / the last recover
}

// sigOf gives failures that belong to a recorded known finding their own signature.
func sigOf(kind, msg string) string {
	if kind == "C20/resolution" && strings.Contains(msg, "failed to transform public keys for did document") {
		return "C20/resolution/ed25519-key-type-over-foreign-jwk"
	}
	return kind
}

func TestPipeline(t *testing.T) {
	ev.Rule(chk, "rapid workloads over the whole pipeline made of real parts ((REST operations endpoint ->) DocumentHandler -> batch.Writer driven through the verif hook -> OperationHandler -> in-memory CAS -> recording ledger assigning time, non-monotone number, canonical and equivalent references -> Observer -> TxnProcessor -> operation store -> OperationProcessor -> didtransformer): 1-5 DIDs, 3-25 client operations (create / update / recover / deactivate with patch lists over all eight actions, all key types), drawn flush points (monitor / timeout ticks), maxOperationCount 1-4, operations submitted while an earlier one for the DID is still queued, signed anchoring windows (open, closed, and ending 0-3 ledger ticks after submission so that the flush point decides whether the operation lands inside, exactly at the end of or after its window), one or two protocol versions (second one with sha2-512 first, fewer patch actions, later genesis time), with and without an unpublished-operation store (one submission in eight then meets a store that fails for that one request; the client retries with the same key), one update in eight of a DID with earlier updates names a commitment its chain has already consumed as its next one (skipped by the state machine; the client retries with the same key, so a valid operation for the commitment is anchored behind the skipped one), with and without two method contexts on the transformers, one node in three with a label / domain for interim DIDs and / or an alias namespace (resolutions then ask by turns for the plain DID, the DID under the alias and - long-form only - the DID with the label as hint; the DID string of an answer may be any spelling that names the suffix under the namespace or alias); every result the node hands out stays held (last 16) and must not change while later requests are served; oracle: every stored operation carries the protocol version that was in force when it was accepted; after every flush and at the end every DID resolves (ResolveDocument) to the kit/refdoc + reference prediction over its accepted operations in anchoring order (document projection, commitments, deactivated, published flag and canonical id once anchored); create response == long-form resolution before anchoring == short-form resolution after anchoring (modulo the DID string); non-trivial = a DID with >= 3 applied operations including a recover or deactivate, or an operation submitted while another is queued, or a version switch")
	ev.Rapid(t, chk, 200, 1500, func(t *rapid.T) {
		c := &Case{Max: uint(rapid.IntRange(1, 4).Draw(t, "max")), TwoVersions: rapid.Bool().Draw(t, "twoVersions"), Unpublished: rapid.Bool().Draw(t, "unpublishedStore"), MethodContexts: rapid.Bool().Draw(t, "methodContexts"), ViaREST: rapid.Bool().Draw(t, "viaRest")}
		if rapid.IntRange(0, 2).Draw(t, "handlerNaming") == 0 {
			// the node hands out labelled interim DIDs, names a domain and / or answers under an alias namespace
			c.Label = rapid.SampledFrom([]string{"", "interim", "uAAA"}).Draw(t, "label")
			c.Domain = rapid.SampledFrom([]string{"", "https:example.com"}).Draw(t, "domain")
			c.Alias = rapid.Bool().Draw(t, "alias")
		}
		p := newPipeline(c)
		defer p.close()
		clients := map[int]*clientDID{}
		nd := rapid.IntRange(1, 5).Draw(t, "dids")
		n := rapid.IntRange(3, 25).Draw(t, "ops")
		fail := func(kind, msg string) {
			if kind != "" {
				ev.Record(chk, true, ev.Hash(c), "failed")
				ev.Fail(t, chk, kind, sigOf(kind, msg), c, "%s", msg)
			}
			if msg != "" && kind == "" {
				t.Skip(msg)
			}
		}
		startCode := p.currentCode()
		for i := 0; i < n; i++ {
			if rapid.IntRange(0, 3).Draw(t, "tick") == 0 {
				a := Action{Kind: "monitor-tick"}
				if rapid.Bool().Draw(t, "force") {
					a.Kind = "timeout-tick"
				}
				c.Actions = append(c.Actions, a)
				k, m := p.step(&c.Actions[len(c.Actions)-1])
				fail(k, m)
				continue
			}
			di := rapid.IntRange(0, nd-1).Draw(t, "did")
			cl := clients[di]
			a := Action{Kind: "submit", DID: di}
			if cl == nil {
				kt := rapid.SampledFrom(keys.AllTypes).Draw(t, "keyType")
				code := p.currentCode()
				cl = &clientDID{code: code, rec: keys.Get(kt, fmt.Sprintf("c20-%d", di), 0), upd: keys.Get(kt, fmt.Sprintf("c20-%d", di), 1)}
				a.Type = "create"
				a.Patches = gen.ValidPatches(t, 3, gen.PatchOpts{})
				a.NextUpdate, a.NextRecovery = asm.Commit(cl.upd, code), asm.Commit(cl.rec, code)
				cr := &asm.Create{Code: code, RecoveryCommit: a.NextRecovery, Delta: asm.Delta(a.NextUpdate, a.Patches),
					AnchorOrigin: rapid.SampledFrom([]interface{}{nil, "origin.example"}).Draw(t, "anchorOrigin"),
					DIDType:      rapid.SampledFrom([]string{"", "", "0001"}).Draw(t, "didType")}
				a.Request, a.LongForm = cr.Bytes(), cr.LongForm(ns)
				cl.suffix = cr.Suffix()
			} else {
				if cl.dead {
					continue
				}
				cl.n++
				kt := cl.upd.Type
				typ := rapid.SampledFrom([]string{"update", "update", "update", "recover", "deactivate"}).Draw(t, "type")
				a.Type = typ
				s := &asm.Signed{Type: typ, Suffix: cl.suffix, Code: cl.code}
				// one request in three signs an anchoring window: open on the ledger's clock; (1, 0) closes long before the
				// wall-clock stamp a pending copy carries, the others stay open for it too
				w := rapid.SampledFrom([][2]int64{{0, 0}, {0, 0}, {0, 0}, {0, 0}, {1, 0}, {1, 1 << 41}, {900, 1 << 41}, {-1, -1}, {-2, -2}}).Draw(t, "window")
				if w[0] < 0 {
					// a window that closes at (or one / two / three ticks after) the ledger's current time: depending on the
					// flush point the operation is anchored just inside, exactly at the end of, or just after its window
					end := int64(p.ledger.clock) + int64(rapid.IntRange(0, 3).Draw(t, "windowEndsIn"))
					if w[0] == -1 {
						w = [2]int64{end - 5, end}
					} else {
						w = [2]int64{end - int64(wire.BaseProtocol().MaxOperationTimeDelta), 0} // anchorUntil defaulted
					}
					p.feat["window-ends-near-anchoring"] = true
				}
				s.From, s.Until = w[0], w[1]
				a.From, a.Until = w[0], w[1]
				switch typ {
				case "update":
					next := keys.Get(kt, fmt.Sprintf("c20-%d", di), 10+cl.n)
					if len(cl.pastUpd) > 0 && rapid.IntRange(0, 7).Draw(t, "recommitsConsumed") == 0 {
						next = rapid.SampledFrom(cl.pastUpd).Draw(t, "consumedKey")
						a.Recommits = true
						p.feat["recommits-consumed-commitment"] = true
					}
					a.Patches = gen.ValidPatches(t, 3, gen.PatchOpts{Actions: []string{"add-public-keys", "remove-public-keys", "add-services", "remove-services", "add-also-known-as", "remove-also-known-as", "ietf-json-patch"}})
					if rapid.IntRange(0, 11).Draw(t, "keyMaterialMismatch") == 0 {
						// a key whose type demands other key material than its JWK holds: the node may refuse the request, but
						// if it accepts it the DID must stay resolvable
						a.Patches = append(a.Patches, map[string]interface{}{"action": "add-public-keys", "publicKeys": []interface{}{map[string]interface{}{"id": "odd", "type": rapid.SampledFrom([]string{"Ed25519VerificationKey2018", "Ed25519VerificationKey2020"}).Draw(t, "edType"), "purposes": []interface{}{"authentication"},
							"publicKeyJwk": rapid.SampledFrom([]interface{}{map[string]interface{}{"kty": "EC", "crv": "P-256", "x": "urgvYcEe6u3JFGEdiXafvK8jwdJB52aOHBVQef3MFOk", "y": "UUJv4kE49CaRoSvgi9QI7V5J1pSqIUKWGoyPHEZ400s"}, map[string]interface{}{"kty": "OKP", "crv": "Ed25519", "x": "AAAA"},
								// (the validator asks for kty, crv and x to be present; the JOSE library echoes an unknown kty in its error)
								map[string]interface{}{"kty": "not found", "crv": "Ed25519", "x": "11qYAYKxCrfVS_7TyWQHOg7hcvPapiMlrwIaaPcHURo"}}).Draw(t, "foreignJwk")}}})
						p.feat["key-material-mismatch-submitted"] = true
					}
					a.NextUpdate = asm.Commit(next, cl.code)
					s.RevealKey, s.Delta = cl.upd, asm.Delta(a.NextUpdate, a.Patches)
					a.Consumes = asm.Commit(cl.upd, cl.code)
				case "recover":
					nu, nr := keys.Get(kt, fmt.Sprintf("c20-%d", di), 100+cl.n), keys.Get(kt, fmt.Sprintf("c20-%d", di), 200+cl.n)
					a.Patches = gen.ValidPatches(t, 3, gen.PatchOpts{})
					a.NextUpdate, a.NextRecovery = asm.Commit(nu, cl.code), asm.Commit(nr, cl.code)
					s.RevealKey, s.Delta, s.NextRecoveryCommit = cl.rec, asm.Delta(a.NextUpdate, a.Patches), a.NextRecovery
					a.Consumes = asm.Commit(cl.rec, cl.code)
				default:
					s.RevealKey = cl.rec
					a.Consumes = asm.Commit(cl.rec, cl.code)
				}
				a.Request = s.Bytes()
			}
			if c.Unpublished && rapid.IntRange(0, 7).Draw(t, "unpublishedStoreFault") == 0 {
				a.UnpubFault = true
			}
			c.Actions = append(c.Actions, a)
			act := &c.Actions[len(c.Actions)-1]
			before := 0
			if d := p.dids[di]; d != nil {
				before = len(d.accepted)
			}
			k, m := p.step(act)
			fail(k, m)
			accepted := p.dids[di] != nil && len(p.dids[di].accepted) > before
			if !accepted {
				continue // client state advances only for accepted operations
			}
			if act.Recommits {
				continue // skipped by the state machine: the client retries with the same key
			}
			kt := cl.upd.Type
			switch act.Type {
			case "create":
				clients[di] = cl
			case "update":
				cl.pastUpd = append(cl.pastUpd, cl.upd)
				cl.upd = keys.Get(kt, fmt.Sprintf("c20-%d", di), 10+cl.n)
			case "recover":
				cl.pastUpd = nil
				cl.upd, cl.rec = keys.Get(kt, fmt.Sprintf("c20-%d", di), 100+cl.n), keys.Get(kt, fmt.Sprintf("c20-%d", di), 200+cl.n)
			case "deactivate":
				cl.dead = true
			}
		}
		k, m := p.finish()
		if p.currentCode() != startCode {
			p.feat["version-switch"] = true
		}
		var cl []string
		for f := range p.feat {
			cl = append(cl, "feature:"+f)
		}
		sort.Strings(cl)
		nt := p.feat["long-chain"] || p.feat["submitted-while-queued"] || p.feat["version-switch"]
		ev.Record(chk, nt, ev.Hash(c), append(cl, fmt.Sprintf("unpublished-store:%v", c.Unpublished), fmt.Sprintf("two-versions:%v", c.TwoVersions))...)
		ev.SampleFn(chk, func() interface{} {
			var l []string
			for _, a := range c.Actions {
				if a.Kind == "submit" {
					l = append(l, fmt.Sprintf("submit %s did%d", a.Type, a.DID))
				} else {
					l = append(l, a.Kind)
				}
			}
			return map[string]interface{}{"max": c.Max, "twoVersions": c.TwoVersions, "unpublishedStore": c.Unpublished, "actions": l}
		})
		fail(k, m)
	})
}
