// Package c06 decides property C06: resolving at a version time T (or version id V) returns exactly the
// state obtained by resolving only the operations anchored at or before T (up to and including V).
package c06

import (
	"encoding/json"
	"fmt"
	"net/http"
	"net/url"
	"reflect"
	"sort"
	"strings"
	"testing"
	"time"

	"github.com/trustbloc/sidetree-core-go/pkg/api/operation"
	"github.com/trustbloc/sidetree-core-go/pkg/document"
	"pgregory.net/rapid"

	"verifharness/kit/ev"
	"verifharness/kit/gen"
	"verifharness/kit/hist"
	"verifharness/kit/refmodel"
	"verifharness/kit/res"
	"verifharness/kit/wire"
)

func TestMain(m *testing.M) { ev.Main(m, "C06") }

const (
	chkTime = "version-time"
	chkID   = "version-id"
)

// Case is a history plus one cut.
type Case struct {
	hist.Case
	Cut     string `json:"cut"`               // "time" | "id" | "bad-time"
	T       uint64 `json:"t,omitempty"`       // version time (unix seconds)
	V       string `json:"v,omitempty"`       // version id (canonical reference)
	RawTime string `json:"rawTime,omitempty"` // malformed version time string
	// ZoneMinutes: the version time T is written with this zone offset (same instant; 0 = "Z")
	ZoneMinutes int `json:"zoneMinutes,omitempty"`
}

// spell writes the case's version time as RFC 3339 in the case's zone.
func (c *Case) spell() string {
	if c.ZoneMinutes == 0 {
		return rfc3339(c.T)
	}
	return time.Unix(int64(c.T), 0).In(time.FixedZone("", c.ZoneMinutes*60)).Format(time.RFC3339)
}

func init() {
	ev.RegisterReplay(chkTime, replay)
	ev.RegisterReplay(chkID, replay)
	ev.Assume("canonical references are unique per operation; version times are representable in RFC 3339")
	ev.Assume("the returned published/unpublished operation lists are not compared (the code documents version filtering as a view); the whole resolved state is")
}

// TestReplay runs first.
func TestReplay(t *testing.T) { ev.ReplayMain(t) }

func replay(raw json.RawMessage) (string, string) {
	var c Case
	if err := json.Unmarshal(raw, &c); err != nil {
		return "bad-replay", err.Error()
	}
	k, _, m, _ := evalCase(&c)
	return k, m
}

func js(v interface{}) string {
	b, _ := json.Marshal(v)
	return string(b)
}

func rfc3339(t uint64) string { return time.Unix(int64(t), 0).UTC().Format(time.RFC3339) }

// truncated returns the case restricted to the operations selected by keep.
func truncated(c *Case, keep func(i int) bool) *hist.Case {
	tc := c.Case
	tc.Ops = nil
	tc.StoreOrder, tc.UnpubOrder = nil, nil
	for i, o := range c.Ops {
		if keep(i) {
			tc.Ops = append(tc.Ops, o)
		}
	}
	return &tc
}

// chronological order of all operations: published by (time, number), then unpublished.
func chrono(c *Case) []int {
	idx := make([]int, len(c.Ops))
	for i := range idx {
		idx[i] = i
	}
	sort.SliceStable(idx, func(a, b int) bool {
		x, y := c.Ops[idx[a]].Desc, c.Ops[idx[b]].Desc
		if x.Published != y.Published {
			return x.Published
		}
		return refmodel.Less(&x, &y)
	})
	return idx
}

// evalCase returns the verdict and whether the cut removed at least one operation the full resolution applies.
func evalCase(c *Case) (kind, sig, msg string, removedApplied bool) {
	pc := c.Client()
	pub, unpub := c.Stores()
	var opt document.ResolutionOption
	var keep func(i int) bool
	switch c.Cut {
	case "bad-time":
		got := res.Resolve(pc, c.Suffix, pub, unpub, document.WithVersionTime(c.RawTime))
		if got.Panic != "" {
			return "C06/panic", "panic", got.Panic, false
		}
		if got.Err == "" {
			return "C06/malformed-time-accepted", "malformed-time", fmt.Sprintf("malformed version time %q was accepted", c.RawTime), false
		}
		return "", "", "", false
	case "time":
		opt = document.WithVersionTime(c.spell())
		keep = func(i int) bool { return c.Ops[i].Desc.Time <= c.T }
	case "id":
		opt = document.WithVersionID(c.V)
		order := chrono(c)
		pos := -1
		for p, i := range order {
			if c.Ops[i].Desc.Published && c.Ops[i].Desc.Ref == c.V {
				pos = p
				break
			}
		}
		in := map[int]bool{}
		for p, i := range order {
			if pos >= 0 && p <= pos {
				in[i] = true
			}
		}
		keep = func(i int) bool { return in[i] }
		if pos < 0 {
			keep = func(int) bool { return false }
		}
	}
	// the processor that answers the historical request has already served the latest state and two other historical
	// views of the same DID (a node keeps one processor object)
	warm := []document.ResolutionOption{document.WithVersionTime(rfc3339(1 << 40))}
	if len(c.Ops) > 0 {
		warm = append(warm, document.WithVersionID(c.Ops[len(c.Ops)-1].Desc.Ref), document.WithVersionTime(rfc3339(c.Ops[0].Desc.Time)))
	}
	if len(pub) > 1 {
		// ... and a request with a caller-supplied additional operation (a copy of the first stored one under another
		// reference, anchored right behind it): what one request brings along must not stay behind in the node's store
		extra := wire.CopyOp(pub[0])
		extra.CanonicalReference, extra.TransactionNumber = "ref-brought-along", extra.TransactionNumber+1
		warm = append(warm, document.WithAdditionalOperations([]*operation.AnchoredOperation{extra}))
	}
	got := res.ResolveAfter(pc, c.Suffix, pub, unpub, warm, opt)
	if got.Panic != "" {
		return "C06/panic", "panic", got.Panic, false
	}
	tc := truncated(c, keep)
	var want *res.Outcome
	if len(tc.Ops) == 0 {
		// unknown version id / time before the first operation: must be an error
		if got.Err == "" {
			return "C06/empty-cut-resolved", "empty-cut", fmt.Sprintf("cut %s (T=%d V=%q) selects no operation but resolution succeeded: %s", c.Cut, c.T, c.V, js(got)), false
		}
		q := url.Values{}
		if c.Cut == "time" {
			q.Set("versionTime", c.spell())
		} else {
			q.Set("versionId", c.V)
		}
		if st, body, pn := restResolve(c, pub, unpub, q); pn != "" {
			return "C06/panic", "panic", "REST resolve handler panicked: " + pn, false
		} else if st == http.StatusOK {
			return "C06/empty-cut-resolved", "empty-cut-rest", fmt.Sprintf("REST resolution with %s selects no operation but answered 200: %s", q.Encode(), js(body)), false
		}
		// the same version, spelled in a query string that a lenient reader drops instead of refusing (a ';' or a bad percent
		// escape inside the value): a request that names a version must never be answered with the latest state
		for _, tail := range []string{";x", "%zz", "%"} {
			if st, body, pn := restResolveRaw(c, restNS+":"+c.Suffix, pub, unpub, q.Encode()+tail); pn != "" {
				return "C06/panic", "panic", "REST resolve handler panicked: " + pn, false
			} else if st == http.StatusOK {
				return "C06/empty-cut-resolved", "empty-cut-rest-raw-query", fmt.Sprintf("REST resolution with the raw query %q names a version that selects no operation but answered 200: %s", q.Encode()+tail, js(body)), false
			}
		}
		// the version parameter given twice, the first time without a value (a reader that takes the first value of a
		// parameter sees no version at all)
		name := "versionId"
		if c.Cut == "time" {
			name = "versionTime"
		}
		for _, raw := range []string{name + "=&" + q.Encode(), name + "&" + q.Encode(), "x=1&" + name + "=&" + q.Encode()} {
			if st, body, pn := restResolveRaw(c, restNS+":"+c.Suffix, pub, unpub, raw); pn != "" {
				return "C06/panic", "panic", "REST resolve handler panicked: " + pn, false
			} else if st == http.StatusOK {
				return "C06/empty-cut-resolved", "empty-cut-rest-repeated-parameter", fmt.Sprintf("REST resolution with the raw query %q names a version that selects no operation but answered 200: %s", raw, js(body)), false
			}
		}
		// the same request for the long-form DID of an anchored DID must not fall back to its embedded initial state
		if lf := longForm(c); lf != "" && len(pub) > 0 && c.Case.Model().Found {
			if st, body, pn := restResolveDID(c, lf, pub, unpub, q); pn != "" {
				return "C06/panic", "panic", "REST resolve handler panicked: " + pn, false
			} else if st == http.StatusOK {
				return "C06/empty-cut-resolved", "empty-cut-rest-long-form", fmt.Sprintf("REST resolution of the long-form DID with %s selects no anchored operation but answered 200: %s", q.Encode(), js(body)), false
			}
		}
		return "", "", "", false
	}
	tp, tu := tc.Stores()
	want = res.Resolve(pc, c.Suffix, tp, tu)
	if d := res.SameState(got, want); len(d) > 0 {
		return "C06/version-mismatch", "version-mismatch", fmt.Sprintf("resolution at %s cut (T=%d %s, V=%q) differs from resolution of the truncated history on %v: versioned=%s truncated=%s", c.Cut, c.T, rfc3339(c.T), c.V, d, js(got), js(want)), false
	}
	// the same relation at the REST interface: GET <did>?versionTime= / ?versionId= over the full stores against a plain
	// GET over the truncated stores (every third case)
	if caseID(c)%3 == 0 {
		q := url.Values{}
		if c.Cut == "time" {
			q.Set("versionTime", c.spell())
		} else {
			q.Set("versionId", c.V)
		}
		fs, fb, fp := restResolve(c, pub, unpub, q)
		tcase := &Case{Case: *tc}
		ts, tb, tpn := restResolve(tcase, tp, tu, nil)
		if fp != "" || tpn != "" {
			return "C06/panic", "panic", "REST resolve handler panicked: " + fp + tpn, false
		}
		if (fs == http.StatusOK) != (ts == http.StatusOK) || (fs == http.StatusOK && !reflect.DeepEqual(fb, tb)) {
			return "C06/version-mismatch", "version-mismatch-rest", fmt.Sprintf("REST resolution with %s answers %d %s, plain REST resolution of the truncated history answers %d %s", q.Encode(), fs, js(fb), ts, js(tb)), false
		}
	}
	// non-triviality: does the full resolution apply an operation that the cut removes?
	full := c.Case.Model()
	applied := map[string]bool{}
	for _, n := range full.Applied {
		applied[n] = true
	}
	for i, o := range c.Ops {
		if !keep(i) && applied[o.Desc.Name] {
			removedApplied = true
		}
	}
	return "", "", "", removedApplied
}

func caseID(c *Case) uint64 {
	var parts []interface{}
	for _, o := range c.Ops {
		parts = append(parts, o.Desc.Name, o.Desc.Time, o.Desc.Num, o.Desc.Published)
	}
	parts = append(parts, c.Code, c.Cut, c.T, c.V, c.RawTime, c.ZoneMinutes)
	return ev.Hash(parts...)
}

func genHistory(t *rapid.T) *Case {
	h := gen.Hist(t, gen.HistOpts{MinOps: 2, MaxOps: 12, Forks: true, BadDeltas: true, Windows: true, Forges: true, DupCreates: true, Cycles: true, Replays: true, Pool: "c06"})
	anch := gen.Anchor(t, h, gen.AnchorOpts{Unpublished: true})
	c := &Case{Case: *hist.NewCase(h.Suffix, h.Code, 0, anch)}
	// store order is drawn too
	var pi, ui []int
	for i, o := range c.Ops {
		if o.Desc.Published {
			pi = append(pi, i)
		} else {
			ui = append(ui, i)
		}
	}
	c.StoreOrder, c.UnpubOrder = []int{}, []int{}
	for _, j := range gen.Perm(t, len(pi), "storePerm") {
		c.StoreOrder = append(c.StoreOrder, pi[j])
	}
	for _, j := range gen.Perm(t, len(ui), "unpubPerm") {
		c.UnpubOrder = append(c.UnpubOrder, ui[j])
	}
	return c
}

func TestVersionTime(t *testing.T) {
	ev.Rule(chkTime, "rapid: tree-generated histories (forks, forgeries, bad deltas, cycles, replays, duplicate creates, unpublished tails, drawn store order); for each history every cut time in {each operation's time -1, +0, +1, before the first, after the last} plus malformed time strings; oracle: Resolve(full, WithVersionTime(T)) == Resolve(operations with time <= T) on the whole resolved state; a cut selecting no operation must be an error; non-trivial = the cut removes >= 1 operation that the full resolution applies")
	ev.Rapid(t, chkTime, 250, 2500, func(t *rapid.T) {
		base := genHistory(t)
		cuts := map[uint64]bool{}
		for _, o := range base.Ops {
			for _, d := range []int64{-1, 0, 1} {
				if ct := int64(o.Desc.Time) + d; ct >= 0 {
					cuts[uint64(ct)] = true
				}
			}
		}
		cuts[1] = true
		var ts []uint64
		for k := range cuts {
			ts = append(ts, k)
		}
		sort.Slice(ts, func(i, j int) bool { return ts[i] < ts[j] })
		for _, T := range ts {
			c := *base
			c.Cut, c.T = "time", T
			// the same instant written in another zone selects the same version
			c.ZoneMinutes = rapid.SampledFrom([]int{0, 0, 0, 120, -300, 330, 1, -1, 839}).Draw(t, "zoneMinutes")
			kind, sig, msg, nt := evalCase(&c)
			ev.Record(chkTime, nt, caseID(&c), "cut:time")
			ev.SampleFn(chkTime, func() interface{} { s := c.Summary(); s["cutTime"] = T; return s })
			if kind != "" {
				ev.Fail(t, chkTime, kind, sig, &c, "%s", msg)
			}
		}
		// a well-formed version time before the epoch lies before every operation: must be an error
		pre := *base
		pre.Cut = "bad-time"
		pre.RawTime = rapid.SampledFrom([]string{"1969-12-31T23:59:59Z", "1960-01-01T00:00:00Z", "0001-01-01T00:00:00Z", "1970-01-01T00:00:00+00:01"}).Draw(t, "preEpoch")
		{
			kind, sig, msg, _ := evalCase(&pre)
			ev.Record(chkTime, true, caseID(&pre), "cut:pre-epoch-time")
			if kind != "" {
				ev.Fail(t, chkTime, "C06/time-before-first-operation-accepted", sig, &pre, "%s", strings.Replace(msg, "malformed version time", "version time before the first operation", 1))
			}
		}
		bad := *base
		bad.Cut = "bad-time"
		bad.RawTime = rapid.SampledFrom([]string{"", " ", "yesterday", "2021-13-45T00:00:00Z", "1600000000", "2021-01-01", "2021-01-01T00:00:00", "2021-01-01T25:00:00Z"}).Draw(t, "badTime")
		if bad.RawTime != "" { // the empty string means "no version time" by API contract
			kind, sig, msg, _ := evalCase(&bad)
			ev.Record(chkTime, true, caseID(&bad), "cut:malformed-time")
			if kind != "" {
				ev.Fail(t, chkTime, kind, sig, &bad, "%s", msg)
			}
		}
	})
}

func TestVersionID(t *testing.T) {
	ev.Rule(chkID, "rapid: same histories; for each history every canonical reference as version id plus two unknown ones (one of them worded like an error message: 'ref not found', 'not found', ...); oracle: Resolve(full, WithVersionID(V)) == Resolve(chronological prefix of published operations up to and including V's operation); unknown V must be an error; non-trivial = the cut removes >= 1 operation that the full resolution applies")
	ev.Rapid(t, chkID, 250, 2500, func(t *rapid.T) {
		base := genHistory(t)
		var vs []string
		for _, o := range base.Ops {
			if o.Desc.Published {
				vs = append(vs, o.Desc.Ref)
			}
		}
		// unknown version ids: a plain one and one whose text resembles the wording of error messages (a caller's string
		// that is echoed in an error must not be mistaken for the error's meaning)
		unknown := map[string]bool{"no-such-reference": true}
		unknown[rapid.SampledFrom([]string{"ref not found", "not found", "uniqueSuffix not found in the store", "create operation not found", "ref-0 ", "REF-0", "' is not a valid versionId"}).Draw(t, "unknownVersionId")] = true
		for u := range unknown {
			vs = append(vs, u)
		}
		sort.Strings(vs)
		for _, V := range vs {
			c := *base
			c.Cut, c.V = "id", V
			kind, sig, msg, nt := evalCase(&c)
			ev.Record(chkID, nt || unknown[V], caseID(&c), "cut:id", fmt.Sprintf("unknown-id:%v", unknown[V]))
			ev.SampleFn(chkID, func() interface{} { s := c.Summary(); s["versionId"] = V; return s })
			if kind != "" {
				ev.Fail(t, chkID, kind, sig, &c, "%s", msg)
			}
		}
	})
}
