package c06

import (
	"encoding/json"
	"fmt"
	"net/http"
	"net/http/httptest"
	"net/url"
	"time"

	"github.com/gorilla/mux"
	"github.com/trustbloc/sidetree-core-go/pkg/api/operation"
	"github.com/trustbloc/sidetree-core-go/pkg/dochandler"
	"github.com/trustbloc/sidetree-core-go/pkg/processor"
	restdoc "github.com/trustbloc/sidetree-core-go/pkg/restapi/dochandler"

	"verifharness/kit/asm"
	"verifharness/kit/ev"
	"verifharness/kit/refjcs"
	"verifharness/kit/wire"
)

const restNS = "did:sidetree"

type restMetrics struct{}

func (restMetrics) HTTPResolveTime(time.Duration) {}

type noWriter struct{}

func (noWriter) Add(*operation.QueuedOperation, uint64) error { return nil }

type unpubOps struct {
	ops []*operation.AnchoredOperation
}

func (u *unpubOps) Get(suffix string) ([]*operation.AnchoredOperation, error) {
	var out []*operation.AnchoredOperation
	for _, op := range u.ops {
		if op.UniqueSuffix == suffix {
			out = append(out, wire.CopyOp(op))
		}
	}
	if len(out) == 0 {
		return nil, fmt.Errorf("not found")
	}
	return out, nil
}

// restResolve resolves did:sidetree:<suffix> through the REST resolve handler over a document handler and processor
// wired on the given stores; query is the raw query string ("versionTime=..." / "versionId=..." / ""). It returns
// the HTTP status and the decoded response body (document + metadata), or a panic description.
func restResolve(c *Case, pub, unpub []*operation.AnchoredOperation, query url.Values) (status int, body map[string]interface{}, panicked string) {
	return restResolveDID(c, restNS+":"+c.Suffix, pub, unpub, query)
}

// longForm returns the long-form DID of the case's first create (suffix + encoded initial state), or "".
func longForm(c *Case) string {
	for _, o := range c.Ops {
		if o.Desc.Type != "create" {
			continue
		}
		var req map[string]interface{}
		if json.Unmarshal(o.Request, &req) != nil || req["suffixData"] == nil || req["delta"] == nil {
			return ""
		}
		init := map[string]interface{}{"suffixData": req["suffixData"], "delta": req["delta"]}
		return restNS + ":" + c.Suffix + ":" + asm.B64(refjcs.MustCanonicalGo(init))
	}
	return ""
}

func restResolveDID(c *Case, did string, pub, unpub []*operation.AnchoredOperation, query url.Values) (status int, body map[string]interface{}, panicked string) {
	return restResolveRaw(c, did, pub, unpub, query.Encode())
}

// restResolveRaw sends the query string as it is (also one that a lenient reader would partly drop).
func restResolveRaw(c *Case, did string, pub, unpub []*operation.AnchoredOperation, rawQuery string) (status int, body map[string]interface{}, panicked string) {
	pc := c.Client()
	proc := processor.New("verif", &wire.SliceStore{Ops: pub}, pc, processor.WithUnpublishedOperationStore(&unpubOps{ops: unpub}))
	dh := dochandler.New(restNS, nil, pc, noWriter{}, proc, wire.DocMetrics{})
	h := restdoc.NewResolveHandler(dh, restMetrics{})
	u := "/identifiers/" + did
	req := httptest.NewRequest(http.MethodGet, u, nil)
	req.URL.RawQuery = rawQuery
	req = mux.SetURLVars(req, map[string]string{"id": did})
	rw := httptest.NewRecorder()
	panicked = ev.Catch(func() { h.Resolve(rw, req) })
	if panicked != "" {
		return 0, nil, panicked
	}
	status = rw.Code
	if status == http.StatusOK {
		_ = json.Unmarshal(rw.Body.Bytes(), &body)
	}
	return status, body, ""
}
