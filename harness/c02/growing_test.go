package c02

import (
	"encoding/json"
	"fmt"
	"testing"

	"github.com/trustbloc/sidetree-core-go/pkg/api/operation"
	"github.com/trustbloc/sidetree-core-go/pkg/processor"
	"pgregory.net/rapid"

	"verifharness/kit/ev"
	"verifharness/kit/gen"
	"verifharness/kit/hist"
	"verifharness/kit/refmodel"
	"verifharness/kit/res"
	"verifharness/kit/wire"
)

const chkGrow = "growing-store-long-lived-processor"

// GrowCase: the anchored operations of one DID become visible to a node's operation store one at a time in the
// order Visible (indexes into Ops; not necessarily the anchoring order - a node may learn of an earlier transaction
// later); ONE OperationProcessor object resolves the DID after every addition.
type GrowCase struct {
	hist.Case
	Visible []int `json:"visibleOrder"`
}

func init() { ev.RegisterReplay(chkGrow, replayGrow) }

func replayGrow(raw json.RawMessage) (string, string) {
	var c GrowCase
	if err := json.Unmarshal(raw, &c); err != nil {
		return "bad-replay", err.Error()
	}
	return evalGrow(&c)
}

func evalGrow(c *GrowCase) (string, string) {
	store := &wire.SliceStore{}
	p := processor.New("verif", store, res.BoundedClient(c.Client(), 60*len(c.Ops)*len(c.Ops)+60))
	params := refmodel.Params{MaxTimeDelta: c.Protocol().MaxOperationTimeDelta}
	descs := c.Descs()
	var visible []*refmodel.Op
	for step, i := range c.Visible {
		store.Ops = append([]*operation.AnchoredOperation{c.Anchored(i)}, store.Ops...) // newest first: the order must not matter
		visible = append(visible, descs[i])
		var got *res.Outcome
		if pn := ev.Catch(func() {
			rm, err := p.Resolve(c.Suffix)
			if err != nil {
				got = &res.Outcome{Err: err.Error()}
				return
			}
			got = res.FromModel(rm, nil)
		}); pn != "" {
			return "C02/panic", fmt.Sprintf("step %d: Resolve on the long-lived processor panicked: %s", step, pn)
		}
		m := refmodel.Resolve(refmodel.Order(visible), params)
		if v, _ := res.VsModel(got, m); len(v) > 0 {
			return "C02/winner", fmt.Sprintf("step %d (after %s became visible): the long-lived processor's result is not the function of the visible set that the reference computes, fields %v: implementation=%s reference=%s", step, descs[i].Name, v, js(got), js(m))
		}
	}
	return "", ""
}

func TestGrowingStore(t *testing.T) {
	ev.Rule(chkGrow, "rapid: tree-generated histories (forks, bad deltas, duplicate creates anchored at other coordinates, replays), anchored at drawn coordinates; the operations become visible to the store in a drawn order (not necessarily the anchoring order) and ONE OperationProcessor object resolves the DID after every addition; oracle: every resolution equals the reference computed from the visible set alone; non-trivial = an operation becomes visible after one that was anchored later")
	ev.Rapid(t, chkGrow, 300, 3000, func(t *rapid.T) {
		h := gen.Hist(t, gen.HistOpts{MinOps: 2, MaxOps: 8, Forks: true, BadDeltas: true, DupCreates: true, Cycles: true, Replays: true, Pool: "c02g"})
		anch := gen.Anchor(t, h, gen.AnchorOpts{})
		c := &GrowCase{Case: *hist.NewCase(h.Suffix, h.Code, 0, anch)}
		c.Visible = gen.Perm(t, len(c.Ops), "visibleOrder")
		if rapid.Bool().Draw(t, "mostlyChronological") {
			// chronological except for one operation that is learnt late
			chron := chronological(&c.Case, indexes(&c.Case, true))
			k := rapid.IntRange(0, len(chron)-1).Draw(t, "late")
			late := chron[k]
			c.Visible = append(append([]int{}, chron[:k]...), chron[k+1:]...)
			at := rapid.IntRange(k, len(c.Visible)).Draw(t, "lateAt")
			c.Visible = append(c.Visible[:at], append([]int{late}, c.Visible[at:]...)...)
		}
		backwards := false
		for a := 1; a < len(c.Visible); a++ {
			x, y := c.Ops[c.Visible[a-1]].Desc, c.Ops[c.Visible[a]].Desc
			if y.Time < x.Time || (y.Time == x.Time && y.Num < x.Num) {
				backwards = true
			}
		}
		kind, msg := evalGrow(c)
		ev.Record(chkGrow, backwards, ev.Hash(c), fmt.Sprintf("backwards:%v", backwards), fmt.Sprintf("ops:%d", len(c.Ops)/3*3))
		ev.SampleFn(chkGrow, func() interface{} { return map[string]interface{}{"history": c.Summary(), "visible": c.Visible} })
		if kind != "" {
			ev.Fail(t, chkGrow, kind, kind, c, "%s", msg)
		}
	})
}
