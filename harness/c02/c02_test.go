// Package c02 decides property C02: resolution is a deterministic function of the *set* of anchored
// operations; the earliest anchored valid operation (by transaction time, then number) wins; published
// operations precede unpublished ones.
package c02

import (
	"encoding/json"
	"fmt"
	"sort"
	"strings"
	"testing"

	"github.com/trustbloc/sidetree-core-go/pkg/api/operation"
	"github.com/trustbloc/sidetree-core-go/pkg/api/protocol"
	"github.com/trustbloc/sidetree-core-go/pkg/document"
	"github.com/trustbloc/sidetree-core-go/pkg/versions/1_0/doctransformer/metadata"
	"pgregory.net/rapid"

	"verifharness/kit/asm"
	"verifharness/kit/ev"
	"verifharness/kit/gen"
	"verifharness/kit/hist"
	"verifharness/kit/keys"
	"verifharness/kit/refmodel"
	"verifharness/kit/res"
)

func TestMain(m *testing.M) { ev.Main(m, "C02") }

const (
	chkEnum  = "enum-permutations"
	chkRapid = "rapid-competitors"
	chkMeta  = "metadata-lists"
)

func init() {
	ev.RegisterReplay(chkEnum, replay)
	ev.RegisterReplay(chkRapid, replay)
	ev.RegisterReplay(chkMeta, replayMeta)
	ev.Assume("operations of one DID carry pairwise distinct (transaction time, transaction number) pairs (the property's stated domain)")
	ev.Assume("reference model kit/refmodel and request assembler kit/asm are independent of the library; Go stdlib crypto and btcec curve arithmetic are trusted")
}

// TestReplay runs first: stored shrunk cases (testdata/regress) or the file given with --replay.
func TestReplay(t *testing.T) { ev.ReplayMain(t) }

func replay(raw json.RawMessage) (string, string) {
	var c hist.Case
	if err := json.Unmarshal(raw, &c); err != nil {
		return "bad-replay", err.Error()
	}
	k, _, m := evalCase(&c)
	return k, m
}

// chronological returns the store order sorted by (time, number).
func chronological(c *hist.Case, idx []int) []int {
	out := append([]int{}, idx...)
	sort.SliceStable(out, func(i, j int) bool {
		a, b := c.Ops[out[i]].Desc, c.Ops[out[j]].Desc
		return refmodel.Less(&a, &b)
	})
	return out
}

func indexes(c *hist.Case, published bool) []int {
	var out []int
	for i, o := range c.Ops {
		if o.Desc.Published == published {
			out = append(out, i)
		}
	}
	return out
}

// evalCase evaluates both oracles of C02 on a concrete case: (i) the result for the case's store order
// equals the result for the chronologically sorted store; (ii) the result equals the reference model,
// whose winner is the minimum by (time, number), published first.
func evalCase(c *hist.Case) (kind, sig, msg string) {
	pc := c.Client()
	pub, unpub := c.Stores()
	var opts []document.ResolutionOption
	add := c.Additional()
	if c.ForeignAdditional {
		// the create operation of another DID among the caller-supplied operations, anchored before everything else:
		// filed under its own suffix, and filed under the suffix that is being resolved
		foreign := hist.NewCreate(hist.CreateSpec{Name: "foreign-create", Code: c.Code, Recovery: keys.Get(keys.P256, "c02-foreign", 0), Update: keys.Get(keys.P256, "c02-foreign", 1), Markers: map[string]interface{}{"foreign": "1"}})
		own := foreign.At(0, 0, "ref-foreign-own-suffix", 0).Op
		forged := foreign.At(0, 0, "ref-foreign-forged-suffix", 0).Op
		forged.UniqueSuffix = c.Suffix
		// ... and handed over without a suffix (the field is optional)
		unlabelled := foreign.At(0, 0, "ref-foreign-no-suffix", 0).Op
		unlabelled.UniqueSuffix = ""
		add = append(add, own, forged, unlabelled)
		// the DID's own additional operations may come without a suffix as well: nothing changes for them
		for i, op := range add[:len(add)-3] {
			if (i+len(c.Ops))%2 == 0 {
				cp := *op
				cp.UniqueSuffix = ""
				add[i] = &cp
			}
		}
	}
	if len(add) > 0 {
		opts = append(opts, document.WithAdditionalOperations(add))
	}
	got := res.Resolve(pc, c.Suffix, pub, unpub, opts...)
	if got.Panic != "" {
		return "C02/panic", "panic", "Resolve panicked: " + got.Panic
	}
	sorted := *c
	sorted.AdditionalOrder = nil
	sorted.StoreOrder = chronological(c, indexes(c, true))
	sorted.UnpubOrder = chronological(c, indexes(c, false))
	sp, su := sorted.Stores()
	ref := res.Resolve(pc, c.Suffix, sp, su)
	if d := res.SameState(got, ref); len(d) > 0 {
		return "C02/store-order", "store-order", fmt.Sprintf("result depends on the order the store returns operations in: fields %v differ between store order %v and chronological order %v; got=%s chronological=%s",
			d, c.StoreOrder, sorted.StoreOrder, js(got), js(ref))
	}
	m := c.Model()
	if v, _ := res.VsModel(got, m); len(v) > 0 {
		return "C02/winner", "winner", fmt.Sprintf("result differs from the earliest-anchored-wins reference on %v: implementation=%s reference=%s (reference applied %v)", v, js(got), js(m), m.Applied)
	}
	return "", "", ""
}

func js(v interface{}) string {
	b, _ := json.Marshal(v)
	return string(b)
}

// competitors counts commitments (and the create slot) for which at least two valid candidates exist.
func competitors(c *hist.Case) int {
	by := map[string]int{}
	for _, o := range c.Ops {
		d := o.Desc
		if !d.Authorised {
			continue
		}
		switch d.Type {
		case "create":
			by["create"]++
		case "update":
			if d.Delta == refmodel.DeltaGood || d.Delta == refmodel.DeltaFailPatch {
				by["u:"+d.Consumes]++
			}
		default:
			by["r:"+d.Consumes]++
		}
	}
	n := 0
	for _, k := range by {
		if k >= 2 {
			n++
		}
	}
	return n
}

func caseID(c *hist.Case) uint64 {
	var parts []interface{}
	for _, o := range c.Ops {
		parts = append(parts, o.Desc.Name, o.Desc.Time, o.Desc.Num, o.Desc.Published)
	}
	parts = append(parts, c.StoreOrder, c.UnpubOrder, c.Code)
	return ev.Hash(parts...)
}

// ------------------------------------------------------------------------------------------------
// bounded exhaustive part

type alphabet struct {
	suffix string
	ops    []*hist.Op
}

func buildAlphabet(kt keys.Type, code uint64) *alphabet {
	k := func(i int) *keys.Key { return keys.Get(kt, "c02-enum", i) }
	mk := func(name string) map[string]interface{} { return map[string]interface{}{name: "1"} }
	c := hist.NewCreate(hist.CreateSpec{Name: "C", Code: code, Recovery: k(0), Update: k(1), Markers: mk("c")})
	c2 := hist.NewCreate(hist.CreateSpec{Name: "C2-other-delta", Code: code, Recovery: k(0), Update: k(1), Markers: mk("c"), Opt: hist.Opt{Delta: refmodel.DeltaMismatch}})
	s := c.Suffix
	sg := func(name, typ string, reveal, nu, nr *keys.Key) *hist.Op {
		return hist.NewSigned(hist.SignedSpec{Name: name, Type: typ, Suffix: s, Code: code, Reveal: reveal, NextUpd: nu, NextRec: nr, Markers: mk(strings.ToLower(name))})
	}
	return &alphabet{suffix: s, ops: []*hist.Op{
		c, c2,
		sg("A", "update", k(1), k(2), nil),
		sg("A2", "update", k(1), k(3), nil), // fork of A
		sg("B", "update", k(2), k(4), nil),  // continues A
		sg("R", "recover", k(0), k(5), k(6)),
		sg("R2", "recover", k(0), k(7), k(8)), // fork of R
		sg("D", "deactivate", k(0), nil, nil), // competes with R and R2
		sg("P", "update", k(5), k(9), nil),    // continues R
	}}
}

func permutations(n int) [][]int {
	var out [][]int
	p := make([]int, n)
	for i := range p {
		p[i] = i
	}
	var rec func(k int)
	rec = func(k int) {
		if k == n {
			out = append(out, append([]int{}, p...))
			return
		}
		for i := k; i < n; i++ {
			p[k], p[i] = p[i], p[k]
			rec(k + 1)
			p[k], p[i] = p[i], p[k]
		}
	}
	rec(0)
	return out
}

func subsets(n, maxSize int) [][]int {
	var out [][]int
	var rec func(start int, cur []int)
	rec = func(start int, cur []int) {
		out = append(out, append([]int{}, cur...))
		if len(cur) == maxSize {
			return
		}
		for i := start; i < n; i++ {
			rec(i+1, append(cur, i))
		}
	}
	rec(0, nil)
	return out
}

var coordPatterns = []struct {
	name string
	at   func(pos, n int) (uint64, uint64)
}{
	{"co-monotone", func(pos, n int) (uint64, uint64) { return uint64(10 + pos), uint64(pos) }},
	{"anti-monotone", func(pos, n int) (uint64, uint64) { return uint64(10 + pos), uint64(n - pos) }},
	{"equal-numbers", func(pos, n int) (uint64, uint64) { return uint64(10 + pos), 3 }},
	{"equal-times", func(pos, n int) (uint64, uint64) { return 10, uint64(pos) }},
}

// TestEnumPermutations: every sub-history (containing the create) of at most K operations from the
// 9-operation alphabet, in every anchoring order, under four (time, number) patterns, with the store
// returning the operations in every possible order.
func TestEnumPermutations(t *testing.T) {
	maxOthers := ev.N(3, 4)
	ev.Rule(chkEnum, fmt.Sprintf("all sub-histories of <= %d operations (genuine create + <= %d of 8 others: duplicate create with other delta, update A, fork A2, B after A, recover R, fork R2, deactivate D, update P after R) x all anchoring orders x 4 coordinate patterns (co-monotone, anti-monotone numbers, equal numbers, equal times) x all store return orders; oracle: result == result for chronological store order == reference model; non-trivial = >= 2 valid candidates for one commitment or create slot and store order differs from chronological", maxOthers+1, maxOthers))
	alphaSets := []*alphabet{buildAlphabet(keys.Ed25519, asm.SHA256)}
	if ev.Thorough() {
		alphaSets = append(alphaSets, buildAlphabet(keys.P256, asm.SHA512))
	}
	item := 0
	complete := true
	for ai, al := range alphaSets {
		for _, sub := range subsets(len(al.ops)-1, maxOthers) {
			members := []int{0}
			for _, i := range sub {
				members = append(members, i+1)
			}
			n := len(members)
			perms := permutations(n)
			for _, anchorOrder := range perms {
				item++
				if !ev.Mine(item) {
					continue
				}
				for _, pat := range coordPatterns {
					var h []*hist.Anchored
					for pos, mi := range anchorOrder {
						tm, num := pat.at(pos, n)
						h = append(h, al.ops[members[mi]].At(tm, num, fmt.Sprintf("ref-%d", pos), 0))
					}
					base := hist.NewCase(al.suffix, alphaCode(ai), 0, h)
					comp := competitors(base)
					for _, so := range perms {
						c := *base
						c.StoreOrder = so
						c.Note = pat.name
						kind, sig, msg := evalCase(&c)
						chron := chronological(&c, so)
						nontrivial := comp > 0 && fmt.Sprint(chron) != fmt.Sprint(so)
						ev.Record(chkEnum, nontrivial, caseID(&c), "pattern:"+pat.name, fmt.Sprintf("size:%d", n))
						cc := c
						ev.SampleFn(chkEnum, func() interface{} { return cc.Summary() })
						if kind != "" {
							complete = false
							ev.Fail(t, chkEnum, kind, sig, &c, "%s", msg)
						}
					}
				}
			}
		}
	}
	if complete {
		ev.Exhaustive(chkEnum)
	}
}

func alphaCode(i int) uint64 {
	if i == 1 {
		return asm.SHA512
	}
	return asm.SHA256
}

// ------------------------------------------------------------------------------------------------
// random part

func TestRapidCompetitors(t *testing.T) {
	ev.Rule(chkRapid, "rapid: tree-generated histories (all 5 key types, both hash algorithms, forks, bad deltas, windows, duplicate creates, unpublished operations), (time, number) drawn so that time order and number order disagree, store and unpublished-store return orders drawn as permutations, and (one in three) a drawn subset of the operations handed over through the additional-operations resolution option in a drawn order; same two oracles; non-trivial = >= 2 valid candidates for a commitment/create slot and a non-chronological store order")
	ev.Rapid(t, chkRapid, 600, 6000, func(t *rapid.T) {
		h := gen.Hist(t, gen.HistOpts{MinOps: 2, MaxOps: 9, Forks: true, BadDeltas: true, Windows: true, DupCreates: true, Cycles: true, Replays: true, Pool: "c02"})
		anch := gen.Anchor(t, h, gen.AnchorOpts{Unpublished: true})
		c := hist.NewCase(h.Suffix, h.Code, 0, anch)
		pi, ui := indexes(c, true), indexes(c, false)
		pp, up := gen.Perm(t, len(pi), "storePerm"), gen.Perm(t, len(ui), "unpubPerm")
		for _, j := range pp {
			c.StoreOrder = append(c.StoreOrder, pi[j])
		}
		for _, j := range up {
			c.UnpubOrder = append(c.UnpubOrder, ui[j])
		}
		if c.StoreOrder == nil {
			c.StoreOrder = []int{}
		}
		if c.UnpubOrder == nil {
			c.UnpubOrder = []int{}
		}
		if rapid.IntRange(0, 2).Draw(t, "additionalOperations") == 0 {
			// some operations (never the first create) reach the resolution through the caller-supplied
			// additional-operations option instead of a store
			move := func(l []int) []int {
				var keep []int
				for _, i := range l {
					if i != 0 && rapid.IntRange(0, 2).Draw(t, "viaOption") == 0 {
						c.AdditionalOrder = append(c.AdditionalOrder, i)
					} else {
						keep = append(keep, i)
					}
				}
				if keep == nil {
					keep = []int{}
				}
				return keep
			}
			c.StoreOrder, c.UnpubOrder = move(c.StoreOrder), move(c.UnpubOrder)
			ap := gen.Perm(t, len(c.AdditionalOrder), "additionalPerm")
			ao := make([]int, len(ap))
			for k, j := range ap {
				ao[k] = c.AdditionalOrder[j]
			}
			c.AdditionalOrder = ao
			// ... and now and then the caller also hands over the create operation of another DID
			c.ForeignAdditional = rapid.IntRange(0, 2).Draw(t, "foreignAdditional") == 0
		}
		kind, sig, msg := evalCase(c)
		comp := competitors(c)
		nonchron := fmt.Sprint(chronological(c, c.StoreOrder)) != fmt.Sprint(c.StoreOrder) || fmt.Sprint(chronological(c, c.UnpubOrder)) != fmt.Sprint(c.UnpubOrder)
		ev.Record(chkRapid, comp > 0 && nonchron, caseID(c), fmt.Sprintf("competing-slots:%d", min(comp, 3)), fmt.Sprintf("unpublished:%d", min(len(ui), 2)), fmt.Sprintf("ops:%d", len(c.Ops)/3*3))
		ev.SampleFn(chkRapid, func() interface{} { return c.Summary() })
		if kind != "" {
			ev.Fail(t, chkRapid, kind, sig, c, "%s", msg)
		}
	})
}

// ------------------------------------------------------------------------------------------------
// metadata operation lists

type metaCase struct {
	Pub   []metaOp `json:"published"`
	Unpub []metaOp `json:"unpublished"`
}

type metaOp struct {
	Time uint64 `json:"time"`
	Num  uint64 `json:"num"`
	Ref  string `json:"ref"`
	Tag  string `json:"tag"`
}

func (m *metaCase) lists(order, uorder []int) (pub, unpub []*operation.AnchoredOperation) {
	mk := func(o metaOp) *operation.AnchoredOperation {
		return &operation.AnchoredOperation{Type: operation.TypeUpdate, UniqueSuffix: "s", OperationRequest: []byte(o.Tag), TransactionTime: o.Time, TransactionNumber: o.Num, CanonicalReference: o.Ref}
	}
	for _, i := range order {
		pub = append(pub, mk(m.Pub[i]))
	}
	for _, i := range uorder {
		unpub = append(unpub, mk(m.Unpub[i]))
	}
	return
}

func metaLists(pub, unpub []*operation.AnchoredOperation) (string, error) {
	md := metadata.New(metadata.WithIncludePublishedOperations(true), metadata.WithIncludeUnpublishedOperations(true))
	rm := &protocol.ResolutionModel{Doc: document.Document{}, PublishedOperations: pub, UnpublishedOperations: unpub}
	out, err := md.CreateDocumentMetadata(rm, protocol.TransformationInfo{document.PublishedProperty: true})
	if err != nil {
		return "", err
	}
	method := out[document.MethodProperty].(document.Metadata)
	b, err := json.Marshal([]interface{}{method[document.PublishedOperationsProperty], method[document.UnpublishedOperationsProperty]})
	return string(b), err
}

type metaReplay struct {
	Case   metaCase `json:"case"`
	Order  []int    `json:"order"`
	UOrder []int    `json:"unpubOrder"`
}

func evalMeta(r *metaReplay) (string, string) {
	ident := func(n int) []int {
		p := make([]int, n)
		for i := range p {
			p[i] = i
		}
		return p
	}
	// reference order: the case lists are stored sorted by (time, number)
	want, err := metaLists(r.Case.lists(ident(len(r.Case.Pub)), ident(len(r.Case.Unpub))))
	if err != nil {
		return "C02/metadata-error", err.Error()
	}
	got, err := metaLists(r.Case.lists(r.Order, r.UOrder))
	if err != nil {
		return "C02/metadata-error", err.Error()
	}
	if got != want {
		return "C02/metadata-order", fmt.Sprintf("document metadata operation lists depend on input order: input order %v/%v gives %s, chronological input gives %s", r.Order, r.UOrder, got, want)
	}
	return "", ""
}

func replayMeta(raw json.RawMessage) (string, string) {
	var r metaReplay
	if err := json.Unmarshal(raw, &r); err != nil {
		return "bad-replay", err.Error()
	}
	return evalMeta(&r)
}

func TestMetadataLists(t *testing.T) {
	ev.Rule(chkMeta, "rapid: 2-7 published (distinct canonical references, distinct (time, number), numbers independent of times) and 0-3 unpublished (distinct times) operations handed to metadata.CreateDocumentMetadata in a drawn order; oracle: the rendered published/unpublished operation lists are identical to those for chronologically ordered input; non-trivial = input order is not chronological")
	ev.Rapid(t, chkMeta, 1500, 15000, func(t *rapid.T) {
		n := rapid.IntRange(2, 7).Draw(t, "n")
		nu := rapid.IntRange(0, 3).Draw(t, "nu")
		perm := gen.Perm(t, n, "numPerm")
		var mc metaCase
		for i := 0; i < n; i++ {
			mc.Pub = append(mc.Pub, metaOp{Time: uint64(rapid.IntRange(1, 4).Draw(t, "time")), Num: uint64(perm[i]), Ref: fmt.Sprintf("ref%d", i), Tag: fmt.Sprintf("p%d", i)})
		}
		for i := 0; i < nu; i++ {
			mc.Unpub = append(mc.Unpub, metaOp{Time: uint64(100 + i), Tag: fmt.Sprintf("u%d", i)})
		}
		sort.SliceStable(mc.Pub, func(i, j int) bool {
			if mc.Pub[i].Time != mc.Pub[j].Time {
				return mc.Pub[i].Time < mc.Pub[j].Time
			}
			return mc.Pub[i].Num < mc.Pub[j].Num
		})
		r := &metaReplay{Case: mc, Order: gen.Perm(t, n, "order"), UOrder: gen.Perm(t, nu, "uorder")}
		kind, msg := evalMeta(r)
		ev.Record(chkMeta, !gen.IsIdentity(r.Order) || !gen.IsIdentity(r.UOrder), ev.Hash(r), fmt.Sprintf("n:%d", n))
		ev.Sample(chkMeta, r)
		if kind != "" {
			ev.Fail(t, chkMeta, kind, "metadata-order", r, "%s", msg)
		}
	})
}
