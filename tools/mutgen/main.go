// mutgen lists mechanical mutants of one Go source file as JSON (byte-offset splices), for bin/mutscan.
package main

import (
	"encoding/json"
	"fmt"
	"go/ast"
	"go/parser"
	"go/token"
	"os"
	"strconv"
	"strings"
)

type mutant struct {
	Kind  string `json:"kind"`
	Line  int    `json:"line"`
	Start int    `json:"start"`
	End   int    `json:"end"`
	Old   string `json:"old"`
	New   string `json:"new"`
}

var swaps = map[token.Token][]string{
	token.LSS: {"<="}, token.LEQ: {"<"}, token.GTR: {">="}, token.GEQ: {">"},
	token.EQL: {"!="}, token.NEQ: {"=="}, token.LAND: {"||"}, token.LOR: {"&&"},
	token.ADD: {"-"}, token.SUB: {"+"},
}

func isLogCall(e ast.Expr) bool {
	c, ok := e.(*ast.CallExpr)
	if !ok {
		return false
	}
	s, ok := c.Fun.(*ast.SelectorExpr)
	if !ok {
		return false
	}
	switch x := s.X.(type) {
	case *ast.Ident:
		n := strings.ToLower(x.Name)
		return n == "logger" || n == "log" || n == "logfields"
	case *ast.SelectorExpr: // r.logger.Info(...)
		return strings.ToLower(x.Sel.Name) == "logger"
	}
	return false
}

func main() {
	path := os.Args[1]
	src, err := os.ReadFile(path)
	if err != nil {
		panic(err)
	}
	fset := token.NewFileSet()
	f, err := parser.ParseFile(fset, path, src, 0)
	if err != nil {
		panic(err)
	}
	var out []mutant
	off := func(p token.Pos) int { return fset.Position(p).Offset }
	add := func(kind string, s, e token.Pos, repl string) {
		a, b := off(s), off(e)
		out = append(out, mutant{Kind: kind, Line: fset.Position(s).Line, Start: a, End: b, Old: string(src[a:b]), New: repl})
	}
	inLog := 0
	var walk func(n ast.Node) bool
	walk = func(n ast.Node) bool {
		switch x := n.(type) {
		case *ast.CallExpr:
			if isLogCall(x) {
				return false // nothing inside a logging call matters
			}
		case *ast.BinaryExpr:
			for _, r := range swaps[x.Op] {
				add("binop "+x.Op.String()+"->"+r, x.OpPos, x.OpPos+token.Pos(len(x.Op.String())), r)
			}
		case *ast.IfStmt:
			add("if-negate", x.Cond.Pos(), x.Cond.End(), "!("+string(src[off(x.Cond.Pos()):off(x.Cond.End())])+")")
		case *ast.BlockStmt:
			for _, st := range x.List {
				switch s := st.(type) {
				case *ast.BranchStmt:
					if s.Tok == token.CONTINUE || s.Tok == token.BREAK {
						add("delete "+s.Tok.String(), s.Pos(), s.End(), "{}")
					}
				case *ast.ExprStmt:
					if !isLogCall(s.X) {
						add("delete call", s.Pos(), s.End(), "{}")
					}
				case *ast.AssignStmt:
					if s.Tok != token.DEFINE {
						add("delete assignment", s.Pos(), s.End(), "{}")
					}
				case *ast.IncDecStmt:
					add("delete incdec", s.Pos(), s.End(), "{}")
				case *ast.ReturnStmt:
					if n := len(s.Results); n > 0 {
						if id, ok := s.Results[n-1].(*ast.Ident); ok && id.Name == "err" {
							add("return nil error", id.Pos(), id.End(), "nil")
						}
					}
				}
			}
		case *ast.CaseClause:
			for _, st := range x.Body {
				if s, ok := st.(*ast.AssignStmt); ok && s.Tok != token.DEFINE {
					add("delete assignment", s.Pos(), s.End(), "{}")
				}
			}
		case *ast.BasicLit:
			if x.Kind == token.INT {
				if v, err := strconv.ParseInt(x.Value, 0, 64); err == nil {
					add("int+1", x.Pos(), x.End(), fmt.Sprint(v+1))
					if v > 0 {
						add("int-1", x.Pos(), x.End(), fmt.Sprint(v-1))
					}
				}
			}
		case *ast.GenDecl:
			if x.Tok == token.IMPORT {
				return false
			}
		}
		return true
	}
	_ = inLog
	ast.Inspect(f, walk)
	b, _ := json.Marshal(out)
	os.Stdout.Write(b)
}
